"""Executable oracles for the serialization properties on the real code (overlay):
C01 round trip, C02 field-by-field writer/reader, C09 reference identity, C17 loader robustness,
C07/C08 AuxData codec vs an independent reference implementation of the documented format, C14 lazy AuxData cell,
C15 type-name grammar.

python -m oracles.io_oracles <prop> <seed> <budget>     -> RESULT {json}
python -m oracles.io_oracles --replay <file>
"""
import io
import itertools
import json
import math
import random
import struct
import sys
import time
import traceback
import uuid as uuidlib

# ================================================================================================ random IRs


def U(rng_or_int):
    if isinstance(rng_or_int, int):
        return uuidlib.UUID(int=0x5000 + rng_or_int)
    return uuidlib.UUID(int=rng_or_int.getrandbits(128))


INT64 = [0, 1, -1, 2 ** 63 - 1, -2 ** 63, 12345]
UINT64 = [0, 1, 2 ** 64 - 1, 2 ** 63, 0x400000]
NAMES = ["", "main", ".text", "naïve-ü", "名前", "a\0b", "<x>,y"]


def gen_ir(g, rng, n_mod=None, with_aux=True, cross_module_refs=False):
    """A self-contained IR built through the public API in a random construction order."""
    k = itertools.count(rng.randrange(1000) * 1000)
    ir = g.IR(uuid=U(next(k)))
    mods = []
    for mi in range(n_mod if n_mod is not None else rng.randint(0, 3)):
        m = g.Module(name=rng.choice(NAMES), uuid=U(next(k)),
                     binary_path=rng.choice(NAMES), isa=rng.choice(list(g.Module.ISA)),
                     file_format=rng.choice(list(g.Module.FileFormat)), byte_order=rng.choice(list(g.Module.ByteOrder)),
                     preferred_addr=rng.choice(UINT64), rebase_delta=rng.choice(INT64))
        blocks, proxies, syms = [], [], []
        for si in range(rng.randint(0, 2)):
            flags = set(rng.sample(list(g.Section.Flag), rng.randint(0, 3)))
            s = g.Section(name=rng.choice(NAMES), uuid=U(next(k)), flags=flags)
            for bi_i in range(rng.randint(0, 2)):
                size = rng.choice([0, 1, 8, 64, 2 ** 32])
                contents = bytes(rng.randrange(256) for _ in range(min(size, rng.choice([0, 1, 5, 8]))))
                bi = g.ByteInterval(address=rng.choice([None, 0, 0x1000, 2 ** 64 - 1 - size if size < 2 ** 33 else 0]),
                                    size=size, contents=contents, uuid=U(next(k)))
                for b_i in range(rng.randint(0, 3)):
                    if rng.random() < 0.5:
                        b = g.CodeBlock(offset=rng.choice([0, 1, 4, 8]), size=rng.choice([0, 1, 4]), uuid=U(next(k)),
                                        decode_mode=rng.choice(list(g.CodeBlock.DecodeMode)))
                    else:
                        b = g.DataBlock(offset=rng.choice([0, 1, 4, 8]), size=rng.choice([0, 1, 4]), uuid=U(next(k)))
                    if rng.random() < 0.5:
                        b.byte_interval = bi
                    else:
                        bi.blocks.add(b)
                    blocks.append(b)
                if rng.random() < 0.5:
                    bi.section = s
                else:
                    s.byte_intervals.add(bi)
            if rng.random() < 0.5:
                s.module = m
            else:
                m.sections.add(s)
        for pi in range(rng.randint(0, 2)):
            p = g.ProxyBlock(uuid=U(next(k)), module=m)
            proxies.append(p)
        referents = blocks + proxies
        for yi in range(rng.randint(0, 3)):
            payload = rng.choice([None, 0, 7, 2 ** 64 - 1] + referents)
            y = g.Symbol(name=rng.choice(NAMES), uuid=U(next(k)), payload=payload, at_end=rng.random() < 0.3, module=m)
            syms.append(y)
        code = [b for b in blocks if isinstance(b, g.CodeBlock)]
        earlier = [b for pm_ in mods for b in pm_.code_blocks]        # blocks of *earlier* modules are fine as entry points
        if (code or earlier) and rng.random() < 0.6:
            m.entry_point = rng.choice(code + earlier) if rng.random() < 0.3 and earlier else rng.choice(code or earlier)
        if syms:
            for bi in m.byte_intervals:
                for off in rng.sample([0, 1, 5, 70], rng.randint(0, 2)):
                    attrs = set(rng.sample(list(g.SymbolicExpression.Attribute), rng.randint(0, 2)))
                    if rng.random() < 0.3:
                        attrs.add(rng.choice([77777, 123456]))        # unknown numeric attribute
                    if rng.random() < 0.5:
                        e = g.SymAddrConst(rng.choice(INT64), rng.choice(syms), attrs)
                    else:
                        e = g.SymAddrAddr(rng.choice(INT64), rng.choice(INT64), rng.choice(syms), rng.choice(syms), attrs)
                    bi.symbolic_expressions[off] = e
        if with_aux and rng.random() < 0.7:
            m.aux_data["names"] = g.AuxData({"a": rng.choice(INT64)}, "mapping<string,int64_t>")
            if referents:
                m.aux_data["refs"] = g.AuxData([rng.choice(referents)], "sequence<UUID>")
                m.aux_data["vrefs"] = g.AuxData(
                    {"k": g.serialization.Variant(0, rng.choice(referents)), "o": g.serialization.Variant(1, g.Offset(rng.choice(referents), 3))},
                    "mapping<string,variant<UUID,Offset,int64_t>>")
        mods.append(m)
        if rng.random() < 0.5:
            m.ir = ir
        else:
            ir.modules.append(m)
    # module-level tables naming nodes of *other* modules (earlier and later ones): resolution must not depend on the
    # order in which modules are decoded
    if with_aux and len(mods) >= 2:
        for i_, m in enumerate(mods):
            others = [n for j_, mm in enumerate(mods) if j_ != i_ for n in list(mm.cfg_nodes) + list(mm.symbols) + list(mm.sections)]
            if others and rng.random() < 0.6:
                m.aux_data["xrefs"] = g.AuxData([rng.choice(others) for _ in range(rng.randint(1, 3))], "sequence<UUID>")
                m.aux_data["xoffs"] = g.AuxData({g.Offset(rng.choice(others), 1): rng.choice(others)}, "mapping<Offset,UUID>")
    nodes = [n for n in ir.cfg_nodes]
    for _ in range(rng.randint(0, 4)):
        if not nodes:
            break
        lab = rng.choice([None, g.Edge.Label(rng.choice(list(g.Edge.Type)), rng.random() < 0.5, rng.random() < 0.5),
                          g.Edge.Label(g.Edge.Type.Branch, False, False)])
        ir.cfg.add(g.Edge(rng.choice(nodes), rng.choice(nodes), lab))
    if with_aux and rng.random() < 0.7:
        ir.aux_data["t"] = g.AuxData((rng.choice(UINT64), "sé"), "tuple<uint64_t,string>")
        if nodes:
            ir.aux_data["v"] = g.AuxData([g.serialization.Variant(1, rng.choice(nodes)), g.serialization.Variant(0, 5)],
                                         "sequence<variant<int64_t,UUID>>")
    return ir


# ================================================================================================ independent view


def label_view(l):
    return None if l is None else (l.type.value, bool(l.conditional), bool(l.direct))


def ir_view(g, ir):
    """Observable content of an IR as plain data (independent traversal, no deep_eq)."""
    def symexpr(e):
        attrs = sorted(a.value if isinstance(a, g.SymbolicExpression.Attribute) else a for a in e.attributes)
        if isinstance(e, g.SymAddrConst):
            return ("const", e.offset, e.symbol.uuid, attrs)
        return ("addr", e.scale, e.offset, e.symbol1.uuid, e.symbol2.uuid, attrs)

    def aux(c):
        return {k: (v.type_name, repr_value(g, v.data)) for k, v in c.aux_data.items()}
    mods = {}
    for m in ir.modules:
        secs = {}
        for s in m.sections:
            bis = {}
            for bi in s.byte_intervals:
                bis[bi.uuid] = dict(address=bi.address, size=bi.size, contents=bytes(bi.contents),
                                    blocks={b.uuid: (type(b).__name__, b.offset, b.size,
                                                     getattr(b, "decode_mode", None) and b.decode_mode.value)
                                            for b in bi.blocks},
                                    symexprs={k: symexpr(e) for k, e in bi.symbolic_expressions.items()})
            secs[s.uuid] = dict(name=s.name, flags=sorted(f.value for f in s.flags), intervals=bis)
        mods[m.uuid] = dict(name=m.name, binary_path=m.binary_path, isa=m.isa.value, file_format=m.file_format.value,
                            byte_order=m.byte_order.value, preferred_addr=m.preferred_addr, rebase_delta=m.rebase_delta,
                            entry=m.entry_point.uuid if m.entry_point is not None else None,
                            proxies=sorted(p.uuid for p in m.proxies), sections=secs,
                            symbols={y.uuid: (y.name, y.at_end, y.value, y.referent.uuid if y.referent is not None else None)
                                     for y in m.symbols},
                            aux=aux(m))
    edges = sorted(((e.source.uuid, e.target.uuid, label_view(e.label)) for e in ir.cfg), key=repr)
    return dict(uuid=ir.uuid, version=ir.version, module_order=[m.uuid for m in ir.modules], modules=mods, cfg=edges,
                aux=aux(ir))


def repr_value(g, v):
    if isinstance(v, g.Node):
        return ("node", v.uuid)
    if isinstance(v, float):
        return ("f", struct.pack("<d", v))
    if isinstance(v, dict):
        return ("d", sorted(((repr_value(g, k), repr_value(g, x)) for k, x in v.items()), key=repr))
    if isinstance(v, (set, frozenset)):
        return ("s", sorted((repr_value(g, x) for x in v), key=repr))
    if isinstance(v, list):
        return ("l", [repr_value(g, x) for x in v])
    if isinstance(v, tuple):
        if type(v).__name__ == "Offset":
            return ("off", repr_value(g, v[0]), v[1])
        return ("t", [repr_value(g, x) for x in v])
    if type(v).__name__ == "Variant":
        return ("v", v.index, repr_value(g, v.val))
    return v


def coherent(g, ir):
    """structural guarantees of a loaded IR (C17)"""
    errs = []
    seen = {}

    def reg(n):
        if n.uuid in seen and seen[n.uuid] is not n:
            errs.append("two attached nodes share uuid %s" % n.uuid)
        seen[n.uuid] = n
        if ir.get_by_uuid(n.uuid) is not n:
            errs.append("get_by_uuid does not return attached %s" % type(n).__name__)
    reg(ir)
    mods = list(ir.modules)
    if len(mods) != len({id(m) for m in mods}):
        errs.append("module listed twice")
    for m in mods:
        if m.ir is not ir:
            errs.append("module.ir mismatch")
        reg(m)
        for p in m.proxies:
            if p.module is not m:
                errs.append("proxy.module mismatch")
            reg(p)
        for y in m.symbols:
            if y.module is not m:
                errs.append("symbol.module mismatch")
            reg(y)
            if y.referent is not None and not isinstance(y.referent, g.Block):
                errs.append("symbol referent is not a block")
            if y.value is not None and not isinstance(y.value, int):
                errs.append("symbol value is not an int")
        if m.entry_point is not None and not isinstance(m.entry_point, g.CodeBlock):
            errs.append("entry point is not a code block")
        for s in m.sections:
            if s.module is not m:
                errs.append("section.module mismatch")
            reg(s)
            for bi in s.byte_intervals:
                if bi.section is not s:
                    errs.append("interval.section mismatch")
                reg(bi)
                if len(bi.contents) > bi.size:
                    errs.append("stored bytes exceed interval size")
                for b in bi.blocks:
                    if b.byte_interval is not bi:
                        errs.append("block.byte_interval mismatch")
                    reg(b)
                for e in bi.symbolic_expressions.values():
                    for sy in e.symbols:
                        if not isinstance(sy, g.Symbol):
                            errs.append("expression symbol is not a Symbol")
    extra = set(getattr(ir, "_local_uuid_cache", ())) - set(seen)
    if extra:
        errs.append("uuid table holds %d entries for nodes that are not attached" % len(extra))
    for e in ir.cfg:
        if not isinstance(e.source, g.CfgNode) or not isinstance(e.target, g.CfgNode):
            errs.append("CFG endpoint is not a CFG node")
    if not errs:
        try:
            ir.save_protobuf_file(io.BytesIO())
        except Exception as ex:
            errs.append("returned IR cannot be saved: %s: %s" % (type(ex).__name__, ex))
    return errs


def save_bytes(ir):
    b = io.BytesIO()
    ir.save_protobuf_file(b)
    return b.getvalue()


# ================================================================================================ C01 / C09


def c01_case(g, seed, cfg=None):
    rng = random.Random(seed)
    ir = gen_ir(g, rng)
    errs = []
    data = save_bytes(ir)
    ir2 = g.IR.load_protobuf_file(io.BytesIO(data))
    v1, v2 = ir_view(g, ir), ir_view(g, ir2)
    if v1 != v2:
        diff = [k for k in v1 if v1[k] != v2[k]]
        errs.append("loaded IR differs from the original in %s" % diff)
    if not ir.deep_eq(ir2):
        errs.append("original.deep_eq(loaded) is False")
    if not ir2.deep_eq(ir):
        errs.append("loaded.deep_eq(original) is False")
    ir3 = g.IR.load_protobuf_file(io.BytesIO(save_bytes(ir2)))
    if ir_view(g, ir3) != v2:
        errs.append("saving the loaded IR again yields different content")
    # a loaded IR is an IR built through the public API as well: edit it, save, load, compare again
    for m in ir2.modules:
        for y in m.symbols:
            y.name = y.name + "_x"
            if y.referent is None and y.value is None:
                y.value = 0
            break
        if "names" in m.aux_data:
            m.aux_data["names"].data["added"] = 1
    if "t" in ir2.aux_data:
        ir2.aux_data["t"].data = (1, "edited")
    v2e = ir_view(g, ir2)
    ir4 = g.IR.load_protobuf_file(io.BytesIO(save_bytes(ir2)))
    if ir_view(g, ir4) != v2e:
        errs.append("an edited loaded IR does not survive save+load (differs in %s)" % [k for k in v2e if v2e[k] != ir_view(g, ir4)[k]])
    errs += ["C09: " + e for e in c09_identity(g, ir2)]
    return errs


def c09_identity(g, ir):
    """every reference of a loaded IR is the attached object itself"""
    errs = []
    attached = {}
    for n in itertools.chain([ir], ir.modules, ir.sections, ir.symbols, ir.proxy_blocks, ir.byte_intervals, ir.byte_blocks):
        attached[n.uuid] = n
    for y in ir.symbols:
        if y.referent is not None and attached.get(y.referent.uuid) is not y.referent:
            errs.append("symbol referent is a copy, not the attached block")
    for m in ir.modules:
        if m.entry_point is not None and attached.get(m.entry_point.uuid) is not m.entry_point:
            errs.append("entry point is not the attached block")
    for e in ir.cfg:
        for n in (e.source, e.target):
            if attached.get(n.uuid) is not n:
                errs.append("CFG endpoint is not the attached node")
    for bi in ir.byte_intervals:
        for e in bi.symbolic_expressions.values():
            for sy in e.symbols:
                if attached.get(sy.uuid) is not sy:
                    errs.append("expression symbol is not the attached symbol")
    for c in [ir] + list(ir.modules):
        for k, a in c.aux_data.items():
            def walk(v):
                if isinstance(v, g.Node):
                    if attached.get(v.uuid) is not v:
                        errs.append("AuxData entry decodes to a node that is not attached")
                elif isinstance(v, uuidlib.UUID):
                    if v in attached:
                        errs.append("AuxData UUID of an attached node decoded to a plain UUID")
                elif isinstance(v, dict):
                    for kk, vv in v.items():
                        walk(kk), walk(vv)
                elif isinstance(v, (list, set, tuple)):
                    for x in v:
                        walk(x)
                elif type(v).__name__ == "Variant":
                    walk(v.val)
            walk(a.data)
    return errs


def c09_faults(g, seed):
    """one dangling or ill-typed reference of each kind must be rejected with DeserializationError"""
    from gtirb.util import DeserializationError
    rng = random.Random(seed)
    errs = []
    base = None
    for attempt in range(50):
        ir = gen_ir(g, rng, n_mod=2, with_aux=False)
        if list(ir.symbols) and list(ir.code_blocks) and list(ir.data_blocks) and list(ir.cfg):
            base = ir
            break
    if base is None:
        return errs
    msg0 = base._to_protobuf()
    data_uuid = next(iter(base.data_blocks)).uuid.bytes
    sym_uuid = next(iter(base.symbols)).uuid.bytes
    sec_uuid = next(iter(base.sections)).uuid.bytes
    missing = uuidlib.UUID(int=42).bytes
    faults = []

    def clone():
        m = type(msg0)()
        m.CopyFrom(msg0)
        return m
    for bad, what in ((missing, "missing"), (sym_uuid, "symbol"), (sec_uuid, "section")):
        m = clone()
        for mod in m.modules:
            for y in mod.symbols:
                if y.HasField("referent_uuid"):
                    y.referent_uuid = bad
                    faults.append(("symbol referent -> %s" % what, m))
                    break
            else:
                continue
            break
    for bad, what in ((missing, "missing"), (data_uuid, "data block"), (sym_uuid, "symbol")):
        m = clone()
        if m.modules:
            m.modules[0].entry_point = bad
            faults.append(("entry point -> %s" % what, m))
        m = clone()
        if m.cfg.edges:
            m.cfg.edges[0].source_uuid = bad
            faults.append(("CFG source -> %s" % what, m))
            m = clone()
            m.cfg.edges[0].target_uuid = bad
            faults.append(("CFG target -> %s" % what, m))
    for bad, what in ((missing, "missing"), (data_uuid, "data block")):
        m = clone()
        done = False
        for mod in m.modules:
            for s in mod.sections:
                for bi in s.byte_intervals:
                    for k in bi.symbolic_expressions:
                        e = bi.symbolic_expressions[k]
                        if e.HasField("addr_const"):
                            e.addr_const.symbol_uuid = bad
                        else:
                            e.addr_addr.symbol2_uuid = bad
                        done = True
                        break
                    if done:
                        break
                if done:
                    break
            if done:
                break
        if done:
            faults.append(("expression symbol -> %s" % what, m))
    # a node record that re-uses the uuid of an already decoded node of another kind
    m = clone()
    done = False
    for mod in m.modules:
        if mod.proxies:
            for s_ in mod.sections:
                for bi in s_.byte_intervals:
                    for blk in bi.blocks:
                        if blk.HasField("code") and not done:
                            blk.code.uuid = mod.proxies[0].uuid
                            done = True
    if done:
        faults.append(("code block carrying the uuid of a proxy block", m))
    hdr = b"GTIRB\0\0" + bytes([g.version.PROTOBUF_VERSION])
    for what, m in faults:
        try:
            g.IR.load_protobuf_file(io.BytesIO(hdr + m.SerializeToString()))
            errs.append("file with %s was loaded" % what)
        except DeserializationError:
            pass
        except Exception as e:
            errs.append("file with %s raised %s instead of DeserializationError" % (what, type(e).__name__))
    return errs


# ================================================================================================ C02


def c02_writer(g, seed):
    """every field of the written message equals the corresponding attribute (independent comparison)"""
    from gtirb.proto import IR_pb2
    rng = random.Random(seed)
    ir = gen_ir(g, rng)
    data = save_bytes(ir)
    errs = []
    if data[:8] != b"GTIRB\0\0" + bytes([g.version.PROTOBUF_VERSION]):
        errs.append("header is %r" % data[:8])
    msg = IR_pb2.IR()
    msg.ParseFromString(data[8:])
    if msg.uuid != ir.uuid.bytes or msg.version != ir.version:
        errs.append("IR uuid/version field")
    if [m.uuid for m in msg.modules] != [m.uuid.bytes for m in ir.modules]:
        errs.append("modules field order/content")
    if sorted(msg.cfg.vertices) != sorted(n.uuid.bytes for n in ir.cfg_nodes):
        errs.append("CFG.vertices does not name every CFG node of the IR")
    me = sorted(((e.source_uuid, e.target_uuid, (e.label.type, e.label.conditional, e.label.direct) if e.HasField("label") else None)
                 for e in msg.cfg.edges), key=repr)
    ie = sorted(((e.source.uuid.bytes, e.target.uuid.bytes, label_view(e.label)) for e in ir.cfg), key=repr)
    if me != ie:
        errs.append("CFG edges/labels (label presence must distinguish None from the all-false label)")
    if set(msg.aux_data) != set(ir.aux_data):
        errs.append("IR aux_data keys")
    for pm, m in zip(msg.modules, ir.modules):
        for f, v in (("binary_path", m.binary_path), ("name", m.name), ("preferred_addr", m.preferred_addr),
                     ("rebase_delta", m.rebase_delta), ("isa", m.isa.value), ("file_format", m.file_format.value),
                     ("byte_order", m.byte_order.value),
                     ("entry_point", m.entry_point.uuid.bytes if m.entry_point is not None else b"")):
            if getattr(pm, f) != v:
                errs.append("Module.%s: message %r attribute %r" % (f, getattr(pm, f), v))
        if sorted(p.uuid for p in pm.proxies) != sorted(p.uuid.bytes for p in m.proxies):
            errs.append("Module.proxies")
        if set(pm.aux_data) != set(m.aux_data):
            errs.append("Module.aux_data keys")
        for k in m.aux_data:
            if pm.aux_data[k].type_name != m.aux_data[k].type_name:
                errs.append("AuxData.type_name")
        ysyms = {y.uuid.bytes: y for y in m.symbols}
        if set(ysyms) != {y.uuid for y in pm.symbols}:
            errs.append("Module.symbols")
        for py in pm.symbols:
            y = ysyms.get(py.uuid)
            if y is None:
                continue
            if py.name != y.name or py.at_end != y.at_end:
                errs.append("Symbol %r: name/at_end field (message at_end=%r, attribute %r)" % (y.name, py.at_end, y.at_end))
            which = py.WhichOneof("optional_payload")
            exp = "value" if y.value is not None else ("referent_uuid" if y.referent is not None else None)
            if which != exp:
                errs.append("Symbol payload one-of is %r, expected %r" % (which, exp))
            elif which == "value" and py.value != y.value:
                errs.append("Symbol.value")
            elif which == "referent_uuid" and py.referent_uuid != y.referent.uuid.bytes:
                errs.append("Symbol.referent_uuid")
        secs = {s.uuid.bytes: s for s in m.sections}
        if set(secs) != {s.uuid for s in pm.sections}:
            errs.append("Module.sections")
        for ps in pm.sections:
            s = secs.get(ps.uuid)
            if s is None:
                continue
            if ps.name != s.name or sorted(ps.section_flags) != sorted(f.value for f in s.flags):
                errs.append("Section name/flags")
            bis = {b.uuid.bytes: b for b in s.byte_intervals}
            if set(bis) != {b.uuid for b in ps.byte_intervals}:
                errs.append("Section.byte_intervals")
            for pb in ps.byte_intervals:
                bi = bis.get(pb.uuid)
                if bi is None:
                    continue
                if pb.has_address != (bi.address is not None) or pb.address != (bi.address or 0):
                    errs.append("ByteInterval has_address/address: message (%r, %r) attribute %r" % (pb.has_address, pb.address, bi.address))
                if pb.size != bi.size or pb.contents != bytes(bi.contents):
                    errs.append("ByteInterval size/contents")
                blks = {b.uuid.bytes: b for b in bi.blocks}
                got = {}
                for blk in pb.blocks:
                    w = blk.WhichOneof("value")
                    inner = blk.code if w == "code" else blk.data
                    got[inner.uuid] = (w, blk.offset, inner.size, inner.decode_mode if w == "code" else None)
                exp = {u: ("code" if isinstance(b, g.CodeBlock) else "data", b.offset, b.size,
                           b.decode_mode.value if isinstance(b, g.CodeBlock) else None) for u, b in blks.items()}
                if got != exp:
                    errs.append("ByteInterval.blocks (offset / one-of / size / decode_mode)")
                if set(pb.symbolic_expressions) != set(bi.symbolic_expressions):
                    errs.append("symbolic_expressions keys")
                for k, e in bi.symbolic_expressions.items():
                    pe = pb.symbolic_expressions[k]
                    attrs = sorted(a.value if isinstance(a, g.SymbolicExpression.Attribute) else a for a in e.attributes)
                    if sorted(pe.attribute_flags) != attrs:
                        errs.append("SymbolicExpression.attribute_flags")
                    if isinstance(e, g.SymAddrConst):
                        if pe.WhichOneof("value") != "addr_const" or pe.addr_const.offset != e.offset or \
                                pe.addr_const.symbol_uuid != e.symbol.uuid.bytes:
                            errs.append("SymAddrConst fields")
                    else:
                        a = pe.addr_addr
                        if pe.WhichOneof("value") != "addr_addr" or (a.scale, a.offset, a.symbol1_uuid, a.symbol2_uuid) != \
                                (e.scale, e.offset, e.symbol1.uuid.bytes, e.symbol2.uuid.bytes):
                            errs.append("SymAddrAddr fields")
    return errs


def c02_reader(g, seed):
    """loading any schema-valid, referentially closed message yields attributes equal to the fields"""
    from gtirb.proto import IR_pb2, Module_pb2, Section_pb2, CodeBlock_pb2, CFG_pb2, SymbolicExpression_pb2
    rng = random.Random(seed)
    k = itertools.count(1)
    ub = lambda: uuidlib.UUID(int=0x7000 + next(k)).bytes
    msg = IR_pb2.IR()
    msg.uuid = ub()
    msg.version = g.version.PROTOBUF_VERSION
    exp = {}
    all_cfg = []
    for mi in range(rng.randint(1, 2)):
        pm = msg.modules.add()
        pm.uuid = ub()
        pm.name = rng.choice(NAMES)
        pm.binary_path = rng.choice(NAMES)
        pm.preferred_addr = rng.choice(UINT64)
        pm.rebase_delta = rng.choice(INT64)
        pm.isa = rng.choice(list(Module_pb2.ISA.values()))
        pm.file_format = rng.choice(list(Module_pb2.FileFormat.values()))
        pm.byte_order = rng.choice(list(Module_pb2.ByteOrder.values()))
        blocks, code = [], []
        for si in range(rng.randint(0, 2)):
            ps = pm.sections.add()
            ps.uuid = ub()
            ps.name = rng.choice(NAMES)
            ps.section_flags.extend(rng.sample(list(Section_pb2.SectionFlag.values()), rng.randint(0, 3)))
            for bi_i in range(rng.randint(0, 2)):
                pb = ps.byte_intervals.add()
                pb.uuid = ub()
                pb.has_address = rng.random() < 0.5
                pb.address = rng.choice(UINT64)            # may be non-zero although has_address is false
                pb.size = rng.choice([0, 4, 9, 2 ** 40])
                pb.contents = bytes(rng.randrange(256) for _ in range(min(pb.size, rng.choice([0, 2, 4]))))
                for b_i in range(rng.randint(0, 2)):
                    blk = pb.blocks.add()
                    blk.offset = rng.choice([0, 3, 2 ** 64 - 1])
                    if rng.random() < 0.5:
                        blk.code.uuid = ub()
                        blk.code.size = rng.choice(UINT64)
                        blk.code.decode_mode = rng.choice(list(CodeBlock_pb2.DecodeMode.values()))
                        code.append(blk.code.uuid)
                        blocks.append(blk.code.uuid)
                        all_cfg.append(blk.code.uuid)
                    else:
                        blk.data.uuid = ub()
                        blk.data.size = rng.choice(UINT64)
                        blocks.append(blk.data.uuid)
        for pi in range(rng.randint(0, 2)):
            pp = pm.proxies.add()
            pp.uuid = ub()
            blocks.append(pp.uuid)
            all_cfg.append(pp.uuid)
        syms = []
        for yi in range(rng.randint(0, 3)):
            py = pm.symbols.add()
            py.uuid = ub()
            py.name = rng.choice(NAMES)
            py.at_end = rng.random() < 0.5
            c = rng.choice(["none", "value", "ref"])
            if c == "value":
                py.value = rng.choice(UINT64)
            elif c == "ref" and blocks:
                py.referent_uuid = rng.choice(blocks)
            syms.append(py.uuid)
        if code and rng.random() < 0.5:
            pm.entry_point = rng.choice(code)
        if syms:
            for ps in pm.sections:
                for pb in ps.byte_intervals:
                    for off in rng.sample([0, 2, 9], rng.randint(0, 2)):
                        e = pb.symbolic_expressions[off]
                        if rng.random() < 0.5:
                            e.addr_const.offset = rng.choice(INT64)
                            e.addr_const.symbol_uuid = rng.choice(syms)
                        else:
                            e.addr_addr.scale = rng.choice(INT64)
                            e.addr_addr.offset = rng.choice(INT64)
                            e.addr_addr.symbol1_uuid = rng.choice(syms)
                            e.addr_addr.symbol2_uuid = rng.choice(syms)
                        e.attribute_flags.extend(rng.sample(list(SymbolicExpression_pb2.SymAttribute.values()), rng.randint(0, 2)))
                        if rng.random() < 0.3:
                            e.attribute_flags.append(99999)
    for _ in range(rng.randint(0, 3)):
        if not all_cfg:
            break
        pe = msg.cfg.edges.add()
        pe.source_uuid = rng.choice(all_cfg)
        pe.target_uuid = rng.choice(all_cfg)
        c = rng.random()
        if c < 0.4:
            pe.label.type = rng.choice(list(CFG_pb2.EdgeType.values()))
            pe.label.conditional = rng.random() < 0.5
            pe.label.direct = rng.random() < 0.5
        elif c < 0.6:
            pe.label.SetInParent()          # present but all-default label
    data = b"GTIRB\0\0" + bytes([g.version.PROTOBUF_VERSION]) + msg.SerializeToString()
    errs = []
    try:
        ir = g.IR.load_protobuf_file(io.BytesIO(data))
    except Exception as e:
        return ["schema-valid, referentially closed message rejected: %s: %s" % (type(e).__name__, e)]
    if ir.uuid.bytes != msg.uuid or ir.version != msg.version:
        errs.append("IR uuid/version")
    if [m.uuid.bytes for m in ir.modules] != [m.uuid for m in msg.modules]:
        errs.append("modules")
    for pm, m in zip(msg.modules, ir.modules):
        for f, v in (("binary_path", m.binary_path), ("name", m.name), ("preferred_addr", m.preferred_addr),
                     ("rebase_delta", m.rebase_delta), ("isa", m.isa.value), ("file_format", m.file_format.value),
                     ("byte_order", m.byte_order.value),
                     ("entry_point", m.entry_point.uuid.bytes if m.entry_point is not None else b"")):
            if getattr(pm, f) != v:
                errs.append("Module.%s: message %r attribute %r" % (f, getattr(pm, f), v))
        ys = {y.uuid.bytes: y for y in m.symbols}
        for py in pm.symbols:
            y = ys.get(py.uuid)
            if y is None:
                errs.append("symbol missing")
                continue
            w = py.WhichOneof("optional_payload")
            if (y.name, y.at_end) != (py.name, py.at_end):
                errs.append("Symbol name/at_end")
            if w == "value" and (y.value != py.value or y.referent is not None):
                errs.append("Symbol value (message %r, attribute %r)" % (py.value, y.value))
            if w == "referent_uuid" and (y.referent is None or y.referent.uuid.bytes != py.referent_uuid):
                errs.append("Symbol referent")
            if w is None and (y.value is not None or y.referent is not None):
                errs.append("Symbol payload should be absent")
        ss = {s.uuid.bytes: s for s in m.sections}
        for ps in pm.sections:
            s = ss.get(ps.uuid)
            if s is None:
                errs.append("section missing")
                continue
            if s.name != ps.name or sorted(f.value for f in s.flags) != sorted(set(ps.section_flags)):
                errs.append("Section name/flags")
            bs = {b.uuid.bytes: b for b in s.byte_intervals}
            for pb in ps.byte_intervals:
                bi = bs.get(pb.uuid)
                if bi is None:
                    errs.append("interval missing")
                    continue
                if bi.address != (pb.address if pb.has_address else None):
                    errs.append("ByteInterval.address: message has_address=%r address=%r -> attribute %r" % (pb.has_address, pb.address, bi.address))
                if bi.size != pb.size or bytes(bi.contents) != pb.contents:
                    errs.append("ByteInterval size/contents")
                got = {b.uuid.bytes: (type(b).__name__, b.offset, b.size, b.decode_mode.value if isinstance(b, g.CodeBlock) else None)
                       for b in bi.blocks}
                exp = {}
                for blk in pb.blocks:
                    w = blk.WhichOneof("value")
                    inner = blk.code if w == "code" else blk.data
                    exp[inner.uuid] = ("CodeBlock" if w == "code" else "DataBlock", blk.offset, inner.size,
                                       inner.decode_mode if w == "code" else None)
                if got != exp:
                    errs.append("blocks")
                if set(bi.symbolic_expressions) != set(pb.symbolic_expressions):
                    errs.append("symbolic expression keys")
                for kk, e in bi.symbolic_expressions.items():
                    pe = pb.symbolic_expressions[kk]
                    attrs = sorted(a.value if isinstance(a, g.SymbolicExpression.Attribute) else a for a in e.attributes)
                    if attrs != sorted(set(pe.attribute_flags)):
                        errs.append("expression attributes")
                    if pe.WhichOneof("value") == "addr_const":
                        if not isinstance(e, g.SymAddrConst) or (e.offset, e.symbol.uuid.bytes) != (pe.addr_const.offset, pe.addr_const.symbol_uuid):
                            errs.append("SymAddrConst")
                    else:
                        a = pe.addr_addr
                        if not isinstance(e, g.SymAddrAddr) or (e.scale, e.offset, e.symbol1.uuid.bytes, e.symbol2.uuid.bytes) != \
                                (a.scale, a.offset, a.symbol1_uuid, a.symbol2_uuid):
                            errs.append("SymAddrAddr")
    ie = sorted(((e.source.uuid.bytes, e.target.uuid.bytes, label_view(e.label)) for e in ir.cfg), key=repr)
    me = sorted(set((e.source_uuid, e.target_uuid, (e.label.type, e.label.conditional, e.label.direct) if e.HasField("label") else None)
                    for e in msg.cfg.edges), key=repr)
    if ie != me:
        errs.append("CFG edges")
    return errs


def c02_enums(g):
    """every enum constant the schema defines is accepted (and maps to a member with that number)"""
    from gtirb.proto import Module_pb2, Section_pb2, CodeBlock_pb2, CFG_pb2, SymbolicExpression_pb2
    errs = []
    for enum, cls in ((Module_pb2.ISA, g.Module.ISA), (Module_pb2.FileFormat, g.Module.FileFormat),
                      (Module_pb2.ByteOrder, g.Module.ByteOrder), (Section_pb2.SectionFlag, g.Section.Flag),
                      (CodeBlock_pb2.DecodeMode, g.CodeBlock.DecodeMode), (CFG_pb2.EdgeType, g.Edge.Type),
                      (SymbolicExpression_pb2.SymAttribute, g.SymbolicExpression.Attribute)):
        for name, num in enum.items():
            try:
                if cls(num).value != num:
                    errs.append("%s(%d) maps to another number" % (cls.__name__, num))
            except ValueError:
                errs.append("%s rejects schema constant %s=%d" % (cls.__name__, name, num))
        for mem in cls:
            if mem.value not in enum.values():
                errs.append("%s.%s has no schema constant" % (cls.__name__, mem.name))
    return errs


# ================================================================================================ C17


def has_duplicate_uuid(blob):
    """exclusion clause of known finding F-C17-1: the message repeats a node uuid in one of the two ways the
    unchanged loader mishandles - (a) two node records of the same kind with equal uuid under *different* parents,
    (b) a block that repeats the uuid of its own enclosing byte interval"""
    from gtirb.proto import IR_pb2
    m = IR_pb2.IR()
    try:
        m.ParseFromString(blob[8:])
    except Exception:
        return False
    seen = {}          # (kind, uuid) -> parent key

    def dup(kind, u, parent):
        k = (kind, u)
        if k in seen and seen[k] != parent:
            return True
        seen.setdefault(k, parent)
        return False
    for mi, mod in enumerate(m.modules):
        if dup("module", mod.uuid, "ir"):
            return True
        for p in mod.proxies:
            if dup("proxy", p.uuid, ("m", mi)):
                return True
        for y in mod.symbols:
            if dup("symbol", y.uuid, ("m", mi)):
                return True
        for si, s_ in enumerate(mod.sections):
            if dup("section", s_.uuid, ("m", mi)):
                return True
            for bi_i, bi in enumerate(s_.byte_intervals):
                if dup("interval", bi.uuid, ("s", mi, si)):
                    return True
                for blk in bi.blocks:
                    u = blk.code.uuid if blk.HasField("code") else blk.data.uuid
                    if u == bi.uuid:
                        return True
                    if dup("code" if blk.HasField("code") else "data", u, ("bi", mi, si, bi_i)):
                        return True
    return False


def c17_case(g, seed, budget):
    """every truncation, a sample of bit flips and byte substitutions, header variations and structural faults of a
    saved file: load raises or returns a coherent IR; never hangs"""
    rng = random.Random(seed)
    errs = []
    n = 0
    ir = None
    for _ in range(20):
        ir = gen_ir(g, rng, n_mod=2, with_aux=True)
        if list(ir.symbols) and list(ir.byte_blocks):
            break
    data = save_bytes(ir)

    def attempt(blob, what, must_reject=None):
        nonlocal n
        n += 1
        t0 = time.time()
        try:
            r = g.IR.load_protobuf_file(io.BytesIO(blob))
        except Exception as e:
            if must_reject is not None and not isinstance(e, must_reject):
                errs.append("%s: raised %s, expected %s" % (what, type(e).__name__, must_reject.__name__))
            return
        if time.time() - t0 > 20:
            errs.append("%s: load took %.0fs" % (what, time.time() - t0))
        if must_reject is not None:
            errs.append("%s: accepted, expected %s" % (what, must_reject.__name__))
            return
        if has_duplicate_uuid(blob):
            return          # known finding F-C17-1 (a node uuid occurs more than once in the message): excluded
        ce = coherent(g, r)
        if ce:
            errs.append("%s: returned incoherent IR: %s" % (what, ce[0]))
    # the writer's own output is accepted
    try:
        g.IR.load_protobuf_file(io.BytesIO(data))
    except Exception as e:
        errs.append("file produced by save is rejected: %s" % e)
    # header
    for i, hb in enumerate(data[:5]):
        attempt(data[:i] + bytes([hb ^ 0x20]) + data[i + 1:], "magic byte %d changed" % i, ValueError)
    for v in (0, 1, 3, 5, 255):
        if v != g.version.PROTOBUF_VERSION:
            attempt(data[:7] + bytes([v]) + data[8:], "version byte %d" % v, ValueError)
    for cut in range(0, 8):
        attempt(data[:cut], "header truncated at %d" % cut, ValueError)
    from gtirb.proto import IR_pb2
    msg = IR_pb2.IR()
    msg.ParseFromString(data[8:])
    for v in (0, 1, 3, 5, 2 ** 31):
        if v != g.version.PROTOBUF_VERSION:
            m2 = IR_pb2.IR()
            m2.CopyFrom(msg)
            m2.version = v
            attempt(data[:8] + m2.SerializeToString(), "message version field %d" % v, ValueError)
    # truncations
    cuts = range(8, len(data)) if len(data) - 8 <= budget else sorted(rng.sample(range(8, len(data)), budget))
    for cut in cuts:
        attempt(data[:cut], "truncated at %d" % cut)
        if errs:
            return errs, n
    # bit flips / byte substitutions
    for _ in range(budget):
        i = rng.randrange(8, len(data))
        attempt(data[:i] + bytes([data[i] ^ (1 << rng.randrange(8))]) + data[i + 1:], "bit flip at %d" % i)
        i = rng.randrange(8, len(data))
        attempt(data[:i] + bytes([rng.randrange(256)]) + data[i + 1:], "byte substitution at %d" % i)
        if errs:
            return errs, n
    # structural faults at message level
    def clone():
        m2 = IR_pb2.IR()
        m2.CopyFrom(msg)
        return m2
    hdr = data[:8]
    m2 = clone()
    if m2.modules:
        m2.modules[0].uuid = b"short"
        attempt(hdr + m2.SerializeToString(), "wrong-length module uuid")
        m2 = clone()
        m2.modules[0].isa = 12345
        attempt(hdr + m2.SerializeToString(), "unknown ISA number")
        m2 = clone()
        m2.modules[0].uuid = m2.uuid
        attempt(hdr + m2.SerializeToString(), "module uuid equals IR uuid")
        for mod in clone().modules:
            pass
        m2 = clone()
        for mod in m2.modules:
            for s in mod.sections:
                for bi in s.byte_intervals:
                    bi.contents = b"x" * 10
                    bi.size = 3
        attempt(hdr + m2.SerializeToString(), "contents longer than size")
        m2 = clone()
        for mod in m2.modules:
            for s in mod.sections:
                for bi in s.byte_intervals:
                    for blk in bi.blocks:
                        blk.ClearField("value")
        attempt(hdr + m2.SerializeToString(), "block with empty one-of")
        # duplicated uuid *within one parent* (the cross-parent case is known finding F-C17-1 and excluded)
        m2 = clone()
        for mod in m2.modules:
            if mod.sections:
                mod.sections.add().CopyFrom(mod.sections[0])
        attempt(hdr + m2.SerializeToString(), "section listed twice in its module")
    return errs, n


# ================================================================================================ reference AuxData codec


INT_TYPES = {"uint8_t": (1, False), "uint16_t": (2, False), "uint32_t": (4, False), "uint64_t": (8, False), "Addr": (8, False),
             "int8_t": (1, True), "int16_t": (2, True), "int32_t": (4, True), "int64_t": (8, True)}


def ref_parse(name):
    """T ::= name | name '<' T (',' T)* '>' ; returns (tree, rest) trees as (name, [children]); ValueError if not in the language"""
    def T(s, i):
        j = i
        while j < len(s) and s[j] not in "<>,":
            j += 1
        if j == i:
            raise ValueError("name expected at %d" % i)
        nm = s[i:j]
        if j < len(s) and s[j] == "<":
            kids = []
            j += 1
            while True:
                k, j = T(s, j)
                kids.append(k)
                if j < len(s) and s[j] == ",":
                    j += 1
                    continue
                break
            if j >= len(s) or s[j] != ">":
                raise ValueError("'>' expected at %d" % j)
            return (nm, kids), j + 1
        return (nm, []), j
    t, j = T(name, 0)
    if j != len(name):
        raise ValueError("trailing input at %d" % j)
    return t


def ref_print(t):
    return t[0] + ("<" + ",".join(ref_print(k) for k in t[1]) + ">" if t[1] else "")


def ref_encode(t, v, g):
    nm, kids = t
    if nm in INT_TYPES:
        w, signed = INT_TYPES[nm]
        return int(v).to_bytes(w, "little", signed=signed)
    if nm == "bool":
        return b"\x01" if v else b"\x00"
    if nm == "float":
        return struct.pack("<f", v)
    if nm == "double":
        return struct.pack("<d", v)
    if nm == "string":
        b = v.encode("utf-8")
        return len(b).to_bytes(8, "little") + b
    if nm == "UUID":
        return (v.uuid if isinstance(v, g.Node) else v).bytes
    if nm == "Offset":
        e = v.element_id
        return (e.uuid if isinstance(e, g.Node) else e).bytes + int(v.displacement).to_bytes(8, "little")
    if nm in ("sequence", "set"):
        return len(v).to_bytes(8, "little") + b"".join(ref_encode(kids[0], x, g) for x in v)
    if nm == "mapping":
        return len(v).to_bytes(8, "little") + b"".join(ref_encode(kids[0], k, g) + ref_encode(kids[1], x, g) for k, x in v.items())
    if nm == "tuple":
        return b"".join(ref_encode(k, x, g) for k, x in zip(kids, v))
    if nm == "variant":
        return int(v.index).to_bytes(8, "little") + ref_encode(kids[v.index], v.val, g)
    raise KeyError(nm)


def ref_decode(t, buf, pos, g, lookup):
    nm, kids = t
    if nm in INT_TYPES:
        w, signed = INT_TYPES[nm]
        return int.from_bytes(buf[pos:pos + w], "little", signed=signed), pos + w
    if nm == "bool":
        return buf[pos] != 0, pos + 1
    if nm == "float":
        return struct.unpack("<f", buf[pos:pos + 4])[0], pos + 4
    if nm == "double":
        return struct.unpack("<d", buf[pos:pos + 8])[0], pos + 8
    if nm == "string":
        n = int.from_bytes(buf[pos:pos + 8], "little")
        return buf[pos + 8:pos + 8 + n].decode("utf-8"), pos + 8 + n
    if nm == "UUID":
        u = uuidlib.UUID(bytes=bytes(buf[pos:pos + 16]))
        n = lookup(u) if lookup else None
        return (n if n is not None else u), pos + 16
    if nm == "Offset":
        e, p = ref_decode(("UUID", []), buf, pos, g, lookup)
        return g.Offset(e, int.from_bytes(buf[p:p + 8], "little")), p + 8
    if nm in ("sequence", "set"):
        n = int.from_bytes(buf[pos:pos + 8], "little")
        pos += 8
        out = []
        for _ in range(n):
            x, pos = ref_decode(kids[0], buf, pos, g, lookup)
            out.append(x)
        return (out if nm == "sequence" else set(out)), pos
    if nm == "mapping":
        n = int.from_bytes(buf[pos:pos + 8], "little")
        pos += 8
        out = {}
        for _ in range(n):
            k, pos = ref_decode(kids[0], buf, pos, g, lookup)
            x, pos = ref_decode(kids[1], buf, pos, g, lookup)
            out[k] = x
        return out, pos
    if nm == "tuple":
        out = []
        for k in kids:
            x, pos = ref_decode(k, buf, pos, g, lookup)
            out.append(x)
        return tuple(out), pos
    if nm == "variant":
        i = int.from_bytes(buf[pos:pos + 8], "little")
        x, pos = ref_decode(kids[i], buf, pos + 8, g, lookup)
        return g.serialization.Variant(i, x), pos
    raise KeyError(nm)


LEAVES = list(INT_TYPES) + ["bool", "float", "double", "string", "UUID", "Offset"]
HASHABLE_LEAVES = list(INT_TYPES) + ["bool", "string", "UUID", "Offset"]


def gen_type(rng, depth, hashable=False):
    if depth == 0 or rng.random() < 0.35:
        return (rng.choice(HASHABLE_LEAVES if hashable else LEAVES), [])
    if hashable:
        c = rng.choice(["tuple", "leaf"])
        if c == "leaf":
            return (rng.choice(HASHABLE_LEAVES), [])
        return ("tuple", [gen_type(rng, depth - 1, True) for _ in range(rng.randint(1, 3))])
    c = rng.choice(["sequence", "set", "mapping", "tuple", "variant"])
    if c == "sequence":
        return (c, [gen_type(rng, depth - 1)])
    if c == "set":
        return (c, [gen_type(rng, depth - 1, True)])
    if c == "mapping":
        return (c, [gen_type(rng, depth - 1, True), gen_type(rng, depth - 1)])
    return (c, [gen_type(rng, depth - 1) for _ in range(rng.randint(1, 3))])


STRINGS = ["", "a", "hello world", "é", "naïve", "名前", "\0", "a\0b", "<,>", "𝄞clef", "x" * 40, "ÿĀ￿"]
FLOATS = [0.0, -0.0, 1.5, -2.25, float("inf"), float("-inf"), float("nan"), 1e300, 5e-324, 3.4028234663852886e38, 1e-45,
          0.1, 16777217.0]


def gen_value(t, rng, g, nodes):
    nm, kids = t
    if nm in INT_TYPES:
        w, signed = INT_TYPES[nm]
        lo, hi = (-(2 ** (8 * w - 1)), 2 ** (8 * w - 1) - 1) if signed else (0, 2 ** (8 * w) - 1)
        return rng.choice([lo, hi, 0, 1, rng.randint(lo, hi)] + ([-1] if signed else []))
    if nm == "bool":
        return rng.random() < 0.5
    if nm == "float":       # values of the float32 type (anything struct can pack with "<f")
        return rng.choice([x for x in FLOATS if not (math.isfinite(x) and abs(x) > 3.4028234663852886e38)] + [rng.uniform(-1e6, 1e6)])
    if nm == "double":
        return rng.choice(FLOATS + [rng.uniform(-1e6, 1e6)])
    if nm == "string":
        return rng.choice(STRINGS)
    if nm == "UUID":
        return rng.choice(nodes + [uuidlib.UUID(int=rng.getrandbits(128))])
    if nm == "Offset":
        return g.Offset(rng.choice(nodes + [uuidlib.UUID(int=rng.getrandbits(128))]), rng.choice(UINT64))
    n = rng.randint(0, 3)
    if nm == "sequence":
        return [gen_value(kids[0], rng, g, nodes) for _ in range(n)]
    if nm == "set":
        out = set()
        for _ in range(n):
            out.add(gen_value(kids[0], rng, g, nodes))
        return out
    if nm == "mapping":
        return {gen_value(kids[0], rng, g, nodes): gen_value(kids[1], rng, g, nodes) for _ in range(n)}
    if nm == "tuple":
        return tuple(gen_value(k, rng, g, nodes) for k in kids)
    i = rng.randrange(len(kids))
    return g.serialization.Variant(i, gen_value(kids[i], rng, g, nodes))


def values_equal(t, a, b, g):
    """equality up to: floats bit for bit (float32 after rounding to float32); nodes by identity"""
    try:
        return norm(t, a, g) == norm(t, b, g)
    except Exception:
        return False


def norm(t, v, g):
    """type-directed normal form: floats as their bit patterns (float32 after rounding), nodes by identity"""
    nm, kids = t
    if nm == "float":
        return ("f32", struct.pack("<f", v))
    if nm == "double":
        return ("f64", struct.pack("<d", v))
    if nm == "UUID":
        return ("node", id(v)) if isinstance(v, g.Node) else ("uuid", v)
    if nm == "Offset":
        return ("off", norm(("UUID", []), v.element_id, g), v.displacement)
    if nm == "sequence":
        return ("l", [norm(kids[0], x, g) for x in v]) if isinstance(v, list) else ("not-a-list", repr(v))
    if nm == "set":
        return ("s", sorted((norm(kids[0], x, g) for x in v), key=repr)) if isinstance(v, set) else ("not-a-set", repr(v))
    if nm == "mapping":
        return ("d", sorted(((norm(kids[0], k, g), norm(kids[1], x, g)) for k, x in v.items()), key=repr)) \
            if isinstance(v, dict) else ("not-a-dict", repr(v))
    if nm == "tuple":
        return ("t", [norm(k, x, g) for k, x in zip(kids, v)]) if isinstance(v, tuple) and len(v) == len(kids) \
            else ("not-a-tuple", repr(v))
    if nm == "variant":
        return ("v", v.index, norm(kids[v.index], v.val, g)) if type(v).__name__ == "Variant" else ("not-a-variant", repr(v))
    if nm == "bool":
        return ("b", v) if type(v) is bool else ("not-a-bool", repr(v))
    return (type(v).__name__, v)


def c07_case(g, tname, value_seed):
    """one (type, value): round trip, exact consumption, byte-for-byte agreement with the reference encoder, reference
    bytes decode to the same value, node identity"""
    ser = g.AuxData.serializer
    t = ref_parse(tname)
    rng = random.Random(value_seed)
    ir = g.IR(uuid=U(1))
    m = g.Module(name="m", uuid=U(2), ir=ir)
    p = g.ProxyBlock(uuid=U(3), module=m)
    nodes = [m, p]
    v = gen_value(t, rng, g, nodes)
    errs = []
    out = io.BytesIO()
    ser.encode(out, v, tname)
    enc = out.getvalue()
    ref = ref_encode(t, v, g)
    if enc != ref:
        errs.append("C08: encoding differs from the documented format: got %s expected %s" % (enc.hex()[:60], ref.hex()[:60]))
    back = ser.decode(enc, tname, ir.get_by_uuid)
    if not values_equal(t, v, back, g):
        errs.append("C07: decode(encode(v)) != v  (v=%r back=%r)" % (v, back))
    # exact consumption: the value followed by a sentinel
    t2 = "tuple<%s,uint8_t>" % tname
    out = io.BytesIO()
    ser.encode(out, (v, 0xAB), t2)
    back2 = ser.decode(out.getvalue(), t2, ir.get_by_uuid)
    if not (isinstance(back2, tuple) and len(back2) == 2 and back2[1] == 0xAB and values_equal(t, v, back2[0], g)):
        errs.append("C07: decoder does not consume exactly the bytes the encoder produced (sentinel lost): %r" % (back2,))
    # bytes of an independent encoder decode to the same value
    back3 = ser.decode(ref, tname, ir.get_by_uuid)
    if not values_equal(t, v, back3, g):
        errs.append("C08: bytes of the reference encoder decode to a different value: %r vs %r" % (back3, v))
    # and the reference decoder reads this API's bytes
    try:
        back4, pos = ref_decode(t, enc, 0, g, ir.get_by_uuid)
        if pos != len(enc) or not values_equal(t, v, back4, g):
            errs.append("C08: reference decoder reads this API's bytes differently")
    except Exception as e:
        errs.append("C08: reference decoder fails on this API's bytes: %s" % e)
    return errs


def c07_explore(g, seed, budget):
    rng = random.Random(seed)
    n = 0
    sample = None
    fixed = ["string", "sequence<string>", "tuple<string,int8_t>", "mapping<string,set<UUID>>", "variant<int8_t,string,Offset>",
             "sequence<int8_t>", "tuple<uint16_t,uint32_t>", "tuple<tuple<uint16_t,uint32_t>,uint16_t>", "sequence<double>",
             "sequence<float>", "Offset", "variant<UUID,Offset>", "sequence<variant<UUID,int64_t>>", "set<Offset>",
             "mapping<Offset,tuple<Addr,bool>>"]
    for i in range(budget):
        tname = fixed[i] if i < len(fixed) else ref_print(gen_type(rng, rng.randint(0, 3)))
        for _ in range(4):
            vs = rng.randrange(10 ** 9)
            n += 1
            try:
                errs = c07_case(g, tname, vs)
            except Exception as e:
                errs = ["%s: %s" % (type(e).__name__, e)]
            if errs:
                return {"ok": False, "case": {"kind": "C07", "type": tname, "value_seed": vs}, "errors": errs[:4], "evaluations": n}
            sample = [tname, vs]
    return {"ok": True, "evaluations": n, "distinct": n, "sample": sample}


# ================================================================================================ C14


def c14_case(g, spec):
    """spec: {"type": tname, "value_seed": s, "unknown": bool, "noncanonical": bool, "ops": [...], "generations": k}
    ops from: "read", "mutate", "assign", "retype:<newtype>"; expectation per the property's three sentences."""
    ser = g.AuxData.serializer
    errs = []
    tname = spec["type"]
    rng = random.Random(spec["value_seed"])
    known_part = tname.replace("foo<", "sequence<").replace("foo", "int8_t")
    t = ref_parse(known_part)
    if any(o.startswith("retype:") for o in spec["ops"]):
        v0 = gen_value(ref_parse(spec["ops"][[o.startswith("retype:") for o in spec["ops"]].index(True)].split(":", 1)[1]), rng, g, [])
    else:
        v0 = gen_value(t, rng, g, [])
    raw = ref_encode(t, v0, g)
    if spec.get("noncanonical") and tname == "set<int8_t>":
        raw = (2).to_bytes(8, "little") + b"\x05\x05"
        v0 = {5}
    ir = g.IR(uuid=U(1))
    m = g.Module(name="m", uuid=U(2), ir=ir)
    from gtirb.proto import AuxData_pb2
    pa = AuxData_pb2.AuxData()
    pa.type_name = tname
    pa.data = raw
    ad = g.AuxData._from_protobuf(pa, ir)
    m.aux_data["t"] = ad
    unknown_reached = spec.get("unknown_reached", False)
    for gen in range(spec.get("generations", 1)):
        read = assigned = retyped = False
        cur_type = ad.type_name
        cur_val = None
        for op in spec["ops"]:
            if op == "read":
                d = ad.data
                read = True
            elif op == "mutate":
                d = ad.data
                read = True
                if isinstance(d, tuple):            # a tuple is immutable but its members need not be
                    for x in d:
                        if isinstance(x, list):
                            x.append(7)
                if isinstance(d, list):
                    et = ref_parse(ad.type_name)[1][0]
                    d.append(7 if et[0] in INT_TYPES else gen_value(et, rng, g, []))
                elif isinstance(d, dict):
                    d.clear()
                elif isinstance(d, set):
                    d.clear()
            elif op == "assign":
                try:
                    tt = ref_parse(ad.type_name)
                    ad.data = gen_value(tt, rng, g, [])
                    assigned = True
                except KeyError:
                    pass
            elif op.startswith("retype:"):
                ad.type_name = op.split(":", 1)[1]
                retyped = True
        if spec.get("save_then_mutate_kept_reference") and not unknown_reached:
            kept = ad.data
            read = True
            save_bytes(ir)                        # a first save ...
            if isinstance(kept, list):
                kept.append(7)                    # ... then an edit through the reference obtained before it
            elif isinstance(kept, dict):
                kept.clear()
            elif isinstance(kept, set):
                kept.clear()
        data = save_bytes(ir)
        from gtirb.proto import IR_pb2
        msg = IR_pb2.IR()
        msg.ParseFromString(data[8:])
        w = msg.modules[0].aux_data["t"]
        untouched = not (read or assigned or retyped)
        if w.type_name != ad.type_name:
            errs.append("written type name %r != current %r" % (w.type_name, ad.type_name))
        if untouched or (unknown_reached and not assigned and not retyped):
            if w.data != raw:
                errs.append("table %s: bytes changed (gen %d, ops %r)" % ("left untouched" if untouched else "of unknown type", gen, spec["ops"]))
        elif not unknown_reached:
            try:
                exp = ref_encode(ref_parse(ad.type_name), ad.data, g)
                if w.data != exp:
                    errs.append("table written as %s, expected the encoding of its current value under its current type (ops %r)"
                                % (w.data.hex()[:40], spec["ops"]))
            except Exception:
                pass
        # next generation
        ir = g.IR.load_protobuf_file(io.BytesIO(data))
        ad = ir.modules[0].aux_data["t"]
        raw = w.data
        if errs:
            break
    return errs


def c14_explore(g, seed, budget):
    rng = random.Random(seed)
    n = 0
    types = [("sequence<int64_t>", False), ("mapping<string,int8_t>", False), ("set<int8_t>", False),
             ("tuple<string,sequence<int64_t>>", False), ("foo", True), ("sequence<foo>", True), ("mapping<string,foo<int8_t>>", True)]
    sample = None
    for i in range(budget):
        tname, unk = rng.choice(types)
        ops = [rng.choice(["read", "mutate", "assign"] + (["retype:sequence<int32_t>"] if tname == "sequence<int64_t>" else []))
               for _ in range(rng.randint(0, 3))]
        spec = {"type": tname, "value_seed": rng.randrange(10 ** 6), "ops": ops, "generations": rng.randint(1, 3),
                "noncanonical": rng.random() < 0.3, "save_then_mutate_kept_reference": rng.random() < 0.25}
        if unk:
            spec["save_then_mutate_kept_reference"] = False
            # unknown codec is reached only when there is something to decode with it
            spec["ops"] = [o for o in ops if o in ("read",)]
            probe = ref_encode(ref_parse(tname.replace("foo<", "sequence<").replace("foo", "int8_t")),
                               gen_value(ref_parse(tname.replace("foo<", "sequence<").replace("foo", "int8_t")),
                                         random.Random(spec["value_seed"]), g, []), g)
            spec["unknown_reached"] = True if tname == "foo" else len(probe) > 8
        if any(o.startswith("retype") for o in spec["ops"]):
            spec["generations"] = 1
            spec["ops"] = [o for o in spec["ops"] if o != "assign"]
        n += 1
        try:
            errs = c14_case(g, spec)
        except Exception as e:
            errs = ["%s: %s" % (type(e).__name__, e)]
        if errs:
            return {"ok": False, "case": dict(spec, kind="C14"), "errors": errs[:4], "evaluations": n}
        sample = spec
    return {"ok": True, "evaluations": n, "distinct": n, "sample": sample}


# ================================================================================================ C15


def c15_check(g, s):
    from gtirb.serialization import Serialization, TypeNameError
    try:
        exp = ref_parse(s)
    except ValueError:
        exp = None
    try:
        got = Serialization._parse_type(s)
    except TypeNameError:
        got = None
    except RecursionError:
        return []
    except Exception as e:
        return ["%r rejected with %s instead of TypeNameError" % (s, type(e).__name__)] if exp is None else \
               ["%r (in the language) raised %s" % (s, type(e).__name__)]

    def conv(t):
        return (t.name, [conv(k) for k in t.subtypes])
    if exp is None and got is not None:
        return ["accepted malformed name %r (parsed as %r)" % (s, ref_print(conv(got)))]
    if exp is not None and got is None:
        return ["rejected %r, which is in the language" % s]
    if exp is not None and conv(got) != exp:
        return ["%r parsed as %r" % (s, ref_print(conv(got)))]
    return []


def c15_explore(g, seed, budget):
    """exhaustive over all strings of {a,b,<,>,','} up to length L (L=6 quick / 8 thorough) + random longer names"""
    L = 6 if budget <= 300 else 8
    n = 0
    for ln in range(0, L + 1):
        for tup in itertools.product("ab<>,", repeat=ln):
            s = "".join(tup)
            n += 1
            errs = c15_check(g, s)
            if errs:
                return {"ok": False, "case": {"kind": "C15", "s": s}, "errors": errs, "evaluations": n}
    rng = random.Random(seed)
    for _ in range(budget * 10):
        t = gen_type(rng, rng.randint(1, 5))
        s = ref_print(t)
        if rng.random() < 0.5:          # perturb
            i = rng.randrange(len(s) + 1)
            s = s[:i] + rng.choice(["<", ">", ",", "", "x", " "]) + s[i + (rng.random() < 0.5):]
        n += 1
        errs = c15_check(g, s)
        if errs:
            return {"ok": False, "case": {"kind": "C15", "s": s}, "errors": errs, "evaluations": n}
    return {"ok": True, "evaluations": n, "distinct": n, "sample": s, "exhaustive_up_to_length": L}


# ================================================================================================ drivers


def explore(g, prop, seed, budget):
    n = 0
    if prop in ("C01", "C09"):
        for i in range(budget):
            cs = seed * 100003 + i
            n += 1
            errs = c01_case(g, cs)
            if prop == "C09":
                errs = [e for e in errs if e.startswith("C09")] + c09_faults(g, cs)
            else:
                errs = [e for e in errs if not e.startswith("C09")]
            if errs:
                return {"ok": False, "case": {"kind": prop, "seed": cs}, "errors": errs[:4], "evaluations": n}
        return {"ok": True, "evaluations": n, "distinct": n, "sample": {"seed": seed * 100003}}
    if prop == "C02":
        errs = c02_enums(g)
        if errs:
            return {"ok": False, "case": {"kind": "C02-enums"}, "errors": errs[:4], "evaluations": 1}
        for i in range(budget):
            cs = seed * 100003 + i
            for which, f in (("writer", c02_writer), ("reader", c02_reader)):
                n += 1
                errs = f(g, cs)
                if errs:
                    return {"ok": False, "case": {"kind": "C02", "which": which, "seed": cs}, "errors": errs[:4], "evaluations": n}
        return {"ok": True, "evaluations": n, "distinct": n, "sample": {"seed": seed * 100003}}
    if prop == "C17":
        tot = 0
        for i in range(max(1, budget // 100)):
            cs = seed * 100003 + i
            errs, k = c17_case(g, cs, min(budget, 400))
            tot += k
            if errs:
                return {"ok": False, "case": {"kind": "C17", "seed": cs, "budget": min(budget, 400)}, "errors": errs[:4], "evaluations": tot}
        return {"ok": True, "evaluations": tot, "distinct": tot, "sample": {"seed": seed * 100003}}
    if prop in ("C07", "C08"):
        return c07_explore(g, seed, budget)
    if prop == "C14":
        return c14_explore(g, seed, budget)
    if prop == "C15":
        return c15_explore(g, seed, budget)
    raise KeyError(prop)


def run_case(g, case):
    k = case["kind"]
    if k == "C01":
        return [e for e in c01_case(g, case["seed"]) if not e.startswith("C09")]
    if k == "C09":
        return [e for e in c01_case(g, case["seed"]) if e.startswith("C09")] + c09_faults(g, case["seed"])
    if k == "C02":
        return (c02_writer if case["which"] == "writer" else c02_reader)(g, case["seed"])
    if k == "C02-enums":
        return c02_enums(g)
    if k == "C17":
        return c17_case(g, case["seed"], case["budget"])[0]
    if k == "C07":
        return c07_case(g, case["type"], case["value_seed"])
    if k == "C14":
        return c14_case(g, case)
    if k == "C15":
        return c15_check(g, case["s"])
    raise KeyError(k)


def main(argv):
    import gtirb
    if argv[1] == "--replay":
        rep = json.load(open(argv[2]))
        errs = run_case(gtirb, rep["failing_input"]["case"])
        print(json.dumps({"reproduced": bool(errs), "errors": [str(e) for e in errs[:5]]}))
        return 1 if errs else 0
    prop, seed, budget = argv[1], int(argv[2]), int(argv[3])
    try:
        res = explore(gtirb, prop, seed, budget)
    except Exception as e:
        res = {"ok": None, "crash": "%s: %s" % (type(e).__name__, e), "trace": traceback.format_exc()}
    print("RESULT " + json.dumps(res, default=str))
    return 0


if __name__ == "__main__":
    sys.exit(main(sys.argv))
