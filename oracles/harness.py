"""Executable oracles + bounded history exploration on the *real* code (overlay of /repo's working tree).

Used (a) as the bounded stand-in reported in the evidence (never counted as proved), and (b) to look for a
concrete failing input when a proof obligation fails (replay of a violation on the real code).

Run inside the overlay interpreter:  python -m oracles.harness <property> <mode> <seed> <budget> <out.json>
A history is a list of steps [op, args...] over a fixed universe of nodes addressed by name, so it can be
replayed deterministically:  python -m oracles.harness --replay <file>
"""
import io
import itertools
import json
import random
import sys
import traceback
import uuid as uuidlib


def U(i):
    return uuidlib.UUID(int=0x1000 + i)


class Universe:
    """Fixed cast of nodes; all uuids distinct (the properties' hypothesis)."""

    PROFILES = {"wide": dict(n_ir=2, n_mod=3, n_sec=3, n_bi=3, n_blk=5, n_sym=3, n_proxy=2),
                # few owners, many members: pending index updates stay below the collection size
                "dense": dict(n_ir=1, n_mod=1, n_sec=1, n_bi=2, n_blk=9, n_sym=2, n_proxy=1, attach=True),
                # one section with many intervals: the section-level index has more members than pending events
                "intervals": dict(n_ir=1, n_mod=1, n_sec=1, n_bi=6, n_blk=3, n_sym=2, n_proxy=1, attach=True,
                                  favour=("attr:bi", "symexpr:set", "lookup", "set_parent:bi"))}

    def __init__(self, gtirb, n_ir=2, n_mod=3, n_sec=3, n_bi=3, n_blk=5, n_sym=3, n_proxy=2, attach=False, favour=()):
        g = self.g = gtirb
        self.favour = favour
        self.n = {}
        k = itertools.count()
        for i in range(n_ir):
            self.n["ir%d" % i] = g.IR(uuid=U(next(k)))
        for i in range(n_mod):
            self.n["m%d" % i] = g.Module(name="m%d" % i, uuid=U(next(k)))
        for i in range(n_sec):
            self.n["s%d" % i] = g.Section(name="s%d" % i, uuid=U(next(k)))
        for i in range(n_bi):
            self.n["bi%d" % i] = g.ByteInterval(address=None if i == 2 else 0x100 * (i % 3) + 0x20 * (i // 3), size=0x40, uuid=U(next(k)))
        for i in range(n_blk):
            cls = g.CodeBlock if i % 2 == 0 else g.DataBlock
            self.n["b%d" % i] = cls(offset=4 * i, size=(0 if i == 3 else 6), uuid=U(next(k)))
        for i in range(n_sym):
            self.n["y%d" % i] = g.Symbol(name="n%d" % (i % 2), uuid=U(next(k)))
        for i in range(n_proxy):
            self.n["p%d" % i] = g.ProxyBlock(uuid=U(next(k)))
        if attach:
            self.n["m0"].ir = self.n["ir0"]
            self.n["s0"].module = self.n["m0"]
            for i in range(n_bi):
                self.n["bi%d" % i].section = self.n["s0"]
            for i in range(n_blk):
                self.n["b%d" % i].byte_interval = self.n["bi%d" % (0 if i < n_blk - 2 else 1)]
        self.kinds = {"ir": g.IR, "m": g.Module, "s": g.Section, "bi": g.ByteInterval, "b": g.ByteBlock,
                      "y": g.Symbol, "p": g.ProxyBlock}
        # shadow of the per-node mutable attributes edited in place (isolation clause of C04)
        self.shadow_flags = {k: set() for k in self.names("s")}
        self.shadow_aux = {k: set() for k in self.names("ir") + self.names("m")}

    def names(self, prefix):
        return [k for k in self.n if k.rstrip("0123456789") == prefix]

    def all_nodes(self):
        return list(self.n.items())


# ------------------------------------------------------------------------------------------------ oracles
def parent_of(g, n):
    if isinstance(n, g.ByteBlock):
        return n.byte_interval
    if isinstance(n, g.ByteInterval):
        return n.section
    if isinstance(n, (g.Section, g.Symbol, g.ProxyBlock)):
        return n.module
    if isinstance(n, g.Module):
        return n.ir
    return None


def children_colls(g, n):
    if isinstance(n, g.ByteInterval):
        return [n.blocks]
    if isinstance(n, g.Section):
        return [n.byte_intervals]
    if isinstance(n, g.Module):
        return [n.sections, n.symbols, n.proxies]
    if isinstance(n, g.IR):
        return [n.modules]
    return []


def coll_for(g, parent, child):
    if isinstance(parent, g.ByteInterval):
        return parent.blocks
    if isinstance(parent, g.Section):
        return parent.byte_intervals
    if isinstance(parent, g.IR):
        return parent.modules
    if isinstance(child, g.Section):
        return parent.sections
    if isinstance(child, g.Symbol):
        return parent.symbols
    return parent.proxies


def ir_of(g, n):
    seen = 0
    while n is not None and not isinstance(n, g.IR):
        n = parent_of(g, n)
        seen += 1
        if seen > 6:
            return None
    return n


def check_forest(u):
    """C04: child in parent's collection <=> parent attribute names that parent; no duplicates; accessors."""
    g = u.g
    errs = []
    nodes = [n for _, n in u.all_nodes()]
    for name, n in u.all_nodes():
        p = parent_of(g, n)
        if p is not None:
            coll = coll_for(g, p, n)
            cnt = sum(1 for x in coll if x is n)
            if cnt != 1:
                errs.append("%s has parent %r but appears %d times in its collection" % (name, type(p).__name__, cnt))
        for coll in children_colls(g, n):
            items = list(coll)
            if len(items) != len({id(x) for x in items}):
                errs.append("%s has a collection with a repeated element" % name)
            for ch in items:
                if parent_of(g, ch) is not n:
                    errs.append("%s contains a child whose parent attribute is %r" % (name, parent_of(g, ch)))
            if len(coll) != len(items):
                errs.append("%s: len(collection) != number of iterated items" % name)
    # isolation: in-place edits of one node's flags / AuxData map never show on another node, nor on new nodes
    for name, exp in u.shadow_flags.items():
        if {f.name for f in u.n[name].flags} != exp:
            errs.append("%s.flags is %s, expected %s (edits of another section leaked)" % (
                name, sorted(f.name for f in u.n[name].flags), sorted(exp)))
    for name, exp in u.shadow_aux.items():
        if set(u.n[name].aux_data.keys()) != exp:
            errs.append("%s.aux_data has keys %s, expected %s" % (name, sorted(u.n[name].aux_data.keys()), sorted(exp)))
    if g.Section(name="fresh").flags != set() or dict(g.Module(name="fresh").aux_data) != {} or dict(g.IR().aux_data) != {}:
        errs.append("a newly constructed node does not start with empty flags / AuxData")
    # derived accessors / aggregates
    for name, n in u.all_nodes():
        if isinstance(n, g.ByteBlock):
            bi = n.byte_interval
            sec = bi.section if bi is not None else None
            mod = sec.module if sec is not None else None
            ir = mod.ir if mod is not None else None
            if (n.section, n.module, n.ir) != (sec, mod, ir):
                errs.append("%s: derived accessors disagree with the forest" % name)
        if isinstance(n, g.IR):
            exp_blocks = {id(b) for b in nodes if isinstance(b, g.ByteBlock) and ir_of(g, b) is n}
            got = [id(b) for b in n.byte_blocks]
            if len(got) != len(set(got)) or set(got) != exp_blocks:
                errs.append("%s.byte_blocks != forest" % name)
            exp_cfg = {id(b) for b in nodes if isinstance(b, (g.CodeBlock, g.ProxyBlock)) and ir_of(g, b) is n}
            got = [id(b) for b in n.cfg_nodes]
            if len(got) != len(set(got)) or set(got) != exp_cfg:
                errs.append("%s.cfg_nodes != forest" % name)
        if isinstance(n, g.Module):
            exp = {id(b) for b in nodes if isinstance(b, g.CodeBlock) and b.module is n}
            got = [id(b) for b in n.code_blocks]
            if len(got) != len(set(got)) or set(got) != exp:
                errs.append("%s.code_blocks != forest" % name)
    return errs


def check_cache(u):
    """C03: ir.get_by_uuid(u) is n  <=>  n attached to ir and n.uuid == u"""
    g = u.g
    errs = []
    irs = [n for _, n in u.all_nodes() if isinstance(n, g.IR)]
    for ir in irs:
        for name, n in u.all_nodes():
            got = ir.get_by_uuid(n.uuid)
            attached = ir_of(g, n) is ir
            if attached and got is not n:
                errs.append("%s attached but get_by_uuid returned %r" % (name, got))
            if not attached and got is not None:
                errs.append("%s not attached to this IR but get_by_uuid finds %r" % (name, type(got).__name__))
        if ir.get_by_uuid(U(9999)) is not None:
            errs.append("unknown uuid found")
        # (the table itself is private: if the tree under test keeps it under another name, only the public lookups above apply)
        extra = set(getattr(ir, "_local_uuid_cache", ())) - {n.uuid for _, n in u.all_nodes()}
        if extra:
            errs.append("table holds foreign uuids")
    return errs


def on_q(addr, size, r):
    return addr is not None and max(addr, r.start) < min(addr + size, r.stop)


def at_q(addr, r):
    return addr is not None and addr in r


def as_range(q):
    return range(q, q + 1) if isinstance(q, int) else q


def multiset(xs):
    d = {}
    for x in xs:
        d[id(x)] = d.get(id(x), 0) + 1
    return d


def check_lookups(u, queries):
    """C05/C06: lookups equal a fresh scan (exactly at interval scope, MUST<=got<=MAY above)."""
    g = u.g
    errs = []
    nodes = [n for _, n in u.all_nodes()]
    blocks = [n for n in nodes if isinstance(n, g.ByteBlock)]
    bis = [n for n in nodes if isinstance(n, g.ByteInterval)]
    secs = [n for n in nodes if isinstance(n, g.Section)]

    def kindf(which):
        return {"byte": g.ByteBlock, "code": g.CodeBlock, "data": g.DataBlock}[which]

    for q in queries:
        r = as_range(q)
        for name, n in u.all_nodes():
            if isinstance(n, g.ByteInterval):
                for which in ("byte", "code", "data"):
                    mine = [b for b in blocks if b.byte_interval is n and isinstance(b, kindf(which))]
                    for mode in ("on", "at"):
                        got = list(getattr(n, "%s_blocks_%s" % (which, mode))(q))
                        A = n.address
                        exp = [b for b in mine if A is not None and
                               (on_q(A + b.offset, b.size, r) if mode == "on" else at_q(A + b.offset, r))]
                        if multiset(got) != multiset(exp):
                            errs.append("%s.%s_blocks_%s(%r): got %d expected %d" % (name, which, mode, q, len(got), len(exp)))
                        got = list(getattr(n, "%s_blocks_%s_offset" % (which, mode))(q))
                        exp = [b for b in mine if (on_q(b.offset, b.size, r) if mode == "on" else at_q(b.offset, r))]
                        if multiset(got) != multiset(exp):
                            errs.append("%s.%s_blocks_%s_offset(%r): got %d expected %d" % (name, which, mode, q, len(got), len(exp)))
            if isinstance(n, (g.Section, g.Module, g.IR)):
                def inscope(x):
                    p = x
                    while p is not None:
                        if p is n:
                            return True
                        p = parent_of(g, p)
                    return False
                for mode in ("on", "at"):
                    got = list(getattr(n, "byte_intervals_%s" % mode)(q))
                    exp = [b for b in bis if inscope(b) and (on_q(b.address, b.size, r) if mode == "on" else at_q(b.address, r))]
                    if multiset(got) != multiset(exp):
                        errs.append("%s.byte_intervals_%s(%r): got %d expected %d" % (name, mode, q, len(got), len(exp)))
                    for which in ("byte", "code", "data"):
                        got = list(getattr(n, "%s_blocks_%s" % (which, mode))(q))
                        cand = [b for b in blocks if inscope(b) and isinstance(b, kindf(which)) and b.byte_interval.address is not None]
                        may, must = [], []
                        for b in cand:
                            A, S = b.byte_interval.address, b.byte_interval.size
                            addr = A + b.offset
                            if mode == "on":
                                if on_q(addr, b.size, r):
                                    may.append(b)
                                    if max(addr, r.start, A) < min(addr + b.size, r.stop, A + S):
                                        must.append(b)
                            else:
                                if at_q(addr, r):
                                    may.append(b)
                                    if A <= addr < A + S:
                                        must.append(b)
                        mg = multiset(got)
                        if any(v > 1 for v in mg.values()):
                            errs.append("%s.%s_blocks_%s(%r): a block reported twice" % (name, which, mode, q))
                        if not set(multiset(must)) <= set(mg) or not set(mg) <= set(multiset(may)):
                            errs.append("%s.%s_blocks_%s(%r): outside MUST/MAY (got %d, must %d, may %d)"
                                        % (name, which, mode, q, len(got), len(must), len(may)))
            if isinstance(n, (g.Module, g.IR)):
                for mode in ("on", "at"):
                    def inscope2(x):
                        p = x
                        while p is not None:
                            if p is n:
                                return True
                            p = parent_of(g, p)
                        return False
                    got = list(getattr(n, "sections_%s" % mode)(q))
                    exp = []
                    for s in secs:
                        if not inscope2(s):
                            continue
                        ivs = list(s.byte_intervals)
                        if not ivs or any(b.address is None for b in ivs):
                            continue
                        lo = min(b.address for b in ivs)
                        hi = max(b.address + b.size for b in ivs)
                        if (on_q(lo, hi - lo, r) if mode == "on" else at_q(lo, r)):
                            exp.append(s)
                    if multiset(got) != multiset(exp):
                        errs.append("%s.sections_%s(%r): got %d expected %d" % (name, mode, q, len(got), len(exp)))
    for s in secs:
        ivs = list(s.byte_intervals)
        if not ivs or any(b.address is None for b in ivs):
            exp = (None, None)
        else:
            lo = min(b.address for b in ivs)
            exp = (lo, max(b.address + b.size for b in ivs) - lo)
        if (s.address, s.size) != exp:
            errs.append("section address/size %r != %r" % ((s.address, s.size), exp))
    return errs


def check_symbols(u):
    """C10"""
    g = u.g
    errs = []
    syms = [n for _, n in u.all_nodes() if isinstance(n, g.Symbol)]
    for name, n in u.all_nodes():
        if isinstance(n, g.Module):
            for nm in {s.name for s in syms} | {"", "zz"}:
                got = list(n.symbols_named(nm))
                exp = [s for s in syms if s.module is n and s.name == nm]
                if multiset(got) != multiset(exp):
                    errs.append("%s.symbols_named(%r): got %d expected %d" % (name, nm, len(got), len(exp)))
        if isinstance(n, (g.ByteBlock, g.ProxyBlock)):
            got = list(n.references)
            exp = [s for s in syms if n.module is not None and s.module is n.module and s.referent is n]
            if multiset(got) != multiset(exp):
                errs.append("%s.references: got %d expected %d" % (name, len(got), len(exp)))
    return errs


def check_symexprs(u, queries):
    """C13"""
    g = u.g
    errs = []
    for q in queries:
        r = as_range(q)
        for name, n in u.all_nodes():
            if isinstance(n, g.ByteInterval):
                got = list(n.symbolic_expressions_at(q))
                exp = [] if n.address is None else [
                    (n, k, n.symbolic_expressions[k]) for k in sorted(n.symbolic_expressions) if (n.address + k) in r]
                if [(id(a), b, id(c)) for a, b, c in got] != [(id(a), b, id(c)) for a, b, c in exp]:
                    errs.append("%s.symbolic_expressions_at(%r)" % (name, q))
                got = list(n.symbolic_expressions_at_offset(q))
                exp = [(n, k, n.symbolic_expressions[k]) for k in sorted(n.symbolic_expressions) if k in r]
                if [(id(a), b, id(c)) for a, b, c in got] != [(id(a), b, id(c)) for a, b, c in exp]:
                    errs.append("%s.symbolic_expressions_at_offset(%r)" % (name, q))
            if isinstance(n, (g.Section, g.Module, g.IR)):
                got = [(id(a), b) for a, b, c in n.symbolic_expressions_at(q)]
                may, must = [], []
                for bname, b in u.all_nodes():
                    if not isinstance(b, g.ByteInterval) or b.address is None:
                        continue
                    p = b
                    inside = False
                    while p is not None:
                        if p is n:
                            inside = True
                        p = parent_of(g, p)
                    if not inside:
                        continue
                    for k in b.symbolic_expressions:
                        if (b.address + k) in r:
                            may.append((id(b), k))
                            if 0 <= k < b.size:
                                must.append((id(b), k))
                if len(got) != len(set(got)) or not set(must) <= set(got) or not set(got) <= set(may):
                    errs.append("%s.symbolic_expressions_at(%r): outside MUST/MAY" % (name, q))
    return errs


QUERIES = [0, 4, 5, 0x100, 0x104, 0x109, 0x13f, 0x140, range(0, 0x400), range(0x100, 0x108), range(0x104, 0x104),
           range(0xfe, 0x10a, 3), range(4, 30, 2), range(0x200, 0x100)]


def all_oracles(u, props, rng=None):
    errs = []
    qs = QUERIES
    if "C04" in props:
        errs += ["C04: " + e for e in check_forest(u)]
    if "C03" in props:
        errs += ["C03: " + e for e in check_cache(u)]
    if "C05" in props or "C06" in props or "C12" in props:
        errs += ["C05/C06: " + e for e in check_lookups(u, qs)]
    if "C10" in props:
        errs += ["C10: " + e for e in check_symbols(u)]
    if "C13" in props:
        errs += ["C13: " + e for e in check_symexprs(u, qs)]
    return errs


# ------------------------------------------------------------------------------------------------ operations
def gen_step(u, rng, props):
    g = u.g
    n = u.n
    pick = lambda p: rng.choice(u.names(p))
    samp = lambda xs, k: rng.sample(xs, min(k, len(xs)))
    ops = []
    ops += [("set_parent", pick("b"), rng.choice(u.names("bi") + [None])),
            ("set_parent", pick("bi"), rng.choice(u.names("s") + [None])),
            ("set_parent", pick("s"), rng.choice(u.names("m") + [None])),
            ("set_parent", pick("y"), rng.choice(u.names("m") + [None])),
            ("set_parent", pick("p"), rng.choice(u.names("m") + [None])),
            ("set_parent", pick("m"), rng.choice(u.names("ir") + [None])),
            ("coll", "add", pick("bi"), pick("b")), ("coll", "discard", pick("bi"), pick("b")),
            ("coll", "add", pick("s"), pick("bi")), ("coll", "discard", pick("s"), pick("bi")),
            ("coll", "add", pick("m"), pick("s")), ("coll", "discard", pick("m"), pick("s")),
            ("coll", "add", pick("m"), pick("y")), ("coll", "discard", pick("m"), pick("y")),
            ("coll", "add", pick("m"), pick("p")), ("coll", "remove", pick("m"), pick("p")),
            ("coll", "update", pick("bi"), samp(u.names("b"), 2)),
            ("coll", "update", pick("s"), samp(u.names("bi"), 2)),
            ("coll", "ior", pick("m"), samp(u.names("s"), 2)),
            ("coll", "pop", rng.choice(u.names("bi") + u.names("s")), None),
            ("coll", "clear", rng.choice(u.names("bi") + u.names("s")), None),
            ("mods", "append", pick("ir"), pick("m")), ("mods", "insert", pick("ir"), pick("m"), rng.randint(-1, 3)),
            ("mods", "remove", pick("ir"), pick("m")), ("mods", "delitem", pick("ir"), rng.randint(-1, 2)),
            ("mods", "extend", pick("ir"), samp(u.names("m"), 2)),
            ("attr", pick("b"), "offset", rng.choice([0, 1, 4, 8, 0x3c, 0x40])),
            ("attr", pick("b"), "size", rng.choice([0, 1, 6, 0x10])),
            ("attr", pick("bi"), "address", rng.choice([None, 0, 0x100, 0x104, 0x140])),
            ("attr", pick("bi"), "size", rng.choice([0, 1, 8, 0x40])),
            ("attr", pick("y"), "name", rng.choice(["", "n0", "n1", "x"])),
            ("payload", pick("y"), rng.choice(u.names("b") + u.names("p") + [0, 7, None])),
            ("symexpr", "set", pick("bi"), rng.choice([0, 4, 0x3f, 0x50]), pick("y")),
            ("symexpr", "del", pick("bi"), rng.choice([0, 4, 0x3f, 0x50]), None),
            ("symexpr", "pop", pick("bi"), rng.choice([0, 4]), None),
            ("symexpr", "clear", pick("bi"), None, None),
            ("symexpr", "assign", pick("bi"), rng.choice([0, 8]), pick("y")),
            ("lookup", rng.choice(u.names("bi") + u.names("s") + u.names("m") + u.names("ir")), rng.randint(0, len(QUERIES) - 1)),
            ("ctor", "bi", pick("b")), ("ctor", "s", pick("bi")), ("ctor", "m", pick("s")),
            ("flag", pick("s"), rng.choice(["Readable", "Writable", "Executable"]), rng.choice(["add", "discard"])),
            ("aux", rng.choice(u.names("ir") + u.names("m")), rng.choice(["k1", "k2"]), rng.choice(["set", "del"])),
            ]
    if u.favour and rng.random() < 0.6:
        def tag(o):
            return "%s:%s" % (o[0], (o[1] if o[0] == "symexpr" else str(o[1]).rstrip("0123456789")))
        fav = [o for o in ops if o[0] in u.favour or tag(o) in u.favour]
        if fav:
            return list(rng.choice(fav))
    return list(rng.choice(ops))


def apply_step(u, step):
    """Execute one step through the public API.  Exceptions that the built-in counterpart would raise as well
    (KeyError on remove/pop of a missing element, IndexError, ValueError) are part of normal behaviour."""
    g, n = u.g, u.n
    op = step[0]
    try:
        if op == "set_parent":
            child = n[step[1]]
            parent = n[step[2]] if step[2] is not None else None
            attr = {"b": "byte_interval", "bi": "section", "s": "module", "y": "module", "p": "module", "m": "ir"}[
                step[1].rstrip("0123456789")]
            setattr(child, attr, parent)
        elif op == "coll":
            _, what, owner, arg = step
            o = n[owner]
            if what in ("add", "discard", "remove"):
                coll = coll_for(g, o, n[arg])
                getattr(coll, what)(n[arg])
            elif what == "update":
                coll_for(g, o, n[arg[0]]).update([n[a] for a in arg])
            elif what == "ior":
                c = coll_for(g, o, n[arg[0]])
                c |= {n[a] for a in arg}
            elif what == "pop":
                children_colls(g, o)[0].pop()
            elif what == "clear":
                children_colls(g, o)[0].clear()
        elif op == "mods":
            what, ir = step[1], n[step[2]]
            if what == "append":
                ir.modules.append(n[step[3]])
            elif what == "insert":
                ir.modules.insert(step[4], n[step[3]])
            elif what == "remove":
                ir.modules.remove(n[step[3]])
            elif what == "delitem":
                del ir.modules[step[3]]
            elif what == "extend":
                ir.modules.extend([n[a] for a in step[3]])
        elif op == "attr":
            setattr(n[step[1]], step[2], step[3])
        elif op == "payload":
            v = step[2]
            s = n[step[1]]
            if isinstance(v, str):
                s.referent = n[v]
            else:
                s.value = v
        elif op == "symexpr":
            _, what, bi, k, y = step
            b = n[bi]
            if what == "set":
                b.symbolic_expressions[k] = g.SymAddrConst(k, n[y])
            elif what == "del":
                del b.symbolic_expressions[k]
            elif what == "pop":
                b.symbolic_expressions.pop(k, None)
            elif what == "clear":
                b.symbolic_expressions.clear()
            elif what == "assign":
                b.symbolic_expressions = {k: g.SymAddrConst(1, n[y]), k + 4: g.SymAddrConst(2, n[y])}
        elif op == "ctor":
            # a move through a constructor argument: a new parent is built with an existing node as its child
            k = 900 + len(n)
            name = "%s%d" % (step[1], k)
            if name in n or len(n) > 60:
                return None
            child = n[step[2]]
            if step[1] == "bi":
                n[name] = g.ByteInterval(address=0x300, size=0x40, uuid=U(k), blocks=[child])
            elif step[1] == "s":
                n[name] = g.Section(name=name, uuid=U(k), byte_intervals=[child])
                u.shadow_flags[name] = set()
            else:
                n[name] = g.Module(name=name, uuid=U(k), sections=[child])
                u.shadow_aux[name] = set()
        elif op == "flag":
            fl = getattr(g.Section.Flag, step[2])
            getattr(n[step[1]].flags, step[3])(fl)
            getattr(u.shadow_flags[step[1]], step[3])(step[2])
        elif op == "aux":
            if step[3] == "set":
                n[step[1]].aux_data[step[2]] = g.AuxData("v", "string")
                u.shadow_aux[step[1]].add(step[2])
            else:
                n[step[1]].aux_data.pop(step[2], None)
                u.shadow_aux[step[1]].discard(step[2])
        elif op == "lookup":
            o = n[step[1]]
            q = QUERIES[step[2]]
            for f in ("byte_blocks_on", "byte_blocks_at", "byte_intervals_on", "byte_blocks_on_offset"):
                if hasattr(o, f):
                    list(getattr(o, f)(q))
            if hasattr(o, "address") and not isinstance(o, g.ByteInterval):
                o.address, o.size
    except (KeyError, IndexError, ValueError) as e:
        return type(e).__name__
    return None


def run_history(gtirb, steps, props, check_each=True, profile="wide"):
    """Replay a history.  ["check"] steps evaluate all oracles (lookups are part of the schedule: they update
    the lazy indexes); a final check is always made."""
    u = Universe(gtirb, **Universe.PROFILES[profile])
    for i, st in enumerate(steps):
        if st[0] == "check":
            errs = all_oracles(u, props)
            if errs:
                return i, errs
        else:
            apply_step(u, st)
    errs = all_oracles(u, props)
    return (len(steps), errs) if errs else (None, [])


def explore(gtirb, props, seed, n_hist, length, lookups=True, profile="wide"):
    rng = random.Random(seed)
    evaluations = 0
    distinct = set()
    sample = None
    for h in range(n_hist):
        u = Universe(gtirb, **Universe.PROFILES[profile])
        steps = []
        # how often the oracles (which issue lookups) run: every step, or in bursts of edits between checks
        check_prob = rng.choice([1.0, 0.4, 0.15])
        for i in range(length):
            st = gen_step(u, rng, props)
            steps.append(st)
            apply_step(u, st)
            evaluations += 1
            distinct.add(json.dumps(st))
            if rng.random() < check_prob or i == length - 1:
                steps.append(["check"])
                errs = all_oracles(u, props)
                if errs:
                    return {"ok": False, "steps": steps, "errors": errs[:5], "evaluations": evaluations,
                            "profile": profile}
        if h == 0:
            sample = steps[:8]
    return {"ok": True, "evaluations": evaluations, "distinct": len(distinct), "sample": sample}


def shrink(gtirb, steps, props, profile="wide"):
    """greedy removal of steps while the history still fails"""
    cur = list(steps)
    i = 0
    while i < len(cur):
        cand = cur[:i] + cur[i + 1:]
        try:
            idx, errs = run_history(gtirb, cand, props, check_each=False, profile=profile)
        except Exception:
            errs = None
        if errs:
            cur = cand
        else:
            i += 1
    return cur


def main(argv):
    import gtirb
    if argv[1] == "--replay":
        rep = json.load(open(argv[2]))
        idx, errs = run_history(gtirb, rep["failing_input"]["steps"], rep["failing_input"]["props"],
                                profile=rep["failing_input"].get("profile", "wide"))
        print(json.dumps({"reproduced": bool(errs), "errors": errs[:5]}))
        return 1 if errs else 0
    props = argv[1].split(",")
    seed, n_hist, length = int(argv[2]), int(argv[3]), int(argv[4])
    try:
        tot_e, tot_d = 0, 0
        for profile in ("wide", "dense", "intervals"):
            res = explore(gtirb, props, seed, n_hist if profile == "wide" else max(1, n_hist // 2), length,
                          profile=profile)
            tot_e += res.get("evaluations", 0)
            tot_d += res.get("distinct", 0)
            if not res["ok"]:
                break
        res["evaluations"], res["distinct"] = tot_e, tot_d
        if not res["ok"]:
            profile = res["profile"]
            res["steps"] = shrink(gtirb, res["steps"], props, profile)
            _, res["errors"] = run_history(gtirb, res["steps"], props, check_each=False, profile=profile)
            res["errors"] = res["errors"][:5]
            res["props"] = props
    except Exception as e:
        res = {"ok": None, "crash": "%s: %s" % (type(e).__name__, e), "trace": traceback.format_exc()}
    print("RESULT " + json.dumps(res, default=str))
    return 0


if __name__ == "__main__":
    sys.exit(main(sys.argv))
