"""Probes for the recorded known findings (known_findings.json): each re-demonstrates one specific defect of the
unchanged tree on the real code.  python -m oracles.probes <finding id>  -> RESULT {"manifests": bool, "detail": str}"""
import io
import json
import sys
import uuid as uuidlib


def U(i):
    return uuidlib.UUID(int=0x3000 + i)


def f_c04_1(g):
    ir = g.IR(uuid=U(0))
    ms = [g.Module(name="m%d" % i, uuid=U(1 + i), ir=ir) for i in range(3)]
    try:
        ir.modules[2] = ir.modules[0]
        detail = "no exception"
    except IndexError as e:
        detail = "IndexError: %s" % e
    bad = [m.name for m in ir.modules if m.ir is not ir] + [m.name for m in ms if m.ir is ir and m not in list(ir.modules)]
    dup = len(list(ir.modules)) != len(set(map(id, ir.modules)))
    return bool(bad) or dup or detail.startswith("IndexError"), "%s; modules=%r inconsistent=%r" % (
        detail, [m.name for m in ir.modules], bad)


def _two_module_ir(g):
    ir = g.IR(uuid=U(0))
    m1 = g.Module(name="a", uuid=U(1), ir=ir)
    m2 = g.Module(name="b", uuid=U(2), ir=ir)
    for i, m in enumerate((m1, m2)):
        s = g.Section(name="s", uuid=U(10 + i), module=m)
        bi = g.ByteInterval(uuid=U(20 + i), size=4, section=s)
        g.CodeBlock(uuid=U(30 + i), size=1, byte_interval=bi)
    return ir, m1, m2


def f_c01_1(g):
    """entry point of the first module is a code block of a later module: save works, load raises"""
    ir, m1, m2 = _two_module_ir(g)
    m1.entry_point = next(iter(m2.code_blocks))
    buf = io.BytesIO()
    ir.save_protobuf_file(buf)
    try:
        g.IR.load_protobuf_file(io.BytesIO(buf.getvalue()))
        return False, "loaded"
    except Exception as e:
        return True, "%s: %s" % (type(e).__name__, e)


def f_c17_1(g):
    """a file in which module 2 lists twice the uuid of a proxy that module 1 already contains: load returns an IR
    with two attached objects sharing that uuid"""
    from gtirb.proto import IR_pb2
    ir, m1, m2 = _two_module_ir(g)
    g.ProxyBlock(uuid=U(40), module=m1)
    msg = ir._to_protobuf()
    p = msg.modules[1].proxies.add()
    p.uuid = U(40).bytes
    p = msg.modules[1].proxies.add()
    p.uuid = U(40).bytes
    data = b"GTIRB\0\0" + bytes([g.version.PROTOBUF_VERSION]) + msg.SerializeToString()
    try:
        ir2 = g.IR.load_protobuf_file(io.BytesIO(data))
    except Exception as e:
        return False, "rejected: %s" % type(e).__name__
    attached = [n for m in ir2.modules for n in m.proxies]
    uu = [n.uuid for n in attached]
    dup = len(uu) != len(set(uu))
    return dup, "loaded; %d attached proxies, %d distinct uuids" % (len(uu), len(set(uu)))


PROBES = {"F-C04-1": f_c04_1, "F-C01-1": f_c01_1, "F-C17-1": f_c17_1}


def main(argv):
    import gtirb
    try:
        m, d = PROBES[argv[1]](gtirb)
        res = {"manifests": bool(m), "detail": d}
    except Exception as e:
        res = {"manifests": None, "detail": "probe crashed: %s: %s" % (type(e).__name__, e)}
    print("RESULT " + json.dumps(res))


if __name__ == "__main__":
    main(sys.argv)
