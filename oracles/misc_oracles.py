"""Executable oracles for C18 (deep_eq) and C19 (interval bytes / block views) on the real code.

python -m oracles.misc_oracles <C18|C19> <seed> <budget>         -> prints RESULT {json}
python -m oracles.misc_oracles --replay <file>
Failing inputs are small JSON "programs" interpreted by run_case().
"""
import copy
import io
import itertools
import json
import random
import sys
import traceback
import uuid as uuidlib


def U(i):
    return uuidlib.UUID(int=0x2000 + i)


# ------------------------------------------------------------------------------------------------ C19
def c19_case(g, steps):
    """steps: list of ["size", v] | ["isize", v] | ["contents", hexstring] | ["block", off, size] ; checked after each"""
    bi = g.ByteInterval(size=8, contents=b"abcdefgh", address=0x10, uuid=U(1))
    blk = g.DataBlock(offset=2, size=3, uuid=U(2), byte_interval=bi)
    errs = []
    for st in steps:
        if st[0] == "size":
            bi.size = st[1]
        elif st[0] == "isize":
            if st[1] <= bi.size:
                bi.initialized_size = st[1]
        elif st[0] == "contents":
            b = bytes.fromhex(st[1])
            if len(b) <= bi.size:
                bi.contents = bytearray(b)
        elif st[0] == "block":
            blk.offset, blk.size = st[1], st[2]
        elif st[0] == "addr":
            bi.address = st[1]
        if bi.initialized_size != len(bi.contents):
            errs.append("initialized_size %d != stored bytes %d" % (bi.initialized_size, len(bi.contents)))
        if len(bi.contents) > bi.size:
            errs.append("stored bytes %d exceed size %d after %r" % (len(bi.contents), bi.size, st))
        exp = bytes(bi.contents[blk.offset:blk.offset + blk.size])
        if bytes(blk.contents) != exp:
            errs.append("block contents %r != interval bytes %r" % (bytes(blk.contents), exp))
        ea = None if bi.address is None else bi.address + blk.offset
        if blk.address != ea:
            errs.append("block address %r != %r" % (blk.address, ea))
        for probe in (blk.offset - 1, blk.offset, blk.offset + blk.size - 1, blk.offset + blk.size):
            if blk.contains_offset(probe) != (blk.offset <= probe < blk.offset + blk.size):
                errs.append("contains_offset(%d)" % probe)
            if ea is not None and blk.contains_address(bi.address + probe) != (blk.offset <= probe < blk.offset + blk.size):
                errs.append("contains_address(%d)" % (bi.address + probe))
        if bi.address is None and blk.contains_address(0):
            errs.append("contains_address without address")
        if errs:
            break
    if not errs:
        # can always be saved and loaded back
        ir = g.IR(uuid=U(3))
        m = g.Module(name="m", uuid=U(4), ir=ir)
        s = g.Section(name="s", uuid=U(5), module=m)
        bi.section = s
        buf = io.BytesIO()
        try:
            ir.save_protobuf_file(buf)
            g.IR.load_protobuf_file(io.BytesIO(buf.getvalue()))
        except Exception as e:
            errs.append("save/load failed: %s: %s" % (type(e).__name__, e))
    # constructor / isize padding semantics
    return errs


def c19_static(g):
    errs = []
    for size, contents, isz in [(2, b"abcd", None), (4, b"abcd", 5), (3, b"", 4)]:
        try:
            g.ByteInterval(size=size, contents=contents, **({} if isz is None else {"initialized_size": isz}))
            errs.append("constructor accepted size=%r contents=%r initialized_size=%r" % (size, contents, isz))
        except ValueError:
            pass
    bi = g.ByteInterval(size=10, contents=b"abc")
    bi.initialized_size = 6
    if bytes(bi.contents) != b"abc\0\0\0":
        errs.append("initialized_size padding gave %r" % bytes(bi.contents))
    bi.initialized_size = 2
    if bytes(bi.contents) != b"ab":
        errs.append("initialized_size truncation gave %r" % bytes(bi.contents))
    return errs


def c19_explore(g, seed, budget):
    rng = random.Random(seed)
    errs = c19_static(g)
    if errs:
        return {"ok": False, "case": {"kind": "C19-static"}, "errors": errs}
    n = 0
    for _ in range(budget):
        steps = []
        for _ in range(rng.randint(1, 8)):
            k = rng.choice(["size", "isize", "contents", "block", "addr"])
            if k == "size":
                steps.append(["size", rng.choice([0, 1, 3, 5, 8, 12])])
            elif k == "isize":
                steps.append(["isize", rng.choice([0, 1, 2, 4, 8, 10])])
            elif k == "contents":
                steps.append(["contents", bytes(rng.randrange(256) for _ in range(rng.choice([0, 1, 3, 6]))).hex()])
            elif k == "block":
                steps.append(["block", rng.choice([0, 1, 4, 7, 9]), rng.choice([0, 1, 3, 6])])
            else:
                steps.append(["addr", rng.choice([None, 0, 0x10])])
        n += len(steps)
        errs = c19_case(g, steps)
        if errs:
            # shrink
            cur = steps
            i = 0
            while i < len(cur):
                cand = cur[:i] + cur[i + 1:]
                if cand and c19_case(g, cand):
                    cur = cand
                else:
                    i += 1
            return {"ok": False, "case": {"kind": "C19", "steps": cur}, "errors": c19_case(g, cur)[:4], "evaluations": n}
    return {"ok": True, "evaluations": n, "distinct": n, "sample": steps}


# ------------------------------------------------------------------------------------------------ C18
def build_ir(g, variant=None, shape=()):
    """Independent construction of one fixed IR; `variant` = (path, value) perturbs a single compared field.
    shape: "no_entry" (the module has no entry point), "loose_sym" (the symbol referenced by the symbolic expression
    is not owned by any module, so it is compared only through the expression)."""
    k = itertools.count(10)
    ir = g.IR(uuid=U(next(k)))
    m = g.Module(name="mod", uuid=U(next(k)), ir=ir, binary_path="/bin/x", isa=g.Module.ISA.X64,
                 file_format=g.Module.FileFormat.ELF, byte_order=g.Module.ByteOrder.Little, preferred_addr=7, rebase_delta=-3)
    s = g.Section(name=".text", uuid=U(next(k)), module=m, flags={g.Section.Flag.Readable})
    bi = g.ByteInterval(address=0x1000, size=16, contents=b"0123456789", uuid=U(next(k)), section=s)
    cb = g.CodeBlock(offset=0, size=4, uuid=U(next(k)), byte_interval=bi)
    db = g.DataBlock(offset=4, size=4, uuid=U(next(k)), byte_interval=bi)
    p = g.ProxyBlock(uuid=U(next(k)), module=m)
    sym = g.Symbol(name="f", uuid=U(next(k)), payload=cb, module=m)
    sym2 = g.Symbol(name="v", uuid=U(next(k)), payload=0, module=m)
    m.entry_point = None if "no_entry" in shape else cb
    if "loose_sym" in shape:
        sym.module = None
    bi.symbolic_expressions[2] = g.SymAddrConst(5, sym, {g.SymbolicExpression.Attribute.GOT})
    ir.cfg.add(g.Edge(cb, p, g.Edge.Label(g.Edge.Type.Call, False, True)))
    ir.aux_data["t"] = g.AuxData([1], "sequence<int64_t>")
    objs = dict(ir=ir, m=m, s=s, bi=bi, cb=cb, db=db, p=p, sym=sym, sym2=sym2)
    if "multi_cfg" in shape:
        # several edges sharing endpoints (a vertex with more than one incident edge end, a self loop)
        cb2 = g.CodeBlock(offset=8, size=2, uuid=U(600), byte_interval=bi)
        p2 = g.ProxyBlock(uuid=U(601), module=m)
        lab = g.Edge.Label(g.Edge.Type.Branch, True, False)
        ir.cfg.add(g.Edge(cb2, p, lab))
        ir.cfg.add(g.Edge(cb2, cb2, lab))
        ir.cfg.add(g.Edge(p, cb2, None))
        objs.update(cb2=cb2, p2=p2)
    if variant:
        apply_variant(g, objs, variant)
    return objs


VARIANTS = [
    ("cb.size", 5), ("cb.offset", 1), ("cb.decode_mode", "Thumb"), ("db.size", 3), ("db.offset", 5),
    ("bi.address", 0x2000), ("bi.address", None), ("bi.size", 17), ("bi.contents", "aa"), ("s.name", ".data"),
    ("s.flags", "Writable"), ("m.name", "other"), ("m.binary_path", "/x"), ("m.isa", "ARM"), ("m.file_format", "PE"),
    ("m.byte_order", "Big"), ("m.preferred_addr", 8), ("m.rebase_delta", 0), ("m.entry_point", None),
    ("sym.name", "g"), ("sym.at_end", True), ("sym.payload", "db"), ("sym2.payload", 1), ("sym2.payload", None),
    ("symexpr.offset", 6), ("symexpr.attr", "PLT"), ("symexpr.del", 2), ("symexpr.add", 8),
    ("cfg.add", None), ("cfg.discard", None), ("cfg.label", None), ("ir.version", 9), ("aux.add", "z"), ("aux.del", "t"),
    ("uuid", "cb"), ("uuid", "db"), ("uuid", "p"), ("uuid", "sym"), ("uuid", "s"), ("uuid", "bi"), ("uuid", "m"), ("uuid", "ir"),
    ("remove", "db"), ("remove", "p"), ("remove", "sym2"), ("add_block", None), ("add_section", None),
]


def apply_variant(g, o, variant):
    path, val = variant
    if path == "uuid":
        o[val].uuid = U(999)
        return
    if path == "remove":
        n = o[val]
        if isinstance(n, g.ByteBlock):
            n.byte_interval = None
        else:
            n.module = None
        return
    if path == "add_block":
        g.DataBlock(offset=9, size=1, uuid=U(500), byte_interval=o["bi"])
        return
    if path == "add_section":
        g.Section(name="x", uuid=U(501), module=o["m"])
        return
    obj, _, attr = path.partition(".")
    if obj == "symexpr":
        se = o["bi"].symbolic_expressions
        if attr == "offset":
            se[2].offset = val
        elif attr == "attr":
            se[2].attributes.add(getattr(g.SymbolicExpression.Attribute, val))
        elif attr == "del":
            del se[val]
        elif attr == "add":
            se[val] = g.SymAddrConst(0, o["sym2"])
        return
    if obj == "cfg" and attr.startswith("retarget"):
        lab = g.Edge.Label(g.Edge.Type.Branch, True, False)
        old_e, new_e = {"retarget": (("cb2", "p"), ("cb2", "p2")), "retarget_loop": (("cb2", "cb2"), ("cb2", "p2")),
                        "retarget_source": (("p", "cb2"), ("p2", "cb2"))}[attr]
        l = None if attr == "retarget_source" else lab
        o["ir"].cfg.discard(g.Edge(o[old_e[0]], o[old_e[1]], l))
        o["ir"].cfg.add(g.Edge(o[new_e[0]], o[new_e[1]], l))
        return
    if obj == "cfg":
        e = g.Edge(o["cb"], o["p"], g.Edge.Label(g.Edge.Type.Call, False, True))
        if attr == "add":
            o["ir"].cfg.add(g.Edge(o["p"], o["cb"], None))
        elif attr == "discard":
            o["ir"].cfg.discard(e)
        else:
            o["ir"].cfg.discard(e)
            o["ir"].cfg.add(g.Edge(o["cb"], o["p"], g.Edge.Label(g.Edge.Type.Call, True, True)))
        return
    if obj == "aux":
        if attr == "add":
            o["ir"].aux_data[val] = g.AuxData(1, "int64_t")
        else:
            del o["ir"].aux_data[val]
        return
    n = o[obj]
    if attr == "decode_mode":
        n.decode_mode = getattr(g.CodeBlock.DecodeMode, val)
    elif attr == "contents":
        n.contents = bytearray(bytes.fromhex(val))
    elif attr == "flags":
        n.flags.add(getattr(g.Section.Flag, val))
    elif attr == "isa":
        n.isa = getattr(g.Module.ISA, val)
    elif attr == "file_format":
        n.file_format = getattr(g.Module.FileFormat, val)
    elif attr == "byte_order":
        n.byte_order = getattr(g.Module.ByteOrder, val)
    elif attr == "payload":
        if isinstance(val, str):
            n.referent = o[val]
        else:
            n.value = val
    else:
        setattr(n, attr, val)


def c18_check(g, case):
    """case: {"variant": [path, val] | None} or {"cross": [clsA, clsB]}"""
    errs = []
    if "cross" in case:
        mk = {"DataBlock": lambda: g.DataBlock(uuid=U(1), size=2, offset=1),
              "CodeBlock": lambda: g.CodeBlock(uuid=U(1), size=2, offset=1),
              "ByteBlock": lambda: g.ByteBlock(uuid=U(1), size=2, offset=1),
              "ProxyBlock": lambda: g.ProxyBlock(uuid=U(1)),
              "Symbol": lambda: g.Symbol(name="x", uuid=U(1)),
              "Section": lambda: g.Section(name="x", uuid=U(1)),
              "ByteInterval": lambda: g.ByteInterval(uuid=U(1)),
              "Module": lambda: g.Module(name="x", uuid=U(1)),
              "IR": lambda: g.IR(uuid=U(1))}
        a, b = mk[case["cross"][0]](), mk[case["cross"][1]]()
        if a.deep_eq(b) != b.deep_eq(a):
            errs.append("deep_eq not symmetric for %s vs %s: %r / %r" % (case["cross"][0], case["cross"][1],
                                                                        a.deep_eq(b), b.deep_eq(a)))
        return errs
    shape = tuple(case.get("shape", ()))
    base = build_ir(g, None, shape)
    other = build_ir(g, tuple(case["variant"]) if case.get("variant") else None, shape)
    for name in base:
        x, y = base[name], other[name]
        if not x.deep_eq(x):
            errs.append("%s.deep_eq(itself) is False" % name)
    exp_equal = not case.get("variant")
    a, b = base["ir"].deep_eq(other["ir"]), other["ir"].deep_eq(base["ir"])
    if a != b:
        errs.append("IR.deep_eq not symmetric under %r" % (case.get("variant"),))
    if a != exp_equal:
        errs.append("IR.deep_eq is %r for %s" % (a, "equal copies" if exp_equal else "perturbation %r" % (case["variant"],)))
    if not exp_equal:
        # the node kind that holds the perturbed field must see it as well
        path = case["variant"][0]
        holder = {"cb": "cb", "db": "db", "bi": "bi", "s": "s", "m": "m", "sym": "sym", "sym2": "sym2", "symexpr": "bi",
                  "cfg": "ir", "ir": "ir", "aux": "ir"}.get(path.split(".")[0])
        if path == "uuid":
            holder = case["variant"][1]
        if path in ("remove", "add_block", "add_section"):
            holder = "m"
        if holder and base[holder].deep_eq(other[holder]):
            errs.append("%s.deep_eq misses perturbation %r" % (holder, case["variant"]))
        if "loose_sym" in shape and path.split(".")[0] == "sym" and base["bi"].deep_eq(other["bi"]):
            errs.append("bi.deep_eq misses perturbation %r of a symbol referenced by its symbolic expression" % (case["variant"],))
    return errs


def c18_explore(g, seed, budget):
    rng = random.Random(seed)
    cases = []
    for shape in ((), ("no_entry",), ("loose_sym",), ("no_entry", "loose_sym"), ("multi_cfg",)):
        skip = lambda v: (v[0] == "m.entry_point" and "no_entry" in shape) or (v == ("remove", "sym2") and False)
        extra = [("cfg.retarget", None), ("cfg.retarget_loop", None), ("cfg.retarget_source", None)] if "multi_cfg" in shape else []
        cases += [{"variant": None, "shape": list(shape)}] + [{"variant": list(v), "shape": list(shape)}
                                                               for v in list(VARIANTS) + extra if not skip(v)]
    kinds = ["DataBlock", "CodeBlock", "ByteBlock", "ProxyBlock", "Symbol", "Section", "ByteInterval", "Module", "IR"]
    cases += [{"cross": [a, b]} for a in kinds for b in kinds if a < b]
    n = 0
    for c in cases:
        n += 1
        errs = c18_check(g, c)
        if errs:
            return {"ok": False, "case": dict(c, kind="C18"), "errors": errs[:4], "evaluations": n}
    # insertion-order independence: same content inserted in a different order
    for i in range(min(budget, 20)):
        a = build_ir(g)
        b = build_ir(g)
        lab = [g.Edge(b["cb"], b["p"], g.Edge.Label(g.Edge.Type.Branch, bool(j & 1), bool(j & 2))) for j in range(4)]
        laa = [g.Edge(a["cb"], a["p"], g.Edge.Label(g.Edge.Type.Branch, bool(j & 1), bool(j & 2))) for j in range(4)]
        rng.shuffle(lab)
        for e in laa:
            a["ir"].cfg.add(e)
        for e in lab:
            b["ir"].cfg.add(e)
        n += 1
        if not a["ir"].deep_eq(b["ir"]) or not b["ir"].deep_eq(a["ir"]):
            return {"ok": False, "case": {"kind": "C18", "order": [[e.label.conditional, e.label.direct] for e in lab]},
                    "errors": ["deep_eq depends on edge insertion order"], "evaluations": n}
    return {"ok": True, "evaluations": n, "distinct": n, "sample": cases[1]}


# ------------------------------------------------------------------------------------------------ C11
def c11_case(g, steps):
    """CFG operations vs a python set of (id(source), id(target), label) triples"""
    ir = g.IR(uuid=U(1))
    m = g.Module(name="m", uuid=U(2), ir=ir)
    s = g.Section(name="s", uuid=U(3), module=m)
    bi = g.ByteInterval(uuid=U(4), section=s, size=16)
    nodes = [g.CodeBlock(uuid=U(10), byte_interval=bi), g.CodeBlock(uuid=U(11), byte_interval=bi, offset=4),
             g.ProxyBlock(uuid=U(12), module=m), g.ProxyBlock(uuid=U(13))]     # the last one is not attached
    labels = [None, g.Edge.Label(g.Edge.Type.Branch, False, False), g.Edge.Label(g.Edge.Type.Branch, True, False),
              g.Edge.Label(g.Edge.Type.Call, False, True), g.Edge.Label(g.Edge.Type.Branch, False, False)]
    cfg = ir.cfg
    model = set()

    def mk(e):
        return g.Edge(nodes[e[0]], nodes[e[1]], labels[e[2]])

    def key(e):
        return (e[0], e[1], labels[e[2]])
    errs = []
    for st in steps:
        op, arg = st[0], st[1]
        try:
            if op == "add":
                cfg.add(mk(arg)); model.add(key(arg))
            elif op == "discard":
                cfg.discard(mk(arg)); model.discard(key(arg))
            elif op == "remove":
                try:
                    cfg.remove(mk(arg)); ok = True
                except KeyError:
                    ok = False
                if ok != (key(arg) in model):
                    errs.append("remove raised/did not raise KeyError wrongly")
                model.discard(key(arg))
            elif op == "pop":
                try:
                    e = cfg.pop()
                    k = (nodes.index(e.source), nodes.index(e.target), e.label)
                    if k not in model:
                        errs.append("pop returned a non-member")
                    model.discard(k)
                    if e in cfg:
                        errs.append("popped edge is still a member")
                except KeyError:
                    if model:
                        errs.append("pop raised KeyError on a non-empty CFG")
            elif op == "clear":
                cfg.clear(); model.clear()
            elif op == "update":
                cfg.update([mk(a) for a in arg]); model |= {key(a) for a in arg}
            elif op == "ior":
                cfg |= {mk(a) for a in arg}; model |= {key(a) for a in arg}
            elif op == "isub":
                cfg -= {mk(a) for a in arg}; model -= {key(a) for a in arg}
            elif op == "iand":
                cfg &= {mk(a) for a in arg}; model &= {key(a) for a in arg}
            elif op == "ixor":
                cfg ^= {mk(a) for a in arg}; model ^= {key(a) for a in arg}
        except Exception as e:
            errs.append("%s raised %s: %s" % (op, type(e).__name__, e))
        got = [(nodes.index(e.source), nodes.index(e.target), e.label) for e in cfg]
        if len(got) != len(set(got)) or set(got) != model:
            errs.append("iteration %d edges (%d distinct) != model %d after %r" % (len(got), len(set(got)), len(model), st))
        if len(cfg) != len(model):
            errs.append("len %d != %d after %r" % (len(cfg), len(model), st))
        for i in range(len(nodes)):
            for j in range(len(nodes)):
                for l in range(len(labels)):
                    if (mk((i, j, l)) in cfg) != ((i, j, labels[l]) in model):
                        errs.append("membership of %r wrong after %r" % ((i, j, l), st))
        for i, n in enumerate(nodes):
            out = [(nodes.index(e.source), nodes.index(e.target), e.label) for e in cfg.out_edges(n)]
            inn = [(nodes.index(e.source), nodes.index(e.target), e.label) for e in cfg.in_edges(n)]
            if sorted(map(repr, out)) != sorted(repr(k) for k in model if k[0] == i):
                errs.append("out_edges(node %d) wrong after %r" % (i, st))
            if sorted(map(repr, inn)) != sorted(repr(k) for k in model if k[1] == i):
                errs.append("in_edges(node %d) wrong after %r" % (i, st))
            attached = i < 3
            bo = [(nodes.index(e.source), nodes.index(e.target), e.label) for e in n.outgoing_edges]
            bi_ = [(nodes.index(e.source), nodes.index(e.target), e.label) for e in n.incoming_edges]
            if sorted(map(repr, bo)) != (sorted(repr(k) for k in model if k[0] == i) if attached else []):
                errs.append("block.outgoing_edges(node %d) wrong after %r" % (i, st))
            if sorted(map(repr, bi_)) != (sorted(repr(k) for k in model if k[1] == i) if attached else []):
                errs.append("block.incoming_edges(node %d) wrong after %r" % (i, st))
        if errs:
            break
    return errs


def c11_explore(g, seed, budget):
    rng = random.Random(seed)
    n = 0
    distinct = set()
    for _ in range(budget):
        steps = []
        for _ in range(rng.randint(1, 10)):
            op = rng.choice(["add", "add", "add", "discard", "remove", "pop", "clear", "update", "ior", "isub", "iand", "ixor"])
            e = lambda: [rng.randrange(4), rng.randrange(4), rng.randrange(5)]
            steps.append([op, e() if op in ("add", "discard", "remove") else
                          (None if op in ("pop", "clear") else [e() for _ in range(rng.randint(0, 3))])])
        n += len(steps)
        distinct.update(json.dumps(s) for s in steps)
        errs = c11_case(g, steps)
        if errs:
            cur = steps
            i = 0
            while i < len(cur):
                cand = cur[:i] + cur[i + 1:]
                if cand and c11_case(g, cand):
                    cur = cand
                else:
                    i += 1
            return {"ok": False, "case": {"kind": "C11", "steps": cur}, "errors": c11_case(g, cur)[:4], "evaluations": n}
    return {"ok": True, "evaluations": n, "distinct": len(distinct), "sample": steps}


def run_case(g, case):
    if case.get("kind") == "C16":
        return c16_case(g, case["steps"])
    if case.get("kind") == "C11":
        return c11_case(g, case["steps"])
    if case.get("kind") == "C19":
        return c19_case(g, case["steps"])
    if case.get("kind") == "C19-static":
        return c19_static(g)
    if case.get("kind") == "C18":
        if "order" in case:
            return ["(order-dependent case: re-run exploration)"] if c18_explore(g, 1, 20).get("ok") is False else []
        return c18_check(g, case)
    raise ValueError(case)


# ------------------------------------------------------------------------------------------------ C16
def c16_universe(g):
    n = {}
    n["ir0"], n["ir1"] = g.IR(uuid=U(1)), g.IR(uuid=U(2))
    for i in range(4):
        n["m%d" % i] = g.Module(name="m%d" % i, uuid=U(10 + i))
    for i in range(3):
        n["s%d" % i] = g.Section(name="s%d" % i, uuid=U(20 + i))
        n["bi%d" % i] = g.ByteInterval(uuid=U(30 + i), size=8)
        n["y%d" % i] = g.Symbol(name="y%d" % i, uuid=U(50 + i))
        n["p%d" % i] = g.ProxyBlock(uuid=U(60 + i))
    for i in range(4):
        n["b%d" % i] = (g.CodeBlock if i % 2 else g.DataBlock)(uuid=U(40 + i), offset=i, size=1)
    n["m0"].ir = n["ir0"]; n["m1"].ir = n["ir0"]; n["m2"].ir = n["ir1"]
    n["s0"].module = n["m0"]; n["s1"].module = n["m0"]; n["s2"].module = n["m2"]
    n["bi0"].section = n["s0"]; n["bi1"].section = n["s0"]; n["bi2"].section = n["s2"]
    n["b0"].byte_interval = n["bi0"]; n["b1"].byte_interval = n["bi0"]; n["b2"].byte_interval = n["bi2"]
    n["y0"].module = n["m0"]; n["y1"].module = n["m2"]; n["p0"].module = n["m0"]; n["p1"].module = n["m2"]
    # further members of the collections of the *other* owners (ir1, m2, s2, bi2), so that a live collection handed to a
    # bulk operation has several elements
    for i in (4, 5):
        n["m%d" % i] = g.Module(name="m%d" % i, uuid=U(70 + i)); n["m%d" % i].ir = n["ir1"]
        n["s%d" % i] = g.Section(name="s%d" % i, uuid=U(80 + i)); n["s%d" % i].module = n["m2"]
        n["bi%d" % i] = g.ByteInterval(uuid=U(90 + i), size=8); n["bi%d" % i].section = n["s2"]
        n["y%d" % i] = g.Symbol(name="y%d" % i, uuid=U(100 + i)); n["y%d" % i].module = n["m2"]
        n["p%d" % i] = g.ProxyBlock(uuid=U(110 + i)); n["p%d" % i].module = n["m2"]
        n["b%d" % i] = (g.CodeBlock if i % 2 else g.DataBlock)(uuid=U(120 + i), offset=i, size=1)
        n["b%d" % i].byte_interval = n["bi2"]
    return n


C16_COLLS = {"ir0.modules": ("m", "list"), "m0.sections": ("s", "set"), "m0.symbols": ("y", "set"),
             "m0.proxies": ("p", "set"), "s0.byte_intervals": ("bi", "set"), "bi0.blocks": ("b", "set"),
             "bi0.symexprs": ("k", "dict")}


# collections of *other* owners whose live wrapper (not a copy) may be handed to a bulk operation
C16_LIVE = {"m": "ir1.modules", "s": "m2.sections", "y": "m2.symbols", "p": "m2.proxies", "bi": "s2.byte_intervals",
            "b": "bi2.blocks"}


def c16_iterable(n, names, form, pref):
    """the argument of a bulk operation in one of the forms a caller may use; returns (argument, snapshot list)"""
    if form == "live":
        live = c16_get(n, C16_LIVE[pref])
        return live, list(live)
    vals = [n[x] for x in names]
    if form == "tuple":
        return tuple(vals), vals
    if form == "gen":
        return (v for v in vals), vals
    return list(vals), vals


def c16_get(n, cname):
    o, attr = cname.split(".")
    if attr == "symexprs":
        return n[o].symbolic_expressions
    return getattr(n[o], attr)


def c16_owner_of(g, x):
    return parent_of_node(g, x)


def parent_of_node(g, x):
    if isinstance(x, g.ByteBlock):
        return x.byte_interval
    if isinstance(x, g.ByteInterval):
        return x.section
    if isinstance(x, g.Module):
        return x.ir
    return x.module


def c16_case(g, steps):
    """each step: [collection, op, args...]; the real collection is compared with a built-in list/set/dict that
    follows the same operation, modulo the documented differences (order of node sets, moving instead of duplicating)"""
    n = c16_universe(g)
    errs = []
    models = {}
    for cname, (pref, kind) in C16_COLLS.items():
        c = c16_get(n, cname)
        models[cname] = list(c) if kind == "list" else (dict(c) if kind == "dict" else set(c))

    def resync():
        # elements moved by an operation on one collection leave the others: refresh the other models from ownership
        for cname, (pref, kind) in C16_COLLS.items():
            if kind == "dict":
                continue
            owner = n[cname.split(".")[0]]
            if kind == "list":
                models[cname] = [x for x in models[cname] if parent_of_node(g, x) is owner]
            else:
                models[cname] = {x for x in models[cname] if parent_of_node(g, x) is owner}

    def outcome(f):
        try:
            return ("ok", f())
        except Exception as e:
            return ("exc", type(e).__name__)

    def same(a, b, kind):
        if a[0] != b[0]:
            return False
        if a[0] == "exc":
            return a[1] == b[1]
        x, y = a[1], b[1]
        if isinstance(x, (set, frozenset)) or isinstance(y, (set, frozenset)):
            return set(x) == set(y) and type(x) in (set, frozenset)
        if isinstance(y, list) and not isinstance(x, list):
            return list(x) == y
        return x == y or (x is y)
    for st in steps:
        cname, op = st[0], st[1]
        pref, kind = C16_COLLS[cname]
        real = c16_get(n, cname)
        model = models[cname]
        A = [n[a] if isinstance(a, str) and a in n else a for a in st[2:]]
        rr = mm = None
        if kind == "set":
            if op in ("add", "discard", "remove"):
                rr = outcome(lambda: getattr(real, op)(A[0])); mm = outcome(lambda: getattr(model, op)(A[0]))
            elif op == "pop":
                rr = outcome(lambda: real.pop())
                if rr[0] == "ok":
                    if rr[1] not in model:
                        errs.append("%s.pop() returned a non-member" % cname)
                    model.discard(rr[1]); mm = rr
                else:
                    mm = outcome(lambda: set(model).pop()) if not model else ("ok", None)
            elif op == "clear":
                rr = outcome(real.clear); mm = outcome(model.clear)
            elif op == "update":
                others = [[n[x] for x in grp] for grp in st[2:]]
                rr = outcome(lambda: real.update(*others)); mm = outcome(lambda: model.update(*others))
            elif op in ("update_from", "ior_from"):
                arg, snap = c16_iterable(n, st[3], st[2], pref)
                if op == "update_from":
                    rr = outcome(lambda: real.update(arg)); mm = outcome(lambda: model.update(snap))
                else:
                    if st[2] != "live":
                        arg = set(snap)
                    def dor(c, o):
                        c |= o
                        return None
                    rr = outcome(lambda: dor(real, arg)); mm = outcome(lambda: dor(model, set(snap)))
            elif op in ("ior", "iand", "isub", "ixor"):
                other = {n[x] for x in st[2]}
                def do(c, o=other, op=op):
                    if op == "ior": c |= o
                    elif op == "iand": c &= o
                    elif op == "isub": c -= o
                    else: c ^= o
                    return None
                rr = outcome(lambda: do(real)); mm = outcome(lambda: do(model))
            elif op in ("or", "and", "sub", "xor", "ror", "rand", "rsub", "rxor"):
                other = {n[x] for x in st[2]}
                import operator
                f = {"or": operator.or_, "and": operator.and_, "sub": operator.sub, "xor": operator.xor}[op.lstrip("r") if op.startswith("r") and op != "or" else op]
                if op.startswith("r") and op != "or":
                    rr = outcome(lambda: f(other, real)); mm = outcome(lambda: f(other, model))
                else:
                    rr = outcome(lambda: f(real, other)); mm = outcome(lambda: f(model, other))
            elif op in ("le", "ge", "eq", "isdisjoint", "lt", "gt"):
                other = {n[x] for x in st[2]}
                f = {"le": lambda c: c <= other, "ge": lambda c: c >= other, "eq": lambda c: c == other,
                     "isdisjoint": lambda c: c.isdisjoint(other), "lt": lambda c: c < other, "gt": lambda c: c > other}[op]
                rr = outcome(lambda: f(real)); mm = outcome(lambda: f(model))
            elif op == "contains":
                rr = outcome(lambda: A[0] in real); mm = outcome(lambda: A[0] in model)
        elif kind == "list":
            if op == "append":
                rr = outcome(lambda: real.append(A[0]))
                def mapp():
                    if A[0] in model: model.remove(A[0])
                    model.append(A[0])
                mm = outcome(mapp)
            elif op == "insert":
                rr = outcome(lambda: real.insert(A[1], A[0]))
                def mins():
                    i = A[1]
                    if A[0] in model:
                        # documented difference: a module already in the list is moved, not duplicated
                        model.remove(A[0])
                    model.insert(i, A[0])
                mm = outcome(mins)
            elif op == "remove":
                rr = outcome(lambda: real.remove(A[0])); mm = outcome(lambda: model.remove(A[0]))
            elif op == "pop":
                rr = outcome(lambda: real.pop(*A)); mm = outcome(lambda: model.pop(*A))
            elif op == "delitem":
                def d(c):
                    del c[A[0]]
                rr = outcome(lambda: d(real)); mm = outcome(lambda: d(model))
            elif op == "setitem":
                def si(c):
                    c[A[1]] = A[0]
                if A[0] in model:
                    continue      # assigning a module that is already in this list: known finding F-C04-1, not explored
                rr = outcome(lambda: si(real)); mm = outcome(lambda: si(model))
            elif op == "extend":
                vals = [n[x] for x in st[2]]
                if len(set(vals)) != len(vals) or any(v in model for v in vals):
                    continue
                rr = outcome(lambda: real.extend(vals)); mm = outcome(lambda: model.extend(vals))
            elif op == "iadd":
                vals = [n[x] for x in st[2]]
                if len(set(vals)) != len(vals) or any(v in model for v in vals):
                    continue
                def ia(c):
                    c += vals
                rr = outcome(lambda: ia(real)); mm = outcome(lambda: ia(model))
            elif op in ("extend_from", "iadd_from", "setslice"):
                arg, snap = c16_iterable(n, st[3], st[2], pref)
                if len(set(snap)) != len(snap) or any(v in model for v in snap):
                    continue      # values already in this list: known finding F-C04-1, not explored
                if op == "extend_from":
                    rr = outcome(lambda: real.extend(arg)); mm = outcome(lambda: model.extend(snap))
                elif op == "iadd_from":
                    def ia2(c, o):
                        c += o
                    rr = outcome(lambda: ia2(real, arg)); mm = outcome(lambda: ia2(model, snap))
                else:
                    lo, hi = st[4], st[5]
                    def ss(c, o):
                        c[lo:hi] = o
                    rr = outcome(lambda: ss(real, arg)); mm = outcome(lambda: ss(model, snap))
            elif op == "clear":
                rr = outcome(real.clear); mm = outcome(model.clear)
            elif op == "reverse":
                if len(model) >= 2:
                    continue      # reverse() assigns modules that are already in the list: known finding F-C04-1
                rr = outcome(real.reverse); mm = outcome(model.reverse)
            elif op == "index":
                rr = outcome(lambda: real.index(A[0])); mm = outcome(lambda: model.index(A[0]))
            elif op == "count":
                rr = outcome(lambda: real.count(A[0])); mm = outcome(lambda: model.count(A[0]))
            elif op == "getitem":
                rr = outcome(lambda: real[A[0]]); mm = outcome(lambda: model[A[0]])
            elif op == "getslice":
                rr = outcome(lambda: real[A[0]:A[1]]); mm = outcome(lambda: model[A[0]:A[1]])
            elif op == "delslice":
                def ds(c):
                    del c[A[0]:A[1]]
                rr = outcome(lambda: ds(real)); mm = outcome(lambda: ds(model))
            elif op == "contains":
                rr = outcome(lambda: A[0] in real); mm = outcome(lambda: A[0] in model)
        else:
            mk = lambda k: g.SymAddrConst(k, n["y0"])
            if op == "setitem":
                v = mk(A[0])
                rr = outcome(lambda: real.__setitem__(A[0], v)); mm = outcome(lambda: model.__setitem__(A[0], v))
            elif op == "delitem":
                rr = outcome(lambda: real.__delitem__(A[0])); mm = outcome(lambda: model.__delitem__(A[0]))
            elif op == "pop":
                rr = outcome(lambda: real.pop(*A)); mm = outcome(lambda: model.pop(*A))
            elif op == "popitem":
                rr = outcome(real.popitem)
                if rr[0] == "ok":
                    model.pop(rr[1][0], None); mm = rr
                else:
                    mm = outcome(lambda: dict().popitem()) if not model else ("ok", None)
            elif op == "setdefault":
                v = mk(A[0])
                rr = outcome(lambda: real.setdefault(A[0], v)); mm = outcome(lambda: model.setdefault(A[0], v))
            elif op == "update":
                d = {k: mk(k) for k in st[2]}
                rr = outcome(lambda: real.update(d)); mm = outcome(lambda: model.update(d))
            elif op == "clear":
                rr = outcome(real.clear); mm = outcome(model.clear)
            elif op == "get":
                rr = outcome(lambda: real.get(A[0])); mm = outcome(lambda: model.get(A[0]))
            elif op == "contains":
                rr = outcome(lambda: A[0] in real); mm = outcome(lambda: A[0] in model)
            elif op == "getitem":
                rr = outcome(lambda: real[A[0]]); mm = outcome(lambda: model[A[0]])
        if rr is None:
            continue
        if not same(rr, mm, kind):
            errs.append("%s.%s%r: real %r, built-in %r" % (cname, op, tuple(st[2:]), rr, mm))
        resync()
        for pf_, lname in C16_LIVE.items():
            lo_ = n[lname.split(".")[0]]
            for x in list(c16_get(n, lname)):
                if parent_of_node(g, x) is not lo_:
                    errs.append("%s still holds an element now owned by %r after %r" % (lname, parent_of_node(g, x), st))
        # contents
        for cn, (pf, kd) in C16_COLLS.items():
            r, m_ = c16_get(n, cn), models[cn]
            if kd == "list":
                if list(r) != m_ or len(r) != len(m_):
                    errs.append("%s contents %r != %r after %r" % (cn, [x.name for x in r], [x.name for x in m_], st))
            elif kd == "set":
                if set(r) != m_ or len(r) != len(m_):
                    errs.append("%s contents differ after %r (real %d, built-in %d)" % (cn, st, len(r), len(m_)))
            else:
                if list(r.keys()) != sorted(m_) or any(r[k] is not m_[k] for k in m_) or len(r) != len(m_):
                    errs.append("%s mapping differs after %r" % (cn, st))
        # elements stay consistent: membership <=> parent attribute
        for cn, (pf, kd) in C16_COLLS.items():
            if kd == "dict":
                continue
            owner = n[cn.split(".")[0]]
            r = c16_get(n, cn)
            for x in list(r):
                if parent_of_node(g, x) is not owner:
                    errs.append("%s holds an element whose parent attribute is %r after %r" % (cn, parent_of_node(g, x), st))
            for nm, x in n.items():
                if nm.rstrip("0123456789") == pf and parent_of_node(g, x) is owner and x not in list(r):
                    errs.append("%s lacks %s although its parent attribute names the owner, after %r" % (cn, nm, st))
        if errs:
            break
    return errs


def c16_gen(rng):
    cname = rng.choice(list(C16_COLLS))
    pref, kind = C16_COLLS[cname]
    names = {"m": ["m0", "m1", "m2", "m3"], "s": ["s0", "s1", "s2"], "y": ["y0", "y1", "y2"], "p": ["p0", "p1", "p2"],
             "bi": ["bi0", "bi1", "bi2"], "b": ["b0", "b1", "b2", "b3"]}.get(pref)
    if kind == "set":
        op = rng.choice(["add", "discard", "remove", "pop", "clear", "update", "ior", "iand", "isub", "ixor", "or", "and", "sub",
                         "xor", "rand", "rsub", "rxor", "le", "ge", "eq", "lt", "gt", "isdisjoint", "contains"])
        if op in ("discard", "remove", "contains") and rng.random() < 0.15:
            # an element of another kind (never a member of this set, possibly owned by the same parent through a sibling set)
            return [cname, op, rng.choice(["y0", "y1", "p0", "p1", "s0", "s1", "bi0", "b0", "m0"])]
        if op in ("add", "discard", "remove", "contains"):
            return [cname, op, rng.choice(names)]
        if op in ("pop", "clear"):
            return [cname, op]
        if op == "update" and rng.random() < 0.4:
            return [cname, rng.choice(["update_from", "ior_from"]), rng.choice(["list", "tuple", "gen", "live", "live"]),
                    rng.sample(names, rng.randint(0, 3))]
        if op == "update":
            return [cname, op] + [rng.sample(names, rng.randint(0, 2)) for _ in range(rng.randint(0, 2))]
        return [cname, op, rng.sample(names, rng.randint(0, 3))]
    if kind == "list":
        op = rng.choice(["append", "insert", "remove", "pop", "delitem", "setitem", "extend", "iadd", "clear", "reverse", "index",
                         "count", "getitem", "getslice", "delslice", "contains"])
        if op in ("append", "remove", "index", "count", "contains"):
            return [cname, op, rng.choice(names)]
        if op in ("insert", "setitem"):
            return [cname, op, rng.choice(names), rng.randint(-3, 3)]
        if op == "pop":
            return [cname, op] + ([rng.randint(-3, 3)] if rng.random() < 0.5 else [])
        if op in ("delitem", "getitem"):
            return [cname, op, rng.randint(-3, 3)]
        if op in ("extend", "iadd") and rng.random() < 0.6:
            form = rng.choice(["list", "tuple", "gen", "live", "live"])
            vals = rng.sample(names, rng.randint(0, 3))
            o2 = rng.choice(["extend_from", "iadd_from", "setslice", "setslice"])
            return [cname, o2, form, vals] + ([rng.randint(-2, 3), rng.randint(-2, 4)] if o2 == "setslice" else [])
        if op in ("extend", "iadd"):
            return [cname, op, rng.sample(names, rng.randint(0, 2))]
        if op in ("getslice", "delslice"):
            return [cname, op, rng.randint(-2, 2), rng.randint(-2, 3)]
        return [cname, op]
    op = rng.choice(["setitem", "delitem", "pop", "popitem", "setdefault", "update", "clear", "get", "contains", "getitem"])
    keys = [0, 2, 4, 9]
    if op in ("setitem", "delitem", "setdefault", "get", "contains", "getitem"):
        return [cname, op, rng.choice(keys)]
    if op == "pop":
        return [cname, op, rng.choice(keys)] + ([None] if rng.random() < 0.5 else [])
    if op == "update":
        return [cname, op, rng.sample(keys, rng.randint(0, 3))]
    return [cname, op]


def c16_explore(g, seed, budget):
    rng = random.Random(seed)
    n = 0
    distinct = set()
    for _ in range(budget):
        steps = [c16_gen(rng) for _ in range(rng.randint(1, 10))]
        n += len(steps)
        distinct.update(json.dumps(s) for s in steps)
        errs = c16_case(g, steps)
        if errs:
            cur = steps
            i = 0
            while i < len(cur):
                cand = cur[:i] + cur[i + 1:]
                if cand and c16_case(g, cand):
                    cur = cand
                else:
                    i += 1
            return {"ok": False, "case": {"kind": "C16", "steps": cur}, "errors": c16_case(g, cur)[:4], "evaluations": n}
    return {"ok": True, "evaluations": n, "distinct": len(distinct), "sample": steps}


def main(argv):
    import gtirb
    if argv[1] == "--replay":
        rep = json.load(open(argv[2]))
        errs = run_case(gtirb, rep["failing_input"]["case"])
        print(json.dumps({"reproduced": bool(errs), "errors": errs[:5]}))
        return 1 if errs else 0
    prop, seed, budget = argv[1], int(argv[2]), int(argv[3])
    try:
        res = {"C19": c19_explore, "C18": c18_explore, "C11": c11_explore, "C16": c16_explore}[prop](gtirb, seed, budget)
    except Exception as e:
        res = {"ok": None, "crash": "%s: %s" % (type(e).__name__, e), "trace": traceback.format_exc()}
    print("RESULT " + json.dumps(res, default=str))
    return 0


if __name__ == "__main__":
    sys.exit(main(sys.argv))


