#!/usr/bin/env python3
"""False-alarm test: each entry is a behaviour-preserving edit of /repo (renamed local, reordered independent statements,
equivalent condition, extra temporary, comment).  The registered quick check of every property listed for the edit is run
on a scratch copy (VERIF_REPO); it must exit 0 and print no VIOLATION line.  UNDECIDED lines are reported (an edit that
leaves the verifier's subset is decided by the bounded stand-in only) but are not a failure.
usage: build/venv/bin/python tools/harmless.py [index ...]      (not part of the registered checks)"""
import os, shutil, subprocess, sys, tempfile
ROOT = os.path.dirname(os.path.dirname(os.path.abspath(__file__)))
H = [
 ("block.py", "def address", "return self.byte_interval.address + self.offset", "return self.offset + self.byte_interval.address",
  ["C19", "C05"]),
 ("block.py", "def contains_address", "            base = byte_interval.address\n            if base is not None:\n"
  "                return self.contains_offset(address - base)",
  "            start = byte_interval.address\n            if start is not None:\n"
  "                return self.contains_offset(address - start)", ["C19"]),
 ("auxdata.py", "@data.setter", "        self._data = value\n        self._lazy_container = None",
  "        self._lazy_container = None\n        self._data = value", ["C14", "C01"]),
 ("symbolicexpression.py", "def _to_protobuf(self) -> SymbolicExpression_pb2.SymAddrAddr",
  "        proto_symaddraddr.scale = self.scale\n        proto_symaddraddr.offset = self.offset\n",
  "        proto_symaddraddr.offset = self.offset\n        proto_symaddraddr.scale = self.scale\n", ["C01", "C02"]),
 ("cfg.py", "def add(self, edge", "if edge not in self:", "if not (edge in self):", ["C11"]),
 ("module.py", "def _index_add", "            if node.referent:\n                self._symbol_referent_index[node.referent].add(node)",
  "            referent = node.referent\n            if referent:\n                self._symbol_referent_index[referent].add(node)",
  ["C10"]),
 ("section.py", "def address", "if 0 < len(index) == len(self.byte_intervals):",
  "if len(index) > 0 and len(index) == len(self.byte_intervals):", ["C06"]),
 ("lazyintervaltree.py", "def get(", "                if event == _EventType.ADDED:\n"
  "                    self._interval_index.add(interval)\n                else:\n"
  "                    self._interval_index.discard(interval)",
  "                if event != _EventType.ADDED:\n"
  "                    self._interval_index.discard(interval)\n                else:\n"
  "                    self._interval_index.add(interval)", ["C12", "C05"]),
 ("ir.py", "def load_protobuf_file", "if version != PROTOBUF_VERSION:", "if PROTOBUF_VERSION != version:", ["C17", "C09"]),
 ("serialization.py", "class StringCodec", '        return raw_bytes.read(size).decode("utf-8")',
  '        encoded = raw_bytes.read(size)\n        return encoded.decode("utf-8")', ["C07", "C08"]),
 ("serialization.py", "class SequenceCodec", "        sequence = list()\n        sequence_len = Uint64Codec.decode(raw_bytes)\n"
  "        for _ in range(sequence_len):\n            sequence.append(\n"
  "                serialization._decode_tree(raw_bytes, subtype, get_by_uuid)\n            )\n        return sequence",
  "        count = Uint64Codec.decode(raw_bytes)\n        items = list()\n"
  "        for _ in range(count):\n            items.append(\n"
  "                serialization._decode_tree(raw_bytes, subtype, get_by_uuid)\n            )\n        return items", ["C07"]),
 ("node.py", "def _from_protobuf", None, ("cached_node", "existing"), ["C09", "C17"]),
 ("symbol.py", "def deep_eq", "            self.name == other.name\n            and self.at_end == other.at_end\n"
  "            and self.uuid == other.uuid",
  "            self.uuid == other.uuid\n            and self.name == other.name\n            and self.at_end == other.at_end",
  ["C18"]),
 ("byteinterval.py", "def _to_protobuf", "        if self.address is None:\n            proto_interval.has_address = False\n"
  "        else:\n            proto_interval.has_address = True\n            proto_interval.address = self.address\n",
  "        if self.address is not None:\n            proto_interval.has_address = True\n"
  "            proto_interval.address = self.address\n        else:\n            proto_interval.has_address = False\n",
  ["C01", "C02"]),
 ("util.py", "def insert(self, i: int, v: T)", "        self._add(v)\n        return self._data.insert(i, v)",
  "        # take ownership first, then store\n        self._add(v)\n        self._data.insert(i, v)\n        return None",
  ["C16", "C04"]),
 ("module.py", "def _decode_protobuf", None, (r"\bm\b", "mod"), ["C09", "C17"]),
 ("byteinterval.py", "def __init__", "if initialized_size > size:", "if size < initialized_size:", ["C19"]),
 ("ir.py", "def _to_protobuf", None, (r"\bproto_ir\b", "msg"), ["C02"]),
 ("cfg.py", "def _from_protobuf", None, (r"\bedge\b", "proto_edge"), ["C09"]),
 ("serialization.py", "        mapping = dict()", None, (r"\bmapping\b", "decoded"), ["C07"]),
 ("lazyintervaltree.py", "def add(", None, (r"\binterval\b", "iv"), ["C12", "C06"]),
 ("module.py", "def _add_to_uuid_cache", "        for proxy in self.proxies:\n            proxy._add_to_uuid_cache(cache)\n"
  "        for section in self.sections:\n            section._add_to_uuid_cache(cache)\n",
  "        for section in self.sections:\n            section._add_to_uuid_cache(cache)\n"
  "        for proxy in self.proxies:\n            proxy._add_to_uuid_cache(cache)\n", ["C03"]),
 ("section.py", "class _ByteIntervalSet", "            self._node._index_add(v)\n            v._section = self._node\n",
  "            v._section = self._node\n            self._node._index_add(v)\n", ["C04", "C06"]),
 ("section.py", "class _ByteIntervalSet", "            if v not in self:\n                return\n",
  "            if not (v in self):\n                return None\n", ["C04"]),
 ("byteinterval.py", "def update(self, *iterables", None, ("new_items", "incoming"), ["C05", "C03"]),
 ("ir.py", "class _ModuleList", "            v._ir = None\n            v._remove_from_uuid_cache(self._node._local_uuid_cache)\n",
  "            v._remove_from_uuid_cache(self._node._local_uuid_cache)\n            v._ir = None\n", ["C03", "C04"]),
 ("auxdata.py", "from typing import", None, (r"\b_lazy_container\b", "_pending"), ["C14", "C08"]),
 ("cfg.py", "def discard(self, edge", "        if key is not None:\n            self._nxg.remove_edge(edge.source, edge.target, key=key)",
  "        if key is None:\n            return\n        self._nxg.remove_edge(edge.source, edge.target, key=key)", ["C11"]),
 ("cfg.py", "def out_edges", None, (r"\bl\b", "lbl"), ["C11"]),
 ("symbol.py", "def referent(self) -> typing.Optional[Block]", "        if isinstance(self._payload, Block):\n            return self._payload\n        return None",
  "        payload = self._payload\n        return payload if isinstance(payload, Block) else None", ["C10", "C18"]),
 ("byteinterval.py", "def symbolic_expressions_at(", "            if self.address + i in addrs:", "            if i + self.address in addrs:", ["C13"]),
 ("byteinterval.py", "def symbolic_expressions_at(", "        if self.address is None:\n            return\n\n        addrs = get_desired_range(addrs)",
  "        base = self.address\n        if base is None:\n            return\n\n        addrs = get_desired_range(addrs)", ["C13"]),
 ("module.py", "class _NodeSet", "            v._module = None\n            self._node._index_discard(v)\n",
  "            self._node._index_discard(v)\n            v._module = None\n", ["C10", "C04"]),
 ("module.py", "class _NodeSet", "            if self._node.ir is not None:\n                v._add_to_uuid_cache(self._node.ir._local_uuid_cache)\n            return super().add(v)",
  "            owner_ir = self._node.ir\n            if owner_ir is not None:\n                v._add_to_uuid_cache(owner_ir._local_uuid_cache)\n            return super().add(v)", ["C03", "C16"]),
 ("util.py", "class SetWrapper", "    def discard(self, v: T) -> None:\n        return self._data.discard(v)",
  "    def discard(self, v: T) -> None:\n        self._data.discard(v)", ["C16"]),
 ("module.py", "def _to_protobuf", "        proto_module.rebase_delta = self.rebase_delta\n"
  "        proto_module.sections.extend(s._to_protobuf() for s in self.sections)\n",
  "        proto_module.sections.extend(s._to_protobuf() for s in self.sections)\n"
  "        proto_module.rebase_delta = self.rebase_delta\n", ["C02"]),
 ("serialization.py", "class SetCodec", "        for item in items:\n            serialization._encode_tree(out, item, subtype)",
  "        for elem in items:\n            serialization._encode_tree(out, elem, subtype)", ["C07", "C08"]),
 ("serialization.py", "Mapping codec only supports Mappings", "        for key, val in mapping.items():\n            serialization._encode_tree(out, key, key_type)\n            serialization._encode_tree(out, val, val_type)",
  "        for k, v in mapping.items():\n            serialization._encode_tree(out, k, key_type)\n            serialization._encode_tree(out, v, val_type)", ["C08"]),
 ("cfg.py", "def discard(self, edge", "if key is not None:", "if not (key is None):", ["C11"]),
 ("util.py", "def _stable_iter", "    if isinstance(values, typing.Iterator):\n        return values\n    return list(values)",
  "    if not isinstance(values, typing.Iterator):\n        return list(values)\n    return values", ["C16", "C17"]),
]
sel = [int(a) for a in sys.argv[1:]]
bad = 0
for idx, (fn, anchor, old, new, pids) in enumerate(H):
    if sel and idx not in sel:
        continue
    src = open("/repo/python/gtirb/" + fn).read()
    i = src.index(anchor)
    if old is None:                       # rename inside the function that starts at the anchor
        j = src.index("\n    def ", i + 1) if "\n    def " in src[i + 1:] else len(src)
        k = src.index("\n    @", i + 1) if "\n    @" in src[i + 1:] else len(src)
        j = min(j, k)
        if anchor.startswith("from "):      # rename throughout the file
            i, j = 0, len(src)
        body = src[i:j]
        import re
        pat = new[0] if new[0].startswith("\\b") else r"\b%s\b" % re.escape(new[0])
        assert re.search(pat, body) and not re.search(r"\b%s\b" % re.escape(new[1]), body), (fn, anchor)
        out = src[:i] + re.sub(pat, new[1], body) + src[j:]
    else:
        j = src.index(old, i)
        out = src[:j] + new + src[j + len(old):]
    D = tempfile.mkdtemp(prefix="harmless.", dir="/tmp")
    try:
        os.makedirs(D + "/python")
        shutil.copytree("/repo/python/gtirb", D + "/python/gtirb", ignore=shutil.ignore_patterns("__pycache__"))
        shutil.copytree("/repo/proto", D + "/proto")
        shutil.copy("/repo/version.txt", D)
        shutil.copy("/repo/python/version.py.in", D + "/python/")
        open(D + "/python/gtirb/" + fn, "w").write(out)
        for pid in pids:
            p = subprocess.run([os.path.join(ROOT, "check"), pid], env=dict(os.environ, VERIF_REPO=D), capture_output=True,
                               text=True, cwd=ROOT)
            viol = [l for l in p.stdout.splitlines() if l.startswith(("VIOLATION", "CHECKER"))]
            und = [l for l in p.stdout.splitlines() if l.startswith("UNDECIDED")]
            ok = p.returncode == 0 and not viol
            print("%2d %-22s %-28s %s exit %d %s%s" % (idx, fn, anchor[:28], pid, p.returncode, "ok" if ok else "FALSE ALARM",
                                                      "  [%d undecided]" % len(und) if und else ""), flush=True)
            for l in (viol + und)[:4]:
                print("      " + l[:200])
            if not ok:
                bad += 1
    finally:
        shutil.rmtree(D, ignore_errors=True)
print("harmless edits: %d false alarms" % bad)
sys.exit(1 if bad else 0)
