#!/usr/bin/env bash
# Offline setup: one Python 3.12 venv with z3-solver, cvc5, hypothesis from the local
# wheelhouse, plus a .pth giving access to the repository's own third-party deps
# (protobuf, intervaltree, sortedcontainers, networkx) installed in /venv.
set -euo pipefail
cd "$(dirname "$0")/.."
V=build/venv
if [ ! -x "$V/bin/python" ] || ! "$V/bin/python" -c 'import z3, cvc5, hypothesis, google.protobuf, intervaltree, sortedcontainers, networkx' 2>/dev/null; then
  rm -rf "$V"
  mkdir -p build
  PY=/root/.pyenv/versions/3.12.1/bin/python
  [ -x "$PY" ] || PY=/venv/bin/python
  "$PY" -m venv "$V"
  PIP_NO_INDEX=1 "$V/bin/pip" install -q --no-index --find-links /opt/veriftools/wheels z3-solver cvc5 hypothesis jsonschema
  SP=$("$V/bin/python" -c 'import site; print(site.getsitepackages()[0])')
  echo "import site; site.addsitedir('/venv/lib/python3.12/site-packages')" > "$SP/repo_deps.pth"
fi
"$V/bin/python" -c 'import z3, cvc5, hypothesis, google.protobuf, intervaltree, sortedcontainers, networkx; print("setup ok: z3", z3.get_version_string())'
