#!/usr/bin/env bash
# usage: mkworktree.sh <dir>   -- scratch git worktree of /repo with the generated files
# (version.py, proto/*_pb2.py) that CMake would produce, so python/tests can run against it.
set -euo pipefail
D=$1
git -C /repo worktree add --detach "$D" HEAD >/dev/null 2>&1
/verif/build/venv/bin/python - "$D" <<'PY'
import sys, os, shutil
sys.path.insert(0, "/verif")
os.environ["VERIF_REPO"] = sys.argv[1]
from pyvc import overlay
tmp = overlay.build_overlay(dest=sys.argv[1] + "/.ovtmp", repo=sys.argv[1])
for rel in ["version.py", "proto"]:
    src = os.path.join(tmp, "gtirb", rel); dst = os.path.join(sys.argv[1], "python", "gtirb", rel)
    if os.path.isdir(src): shutil.copytree(src, dst, dirs_exist_ok=True)
    else: shutil.copy(src, dst)
shutil.rmtree(tmp)
PY
echo "$D"
