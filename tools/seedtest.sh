#!/usr/bin/env bash
# usage: seedtest.sh <seed dir name> [driver substring]  -- run the dev driver on a scratch copy with the seed's patch applied
set -euo pipefail
D=$(mktemp -d /tmp/seedrepo.XXXX)
mkdir -p $D/python && cp -r /repo/python/gtirb $D/python/ && cp -r /repo/proto /repo/version.txt $D/ && cp /repo/python/version.py.in $D/python/
(cd $D && patch -p1 -s --fuzz=3 < /verif/seeded/$1/patch.diff) || { echo "patch failed"; rm -rf $D; exit 9; }
shift
VERIF_REPO=$D VC_TIMEOUT_MS=${VC_TIMEOUT_MS:-8000} /verif/build/venv/bin/python -m pyvc.driver "$@" 2>&1 | tail -12
rm -rf $D
