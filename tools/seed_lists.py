#!/usr/bin/env python3
"""Print the deductive / stand-in-only lists of seeded/results.json per round (for DESIGN.md section 8)."""
import json, os
ROOT = os.path.dirname(os.path.dirname(os.path.abspath(__file__)))
r = json.load(open(os.path.join(ROOT, "seeded", "results.json")))
for rnd, sel in (("round 1", lambda n: n[-1] in "123"), ("round 2", lambda n: n[-1] in "45")):
    names = sorted(n for n in r if sel(n))
    det = [n for n in names if r[n]["exit"] == 1]
    ded = [n for n in det if any(h["kind"] == "failed-obligation" for h in r[n].get("how", []))]
    conc = [n for n in det if any(h["concrete_input"] for h in r[n].get("how", []))]
    print("%s: %d seeds, %d reported, %d by failed obligations, %d with a concrete failing input" % (
        rnd, len(names), len(det), len(ded), len(conc)))
    print("  deductive:", ", ".join(ded))
    print("  stand-in only:", ", ".join(n for n in det if n not in ded))
    print("  missed:", ", ".join(n for n in names if n not in det) or "-")
