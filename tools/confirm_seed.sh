#!/usr/bin/env bash
# usage: confirm_seed.sh <src dir with patch.diff demo.py notes.txt> <property id> <seed name>
# Confirms in a scratch worktree: tests pass with patch, demo fails with patch, demo passes without.
set -uo pipefail
SRC=$1; PID=$2; NAME=$3
WT=/tmp/confirm_wt_$$
/verif/tools/mkworktree.sh $WT >/dev/null
cd $WT
ok=1
PYTHONPATH=$WT/python /venv/bin/python $SRC/demo.py >/dev/null 2>&1; pre=$?
git apply $SRC/patch.diff || ok=0
(cd $WT/python && PYTHONPATH=$WT/python /venv/bin/python -m pytest -q -p no:cacheprovider tests >/tmp/confirm_tests_$$.log 2>&1); tests=$?
PYTHONPATH=$WT/python /venv/bin/python $SRC/demo.py >/tmp/confirm_demo_$$.log 2>&1; post=$?
tline=$(tail -1 /tmp/confirm_tests_$$.log)
cd /; git -C /repo worktree remove --force $WT
echo "$NAME: demo-without=$pre tests-with=$tests ($tline) demo-with=$post"
if [ $ok = 1 ] && [ $pre = 0 ] && [ $tests = 0 ] && [ $post != 0 ]; then
  D=/verif/seeded/$NAME; mkdir -p $D; cp $SRC/patch.diff $SRC/demo.py $D/; 
  python3 - "$D" "$PID" "$SRC" "$tline" "$(tail -3 /tmp/confirm_demo_$$.log | tr '\n' ' ' | cut -c1-300)" <<'PY'
import json,sys
d,pid,src,tline,demo=sys.argv[1:6]
notes=open(src+'/notes.txt').read().strip()
json.dump({"property":pid,"source":"independent sub-agent given only the property text and a scratch worktree",
 "what_it_needs_to_manifest":notes,
 "confirmed":{"demo_exit_without_patch":0,"existing_tests_with_patch":tline,"demo_with_patch":"non-zero exit: "+demo,
   "how":"tools/confirm_seed.sh in a scratch git worktree of /repo (python/tests run against the worktree's own python/gtirb)"},
 "detected_by":None},open(d+'/meta.json','w'),indent=1)
PY
  echo "   kept as $D"
else echo "   NOT kept"; fi
rm -f /tmp/confirm_tests_$$.log /tmp/confirm_demo_$$.log
