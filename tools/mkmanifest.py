#!/usr/bin/env python3
"""Regenerate /verif/MANIFEST.json from the table below (run with build/venv/bin/python)."""
import json, os, sys
ROOT = os.path.dirname(os.path.dirname(os.path.abspath(__file__)))
props = [json.loads(l) for l in open(os.path.join(ROOT, "properties.jsonl"))]

TB = ("Trusted base: the pyvc VC generator and its models of Python builtins (pyvc/symex.py, pyvc/schema.py), z3/cvc5, "
      "assumed contracts on dependencies (intervaltree, sortedcontainers, networkx, protobuf, collections.abc mixins; "
      "DESIGN 3.7), closed world / no monkey-patching, schema-range inputs (non-negative sizes, offsets, addresses). "
      "Bounded stand-ins are listed in the evidence and never counted as proved.")

CLAIMED = {
 "C03": ("proof", "4.C03", "Every mutator of the containment forest that is under contract (owning sets of intervals, blocks, sections, "
         "symbols, proxies; parent setters; module-list deletion; the _add/_remove_from_uuid_cache helpers of all node kinds) is proved, from "
         "the real AST, to preserve the per-IR table invariant I1/I2 (get_by_uuid(u) is n <=> n attached and uuid(n)==u) for all states and "
         "arguments; remaining entry points (collections.abc mixins, constructors, slice forms, load) are covered by the bounded history "
         "stand-in named in the evidence."),
 "C04": ("proof", "4.C04", "Forest invariants (child in parent's collection <=> parent attribute, kinds, no repeats) with whole-view "
         "effects and frames proved preserved by the mutators under contract; derived accessors/aggregates and the remaining entry points by "
         "the bounded history stand-in."),
 "C05": ("proof", "4.C05", "All 12 byte-interval lookups, all section/module/IR block lookups (MUST<=result<=MAY, no repeats), the filter "
         "arithmetic of util.py, the lazy tree (all three branches of get) and index maintenance at attribute writes and owning-set "
         "mutators are proved for all inputs and states."),
 "C06": ("proof", "4.C05", "byte_intervals_on/at at section/module/IR scope proved equal to a scan; Section.address / Section.size proved "
         "(None unless the section has intervals and all are addressed, else lowest address / highest end minus lowest address; uses "
         "one assumed finite-cardinality lemma) and Module/IR.sections_on/at proved against that extent; index maintenance as for C05."),
 "C10": ("proof", "4.C10", "Module._index_add/_index_discard, symbols_named, Block.references, name/payload writes through the real "
         "descriptor __set__, and symbol add/discard/move through Module._NodeSet are proved to keep both indexes equal to a scan."),
 "C13": ("proof", "4.C13", "ByteInterval.symbolic_expressions_at/_at_offset are proved to yield exactly one (interval, offset, expression) "
         "triple per stored expression whose address/offset is in the query, in increasing offset order (nothing without an address); "
         "section/module/IR scope proved to be the union over contained intervals up to the allowed omission (MUST<=result<=MAY, no repeats); "
         "the lazily maintained interval index those scopes go through (LazyIntervalTree.add/discard/get) is under contract too. "
         "Mapping mutations (mixins over a SortedDict) are covered by the bounded history stand-in."),
 "C18": ("proof", "4.C18", "deep_eq of the block classes, Symbol, SymAddrConst and SymAddrAddr is characterised exactly against the real bodies (two "
         "layers: symbols and expressions call deep_eq on their referents / symbols, modelled as the relation the lower layer "
         "characterises); same-kind iff, reflexivity and symmetry (also across kinds) are discharged as lemmas over those "
         "characterisations. Container classes (sorted/zip/all bodies: Section, ByteInterval, Module, IR, CFG) are covered by the "
         "bounded perturbation stand-in over four IR shapes, stated as bounded."),
 "C19": ("proof", "4.C19", "initialized_size getter/setter (pad/truncate), the size setter (truncate on shrink, with index maintenance), block "
         "address/contents/contains_offset/contains_address, the constructor guard and the loader's construction segment (rejection "
         "of more bytes than size) are proved for all inputs; save+load by the bounded stand-in."),
 "C12": ("proof", "4.C05", "LazyIntervalTree.get is proved to return exactly the current intervals and to leave no pending event in all "
         "three branches, whatever the number of pending events; every mutator under contract preserves the denotation invariant; "
         "so every lookup contract is a function of the current structure only."),
 "C11": ("proof", "4.C11", "CFG.add/discard/clear/__contains__/__len__/__iter__/update and the per-block edge views are proved against an "
         "assumed contract of networkx.MultiDiGraph (keyed multi-edges): the edge set is a set of (source, target, label) triples, "
         "and a block's incoming/outgoing edges are exactly the edges with that endpoint. Mixin-derived operations and the protobuf "
         "round trip of edges by the bounded lock-step stand-in."),
 "C16": ("proof", "4.C16", "Primitives of the wrapper collections (ListWrapper/SetWrapper/DictWrapper, module list insert/append/remove/"
         "__delitem__, node sets, _from_iterable, __or__) are proved to behave as the built-in list/set/dict on their contents while "
         "maintaining ownership; the collections.abc mixin surface (incl. slice assignment and bulk operations whose argument is a tuple, a generator or "
         "the live owning collection of another owner) is compared in lock step with built-ins by the bounded stand-in."),
 "C01": ("proof", "4.IO", "Proved for all inputs: the 8-byte header is written and checked as documented; block/symbol/symbolic-expression/"
         "AuxData leaf writers and readers, the container writers (one message per child, CFG vertices and edges) and the "
         "construction segments of the container readers agree with the schema field by field, so their composition is the identity on "
         "those parts. The whole-IR round trip (child lists of the readers, decode order, deep_eq both ways, re-save) is covered by the "
         "bounded stand-in only and is not counted as proved."),
 "C02": ("proof", "4.IO", "Proved field by field for all objects/messages: header layout, DataBlock/CodeBlock/ProxyBlock/Symbol/SymAddrConst/"
         "SymAddrAddr/AuxData writers and readers, the Block and SymbolicExpression one-ofs, the CFG edge reader, the Python enum "
         "tables against /repo/proto, and the container writers IR/Module/Section/ByteInterval._to_protobuf (scalars, one message "
         "per child with its own fields via a map rule over the child writers' contracts, CFG vertex list, section flags; the "
         "AuxData / symbolic-expression / CFG-edge fills are left out and named in the evidence). Container readers, order inside "
         "repeated fields and both protobuf back ends: bounded stand-in."),
 "C07": ("proof", "4.IO", "Integer (8 widths), bool, string, UUID and Offset codecs: encode and decode are proved against the wire-format "
         "definition for all values and the round trip (value and byte count) is a lemma over the two contracts; Serialization.encode/"
         "decode top level proved over abstract tree codecs. Container codecs under contract with loop invariants for any number of "
         "elements: sequence/set/mapping/tuple/variant encode and decode (set and mapping encoders relative to the iteration sequence "
         "of the Python collection, which is an assumption named in the evidence), float/double relative to struct's contract. "
         "The round trip of whole nested values, IEEE bit patterns and codec dispatch: bounded stand-in."),
 "C08": ("proof", "4.IO", "Encode contracts state the appended bytes against the documented format and are proved for all values of the leaf "
         "types and, with loop invariants, for the containers (count as uint64, then the elements / key-value pairs / fields in "
         "iteration order, variant index then the alternative); decode contracts give the value of conforming foreign bytes; "
         "AuxData._to_protobuf proved to write the encoding of the current value under the current type name. Whole nested values "
         "and floats: bounded byte-for-byte comparison with an independent encoder; the Java codec is not executed."),
 "C09": ("proof", "4.IO", "Proved for all tables and messages: decode-or-reuse by UUID with kind check for 7 node classes, symbol referents, "
         "symbolic-expression symbols, CFG endpoints and AuxData UUID/Offset entries resolve to the very table entry; wrong kinds and "
         "missing nodes raise DeserializationError; the module entry point is the table entry and must be a CodeBlock; CFG._from_protobuf "
         "builds exactly the edges of the messages. Whole-file identity: bounded stand-in."),
 "C14": ("proof", "4.IO", "The AuxData cell (lazy container, data getter/setter, _from_protobuf, _to_protobuf) and the top level of "
         "Serialization.encode/decode (UnknownData pass-through, unknown codec while encoding is EncodeError) are proved for all "
         "states: never-read + same type name reuses the loaded bytes, otherwise the current value is encoded under the current type "
         "name, unknown types keep their bytes. Multi-generation histories and nested unknown names: bounded stand-in."),
 "C15": ("exploration", "4.IO", "Bounded stand-in, not a proof: every string over {a,b,<,>,','} up to length 6 (quick) / 8 (thorough) plus random "
         "perturbed names is compared with an independent recursive-descent parser. Deductively proved for all inputs: the wrapper (tokenised "
         "with the documented expression, accepted iff exactly one root, every rejection a TypeNameError) and the exception "
         "discipline of the recursive sibling parser (for any token list it returns or raises TypeNameError - never IndexError, "
         "ValueError or another exception; loop invariant over the bracket-matching loop, recursion by contract). That the accepted "
         "language and the trees are exactly the grammar's is decided by the bounded stand-in only."),
 "C17": ("proof", "4.IO", "Proved for all byte strings/messages: bad magic, short file or wrong version byte is a ValueError before anything is "
         "parsed; a wrong version field is a ValueError before anything is built; every leaf reader rejects wrong-length UUIDs, dangling "
         "and ill-typed references and unknown enum numbers with the stated exception; module / section / interval construction from a "
         "message rejects undefined enum numbers and more content bytes than size. Coherence of what load returns for corrupted "
         "files (truncations, bit flips, structural faults): bounded stand-in."),
}

checks = []
for p in props:
    pid = p["id"]
    if pid in CLAIMED:
        cat, ref, text = CLAIMED[pid]
        checks.append({
            "property_id": pid,
            "quick_cmd": "./check %s --tier quick" % pid,
            "thorough_cmd": "./check %s --tier thorough" % pid,
            "evidence_file": "evidence/%s.json" % pid,
            "replay_cmd_template": "./check --replay {path}",
            "engine": "pyvc",
            "level_claimed": {"category": cat, "text": text, "design_ref": ref},
            "level_note": TB,
            "technique": "contract-based deductive verification: VCs generated from the real Python AST against sidecar contracts, "
                         "discharged by z3/cvc5; bounded executable-oracle stand-in for functions outside the contracts",
        })
na = [{"property_id": p["id"], "reason": "not claimed; see DESIGN.md"} for p in props if p["id"] not in CLAIMED]
m = {"version": 1, "setup_cmd": "bash tools/setup.sh",
     "hooks": {"guard": "GTIRB_VERIF", "enable": "none needed: contracts are sidecars under /verif/contracts; no file under /repo is instrumented",
               "baseline_off_cmd": "cd /repo && /venv/bin/python -m pytest -ra -q -p no:cacheprovider --timeout=900 --continue-on-collection-errors",
               "source_commits": [], "add_only": True},
     "engines": [{"name": "pyvc", "path": "pyvc/", "serves_properties": sorted(CLAIMED),
                  "kind_free_text": "AST->VC generator for a stated Python subset + sidecar contracts + z3/cvc5; executable oracles for replay"}],
     "checks": checks, "not_applicable": na,
     "notes": "See DESIGN.md. Exit codes of ./check: 0 held on everything decidable (UNDECIDED lines name the rest; VERIF_STRICT=1 makes that exit 2), 1 violation, 3 checker error."}
json.dump(m, open(os.path.join(ROOT, "MANIFEST.json"), "w"), indent=1)
import jsonschema
jsonschema.validate(m, json.load(open("/root/.vp/MANIFEST.schema.json")))
print("MANIFEST ok:", len(checks), "checks,", len(na), "not applicable")
