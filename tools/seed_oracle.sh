#!/usr/bin/env bash
# usage: seed_oracle.sh <seed name> <module> <args...> : run an oracle module against a scratch copy with the seed applied
S=$1; shift
D=$(mktemp -d /tmp/mutrepo.XXXX); mkdir -p $D/python && cp -r /repo/python/gtirb $D/python/ && cp -r /repo/proto /repo/version.txt $D/ && cp /repo/python/version.py.in $D/python/
(cd $D && patch -p1 -s < /verif/seeded/$S/patch.diff) || echo "PATCH FAILED"
O=$(VERIF_REPO=$D /verif/build/venv/bin/python /verif/pyvc/overlay.py $D/ov)
PYTHONPATH=$O:/verif /verif/build/venv/bin/python -m "$@" 2>&1 | tail -1 | cut -c1-330
rm -rf $D
