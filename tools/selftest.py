#!/usr/bin/env python3
"""Engine self-test: each entry is a small change of /repo that breaks a contract; the verifier run on a scratch copy must
report at least one obligation that is not discharged for the named function (and none on the unchanged tree).
usage: build/venv/bin/python tools/selftest.py        (takes a few minutes; not part of the registered checks)"""
import os, shutil, subprocess, sys, tempfile
ROOT = os.path.dirname(os.path.dirname(os.path.abspath(__file__)))
M = [
 ("ir.py", "def load_protobuf_file", "if version != PROTOBUF_VERSION:", "if version > PROTOBUF_VERSION:", "IR.load_protobuf_file"),
 ("ir.py", "def save_protobuf_file", 'protobuf_file.write(b"\\0")', 'protobuf_file.write(b"\\1")', "IR.save_protobuf_file"),
 ("symbol.py", "def _to_protobuf", "if self.value is not None:", "if self.value:", "Symbol._to_protobuf"),
 ("symbol.py", "def deep_eq", "and self.at_end == other.at_end", "", "Symbol.deep_eq"),
 ("byteinterval.py", "def _to_protobuf", "if self.address is None:", "if not self.address:", "ByteInterval._to_protobuf["),
 ("byteinterval.py", "def __init__", "if initialized_size > size:", "if initialized_size > size + 1:", "ByteInterval.__init__"),
 ("serialization.py", "class StringCodec", "Uint64Codec.encode(out, len(encoded))", "Uint64Codec.encode(out, len(val))", "StringCodec.encode"),
 ("serialization.py", "class SequenceCodec", "range(sequence_len)", "range(sequence_len - 1)", "SequenceCodec.decode"),
 ("serialization.py", "class VariantCodec", "raw_bytes, subtypes[index], get_by_uuid", "raw_bytes, subtypes[index], None", "VariantCodec.decode"),
 ("serialization.py", "def parse(", 'if len(stack) > 0 or subtype_tokens[-1] != ">":', 'if subtype_tokens[-1] != ">" or len(stack) > 0:', "_parse_type/parse"),
 ("auxdata.py", "def _to_protobuf", "self.type_name == self._lazy_container.type_name", "True", "AuxData._to_protobuf"),
 ("module.py", "def cfg_nodes", "itertools.chain(self.code_blocks, self.proxies)", "itertools.chain(self.code_blocks)", "Module.cfg_nodes"),
 ("module.py", "def _to_protobuf", "proto_module.proxies.extend(p._to_protobuf() for p in self.proxies)", "pass", "Module._to_protobuf"),
 ("cfg.py", "def _to_protobuf", "proto_edge.target_uuid = t.uuid.bytes", "proto_edge.target_uuid = s.uuid.bytes", "IR._to_protobuf"),
 ("cfg.py", "def make_edge", "if not isinstance(target, CfgNode):", "if target is None:", "make_edge"),
 ("section.py", "def address", "if 0 < len(index) == len(self.byte_intervals):", "if 0 < len(index):", "section.py::Section.address"),
 ("serialization.py", "class SetCodec", "Uint64Codec.encode(out, len(items))", "Uint64Codec.encode(out, len(items) + 1)", "SetCodec.encode"),
 ("serialization.py", "class SetCodec", "serialization._encode_tree(out, item, subtype)", "serialization._encode_tree(out, item, subtypes)", "SetCodec.encode"),
 ("serialization.py", "Mapping codec only supports Mappings", "serialization._encode_tree(out, val, val_type)", "serialization._encode_tree(out, val, key_type)", "MappingCodec.encode"),
 ("serialization.py", "Mapping codec only supports Mappings", "serialization._encode_tree(out, key, key_type)\n            serialization._encode_tree(out, val, val_type)", "serialization._encode_tree(out, val, val_type)\n            serialization._encode_tree(out, key, key_type)", "MappingCodec.encode"),
 ("node.py", "def _from_protobuf", "elif cached_node is not None:", "elif False:", "Node._from_protobuf[Symbol]"),
]


def run(repo, flt):
    env = dict(os.environ, VC_TIMEOUT_MS="8000", PYTHONHASHSEED="0")
    if repo:
        env["VERIF_REPO"] = repo
    p = subprocess.run([os.path.join(ROOT, "build/venv/bin/python"), "-m", "pyvc.driver", flt], env=env, capture_output=True,
                       text=True, cwd=ROOT)
    last = [l for l in p.stdout.splitlines() if l.startswith("obligations ")]
    und = [l for l in p.stdout.splitlines() if l.startswith("UNDECIDED")]
    return last[-1] if last else p.stdout[-300:], und


bad = 0
SEL = sys.argv[1:]
for fn, anchor, old, new, flt in M:
    if SEL and not any(x in flt for x in SEL):
        continue
    src = open("/repo/python/gtirb/" + fn).read()
    i = src.index(anchor)
    j = src.index(old, i)
    D = tempfile.mkdtemp(prefix="selftest.", dir="/tmp")
    try:
        os.makedirs(D + "/python")
        shutil.copytree("/repo/python/gtirb", D + "/python/gtirb")
        shutil.copytree("/repo/proto", D + "/proto")
        shutil.copy("/repo/version.txt", D)
        shutil.copy("/repo/python/version.py.in", D + "/python/")
        open(D + "/python/gtirb/" + fn, "w").write(src[:j] + new + src[j + len(old):])
        base, _ = run(None, flt)
        mut, und = run(D, flt)
    finally:
        shutil.rmtree(D, ignore_errors=True)
    ok_base = "not ok 0" in base
    ok_mut = ("not ok 0" not in mut) or und
    print("%-34s unchanged: %-40s changed: %s%s" % (flt, base[:40], mut[:60], "  [left the subset]" if und else ""))
    if not (ok_base and ok_mut):
        bad += 1
        print("   SELFTEST FAILURE")
print("self-test: %d of %d as expected" % (len(M) - bad, len(M)))
sys.exit(1 if bad else 0)
