#!/usr/bin/env python3
"""Run the registered quick checks against each kept seeded change (on a scratch copy of /repo, selected by
VERIF_REPO) and record which check reports it.  usage: run_seeds.py [seed-name-prefix ...]"""
import json, os, shutil, subprocess, sys, tempfile, time
ROOT = os.path.dirname(os.path.dirname(os.path.abspath(__file__)))
man = json.load(open(os.path.join(ROOT, "MANIFEST.json")))
claimed = [c["property_id"] for c in man["checks"]]
sel = sys.argv[1:]
out = {}
for name in sorted(os.listdir(os.path.join(ROOT, "seeded"))):
    d = os.path.join(ROOT, "seeded", name)
    if not os.path.isdir(d) or (sel and not any(name.startswith(s) for s in sel)):
        continue
    meta = json.load(open(os.path.join(d, "meta.json")))
    pid = meta["property"]
    if pid not in claimed:
        print(name, "property", pid, "not claimed yet"); continue
    tmp = tempfile.mkdtemp(prefix="seedrepo.", dir="/tmp")
    try:
        os.makedirs(tmp + "/python")
        shutil.copytree("/repo/python/gtirb", tmp + "/python/gtirb", ignore=shutil.ignore_patterns("__pycache__"))
        shutil.copy("/repo/python/version.py.in", tmp + "/python/version.py.in")
        shutil.copytree("/repo/proto", tmp + "/proto"); shutil.copy("/repo/version.txt", tmp + "/version.txt")
        subprocess.run(["patch", "-p1", "-s", "-i", os.path.join(d, "patch.diff")], cwd=tmp, check=True)
        t0 = time.time()
        env = dict(os.environ, VERIF_REPO=tmp)
        p = subprocess.run([os.path.join(ROOT, "check"), pid], capture_output=True, text=True, env=env, cwd=ROOT)
        lines = [l for l in p.stdout.splitlines() if l.startswith(("VIOLATION", "UNDECIDED", "CHECKER", pid + ":"))]
        out[name] = {"property": pid, "exit": p.returncode, "secs": round(time.time() - t0), "lines": lines[:6]}
        print(name, pid, "exit", p.returncode, "|", " ; ".join(l[:150] for l in lines[:3]), flush=True)
        # keep the failed obligation names for DESIGN.md
        meta["detected_by"] = {"check": pid, "exit": p.returncode, "lines": lines[:4]} if p.returncode == 1 else \
            {"check": pid, "exit": p.returncode, "missed": True, "lines": lines[:4]}
        json.dump(meta, open(os.path.join(d, "meta.json"), "w"), indent=1)
    finally:
        shutil.rmtree(tmp, ignore_errors=True)
json.dump(out, open(os.path.join(ROOT, "seeded", "results.json"), "w"), indent=1)
