#!/usr/bin/env python3
"""Run the registered quick checks against each kept seeded change (on a scratch copy of /repo, selected by
VERIF_REPO) and record which check reports it.  usage: run_seeds.py [seed-name-prefix ...]"""
import json, os, shutil, subprocess, sys, tempfile, time
ROOT = os.path.dirname(os.path.dirname(os.path.abspath(__file__)))
man = json.load(open(os.path.join(ROOT, "MANIFEST.json")))
claimed = [c["property_id"] for c in man["checks"]]
sel = sys.argv[1:]
out = {}
for name in sorted(os.listdir(os.path.join(ROOT, "seeded"))):
    d = os.path.join(ROOT, "seeded", name)
    if not os.path.isdir(d) or (sel and not any(name.startswith(s) for s in sel)):
        continue
    meta = json.load(open(os.path.join(d, "meta.json")))
    pid = meta["property"]
    if pid not in claimed:
        print(name, "property", pid, "not claimed yet"); continue
    tmp = tempfile.mkdtemp(prefix="seedrepo.", dir="/tmp")
    try:
        os.makedirs(tmp + "/python")
        shutil.copytree("/repo/python/gtirb", tmp + "/python/gtirb", ignore=shutil.ignore_patterns("__pycache__"))
        shutil.copy("/repo/python/version.py.in", tmp + "/python/version.py.in")
        shutil.copytree("/repo/proto", tmp + "/proto"); shutil.copy("/repo/version.txt", tmp + "/version.txt")
        pr = subprocess.run(["patch", "-p1", "-s", "--fuzz=3", "-i", os.path.join(d, "patch.diff")], cwd=tmp)
        if pr.returncode != 0:
            print(name, "patch does not apply to the current tree"); continue
        t0 = time.time()
        env = dict(os.environ, VERIF_REPO=tmp, VERIF_TIMEOUT_MS=os.environ.get("VERIF_TIMEOUT_MS", "15000"),
                   VERIF_RETRY_MS=os.environ.get("VERIF_RETRY_MS", "30000"))
        p = subprocess.run([os.path.join(ROOT, "check"), pid], capture_output=True, text=True, env=env, cwd=ROOT)
        lines = [l for l in p.stdout.splitlines() if l.startswith(("VIOLATION", "UNDECIDED", "CHECKER", pid + ":"))]
        how = []
        for l in lines:
            if l.startswith("VIOLATION") and "replay=" in l:
                rp = l.split("replay=")[1].split()[0]
                try:
                    rep = json.load(open(rp))
                    how.append({"kind": rep.get("kind"), "obligation": rep.get("obligation"),
                                "concrete_input": bool(rep.get("failing_input"))})
                except Exception:
                    pass
        und = [l for l in p.stdout.splitlines() if l.startswith("UNDECIDED")]
        out[name] = {"property": pid, "exit": p.returncode, "secs": round(time.time() - t0), "lines": lines[:6], "how": how[:8],
                     "undecided": und[:3]}
        print(name, pid, "exit", p.returncode, "|", " ; ".join(l[:150] for l in lines[:3]), flush=True)
        # keep the failed obligation names for DESIGN.md
        meta["detected_by"] = {"check": pid, "exit": p.returncode, "how": how[:8]} if p.returncode == 1 else \
            {"check": pid, "exit": p.returncode, "missed": True, "lines": lines[:4]}
        json.dump(meta, open(os.path.join(d, "meta.json"), "w"), indent=1)
    finally:
        shutil.rmtree(tmp, ignore_errors=True)
resf = os.path.join(ROOT, "seeded", "results.json")
allres = {}
if os.path.exists(resf):
    allres = json.load(open(resf))
allres.update(out)
json.dump(allres, open(resf, "w"), indent=1)
with open(os.path.join(ROOT, "seeded", "SUMMARY.md"), "w") as f:
    f.write("| seed | property | exit | failed obligations (deductive) | bounded stand-in | concrete input |\n|---|---|---|---|---|---|\n")
    for name in sorted(allres):
        r = allres[name]
        ded = sorted({(h["obligation"] or "").split("::")[-1] for h in r.get("how", []) if h["kind"] == "failed-obligation"})
        bnd = any(h["kind"] and h["kind"].startswith("bounded") for h in r.get("how", []))
        conc = any(h["concrete_input"] for h in r.get("how", []))
        f.write("| %s | %s | %d | %s | %s | %s |\n" % (name, r["property"], r["exit"], "; ".join(ded)[:300] or "-",
                                                        "yes" if bnd else "-", "yes" if conc else "-"))
    det = sum(1 for r in allres.values() if r["exit"] == 1)
    f.write("\n%d of %d seeded changes reported by the check of their property.\n" % (det, len(allres)))
