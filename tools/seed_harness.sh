#!/usr/bin/env bash
# usage: seed_harness.sh <seed dir> <module> <args...>   -- run an oracle module on a scratch copy with the seed applied
set -euo pipefail
D=$(mktemp -d /tmp/seedrepo.XXXX)
mkdir -p $D/python && cp -r /repo/python/gtirb $D/python/ && cp -r /repo/proto /repo/version.txt $D/ && cp /repo/python/version.py.in $D/python/
(cd $D && patch -p1 -s --fuzz=3 < /verif/seeded/$1/patch.diff)
shift
VERIF_REPO=$D /verif/build/venv/bin/python - "$@" <<'P'
import sys
from pyvc import standin
with standin.Overlay() as ov:
    for seed in (1, 2, 3):
        a = list(sys.argv[2:]); a[1:1] = [seed]
        r = standin.run_module(ov, sys.argv[1], a)
        print(seed, r.get("ok"), r.get("evaluations"), (r.get("errors") or [])[:2], r.get("crash"))
P
rm -rf $D
