#!/usr/bin/env bash
# usage: muttest.sh '<sed expr>' <file under python/gtirb> [driver args]  -- run the dev driver on a mutated scratch copy
set -euo pipefail
D=$(mktemp -d /tmp/mutrepo.XXXX)
mkdir -p $D/python && cp -r /repo/python/gtirb $D/python/ && cp -r /repo/proto /repo/version.txt $D/ && cp /repo/python/version.py.in $D/python/
sed -i -E "$1" $D/python/gtirb/$2
diff -r /repo/python/gtirb $D/python/gtirb | head -8 || true
shift 2
VERIF_REPO=$D /verif/build/venv/bin/python -m pyvc.driver "$@" 2>&1 | tail -12
rm -rf $D
