#!/usr/bin/env python3
"""usage: mutfn.py <file under python/gtirb> <anchor text> <old> <new> <driver filter>
replace the first occurrence of <old> after <anchor> by <new> on a scratch copy and run the dev driver on it"""
import os, shutil, subprocess, sys, tempfile
fn, anchor, old, new, flt = sys.argv[1:6]
src = open('/repo/python/gtirb/' + fn).read()
i = src.index(anchor)
j = src.index(old, i)
mut = src[:j] + new + src[j + len(old):]
D = tempfile.mkdtemp(prefix='mutrepo.', dir='/tmp')
try:
    os.makedirs(D + '/python'); shutil.copytree('/repo/python/gtirb', D + '/python/gtirb'); shutil.copytree('/repo/proto', D + '/proto')
    shutil.copy('/repo/version.txt', D); shutil.copy('/repo/python/version.py.in', D + '/python/')
    open(D + '/python/gtirb/' + fn, 'w').write(mut)
    p = subprocess.run(['/verif/build/venv/bin/python', '-m', 'pyvc.driver', flt], env=dict(os.environ, VERIF_REPO=D),
                       capture_output=True, text=True, cwd='/verif')
    print("\n".join(l for l in p.stdout.splitlines() if not l.startswith("  slow"))[-900:])
finally:
    shutil.rmtree(D)
