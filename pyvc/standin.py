"""Glue between the checker and the executable oracles (bounded stand-ins / witness search / replay)."""
import json
import os
import shutil
import subprocess
import sys
import tempfile

ROOT = os.path.dirname(os.path.dirname(os.path.abspath(__file__)))
PY = os.path.join(ROOT, "build", "venv", "bin", "python")


class Overlay:
    def __enter__(self):
        from pyvc import overlay
        os.makedirs(os.path.join(ROOT, "build"), exist_ok=True)
        self.dir = tempfile.mkdtemp(prefix="overlay-", dir=os.path.join(ROOT, "build"))
        overlay.build_overlay(self.dir)
        return self.dir

    def __exit__(self, *a):
        shutil.rmtree(self.dir, ignore_errors=True)


def run_module(ov, module, args, timeout=600, env_extra=None):
    env = dict(os.environ)
    env["PYTHONPATH"] = ov + os.pathsep + ROOT
    env.update(env_extra or {})
    p = subprocess.run([PY, "-m", module] + [str(a) for a in args], capture_output=True, text=True, env=env,
                       timeout=timeout, cwd=ROOT)
    res = None
    for line in p.stdout.splitlines():
        if line.startswith("RESULT "):
            res = json.loads(line[len("RESULT "):])
    if res is None:
        res = {"ok": None, "crash": "no result", "stdout": p.stdout[-2000:], "stderr": p.stderr[-2000:]}
    return res


def history_standin(pid, props, tier, seed, n_quick=(40, 30), n_thorough=(400, 40)):
    """Random histories over the public API with all oracles of `props` evaluated after every step."""
    n_hist, length = n_quick if tier == "quick" else n_thorough
    with Overlay() as ov:
        res = run_module(ov, "oracles.harness", [",".join(props), seed, n_hist, length])
    standin = {"what": "random histories of public operations on the real code, oracles for %s after every step"
                       % ",".join(props),
               "bound": "%d histories x %d steps in each of 3 universes (wide: 2 IRs/3 modules/3 sections/3 intervals/5 blocks/"
                        "3 symbols/2 proxies; dense: 1 interval-heavy tree with 9 blocks; intervals: 1 section with 6 intervals), "
                        "in-place edits of flags and AuxData maps included, seed %d" % (n_hist, length, seed),
               "evaluations": res.get("evaluations", 0), "distinct": res.get("distinct", 0),
               "failures": 0 if res.get("ok") else 1, "sample": res.get("sample")}
    viol = []
    if res.get("ok") is False:
        os.makedirs(os.path.join(ROOT, "replays", pid), exist_ok=True)
        path = os.path.join(ROOT, "replays", pid, "history-%d.json" % seed)
        with open(path, "w") as f:
            json.dump({"property": pid, "kind": "bounded-history", "obligation": None,
                       "failing_input": {"steps": res["steps"], "props": res.get("props", props),
                                         "profile": res.get("profile", "wide")},
                       "errors": res.get("errors")}, f, indent=1)
        viol.append((path, "; ".join(res.get("errors", [])[:2])))
    elif res.get("ok") is None:
        raise RuntimeError("harness crashed: %s\n%s" % (res.get("crash"), res.get("trace", res.get("stderr", ""))))
    return standin, viol


_WITNESS_CACHE = {}


def find_history_witness(props, seed, budget=(60, 40), workers=8):
    """Look for a concrete failing history on the real code (used when a proof obligation fails): several
    seeds in parallel; memoised per check run."""
    key = (tuple(props), seed)
    if key in _WITNESS_CACHE:
        return _WITNESS_CACHE[key]
    from concurrent.futures import ThreadPoolExecutor
    found = None
    with Overlay() as ov:
        def one(s):
            return run_module(ov, "oracles.harness", [",".join(props), s, budget[0], budget[1]], timeout=900)
        with ThreadPoolExecutor(max_workers=workers) as ex:
            for res in ex.map(one, range(seed + 100, seed + 100 + workers)):
                if res.get("ok") is False and found is None:
                    found = {"steps": res["steps"], "props": res.get("props", props), "errors": res.get("errors"),
                             "profile": res.get("profile", "wide")}
    _WITNESS_CACHE[key] = found
    return found


def replay_file(path):
    rep = json.load(open(path))
    fi = rep.get("failing_input")
    print("replay of %s (%s)" % (rep.get("obligation") or rep.get("kind"), rep.get("property")))
    if not fi:
        print("no concrete failing input was found for this violation; failed obligation: %s" % rep.get("obligation"))
        print("solver output: %s" % rep.get("solver_output"))
        return 1
    with Overlay() as ov:
        mod = fi.get("module", "oracles.harness")
        env = dict(os.environ)
        env["PYTHONPATH"] = ov + os.pathsep + ROOT
        env.update(fi.get("env") or {})
        p = subprocess.run([PY, "-m", mod, "--replay", path], capture_output=True, text=True, env=env, cwd=ROOT)
        print(p.stdout.strip()[-2000:])
        if p.returncode not in (0, 1):
            print(p.stderr[-2000:])
        return p.returncode


def module_standin(pid, module, args, what, bound, env_extra=None):
    """Run `python -m <module> <args>` in the overlay; RESULT json with ok/evaluations/distinct/sample[/case/errors]."""
    with Overlay() as ov:
        res = run_module(ov, module, args, env_extra=env_extra)
    standin = {"what": what, "bound": bound, "evaluations": res.get("evaluations", 0), "distinct": res.get("distinct", 0),
               "failures": 0 if res.get("ok") else 1, "sample": res.get("sample")}
    viol = []
    if res.get("ok") is False:
        os.makedirs(os.path.join(ROOT, "replays", pid), exist_ok=True)
        import hashlib
        h = hashlib.sha256(json.dumps(res.get("case"), sort_keys=True, default=str).encode()).hexdigest()[:10]
        path = os.path.join(ROOT, "replays", pid, "case-%s.json" % h)
        with open(path, "w") as f:
            json.dump({"property": pid, "kind": "bounded-case", "obligation": None,
                       "failing_input": {"module": module, "case": res.get("case"), "env": env_extra},
                       "errors": res.get("errors")},
                      f, indent=1, default=str)
        viol.append((path, "; ".join(map(str, (res.get("errors") or [])[:2]))))
    elif res.get("ok") is None:
        raise RuntimeError("%s crashed: %s\n%s" % (module, res.get("crash"), res.get("trace", res.get("stderr", ""))))
    return standin, viol


def module_witness(module, args):
    with Overlay() as ov:
        res = run_module(ov, module, args)
    if res.get("ok") is False:
        return {"module": module, "case": res.get("case"), "errors": res.get("errors")}
    return None
