from pyvc.standin import replay_file


def main(path):
    return replay_file(path)
