"""Core data types of the verifier: z3 sorts, symbolic values, symbolic state, obligations."""
import itertools
import z3

# --------------------------------------------------------------------------- sorts
Int = z3.IntSort()
Bool = z3.BoolSort()
Str = z3.StringSort()

_V = z3.Datatype("Val")
_V.declare("VNone")
_V.declare("VInt", ("ival", Int))
_V.declare("VBool", ("bval", Bool))
_V.declare("VRef", ("ref", Int))
_V.declare("VStr", ("sval", Str))
_V.declare("VUuid", ("uval", Int))
_V.declare("VIv", ("ivb", Int), ("ive", Int), ("ivd", Int))        # intervaltree.Interval(begin,end,data)
_V.declare("VPair", ("fst", _V), ("snd", _V))                        # tuples, right-nested, VNone-terminated
_V.declare("VEnum", ("ecls", Int), ("enum", Int))                    # enum member: class id, number
_V.declare("VOpaque", ("oid", Int))                                  # anything else (compared by identity)
Val = _V.create()

VNone = Val.VNone
VInt, VBool, VRef, VStr, VUuid, VIv, VPair, VEnum, VOpaque = (
    Val.VInt, Val.VBool, Val.VRef, Val.VStr, Val.VUuid, Val.VIv, Val.VPair, Val.VEnum, Val.VOpaque)
is_VNone, is_VInt, is_VBool, is_VRef, is_VStr, is_VUuid, is_VIv, is_VPair, is_VEnum = (
    Val.is_VNone, Val.is_VInt, Val.is_VBool, Val.is_VRef, Val.is_VStr, Val.is_VUuid, Val.is_VIv,
    Val.is_VPair, Val.is_VEnum)
ival, bval, ref, sval, uval, ivb, ive, ivd, fst, snd, ecls, enum_ = (
    Val.ival, Val.bval, Val.ref, Val.sval, Val.uval, Val.ivb, Val.ive, Val.ivd, Val.fst, Val.snd,
    Val.ecls, Val.enum)

SetSort = z3.ArraySort(Val, Bool)
EmptySet = z3.K(Val, z3.BoolVal(False))
MapSort = z3.ArraySort(Val, Val)
SeqItems = z3.ArraySort(Int, Val)

# cardinality of finite sets: uninterpreted, axioms instantiated where used (see card_* helpers)
Card = z3.Function("Card", SetSort, Int)

_counter = itertools.count()


def fresh(prefix, sort):
    return z3.Const("%s!%d" % (prefix, next(_counter)), sort)


def serial_mark():
    """Serial number the next fresh constant will get."""
    global _counter
    n = next(_counter)
    return n


def consts_since(exprs, mark):
    """Uninterpreted constants created by fresh() with serial >= mark occurring in exprs."""
    seen, out, ids = set(), [], set()
    stack = [e for e in exprs if e is not None]
    while stack:
        e = stack.pop()
        i = e.get_id()
        if i in seen:
            continue
        seen.add(i)
        if z3.is_quantifier(e):
            stack.append(e.body())
            continue
        if z3.is_app(e):
            if e.num_args() == 0 and e.decl().kind() == z3.Z3_OP_UNINTERPRETED:
                nm = e.decl().name()
                if "!" in nm:
                    try:
                        ser = int(nm.rsplit("!", 1)[1])
                    except ValueError:
                        ser = -1
                    if ser >= mark and i not in ids:
                        ids.add(i)
                        out.append(e)
            else:
                stack.extend(e.children())
    return out


def sv_terms(sv):
    """z3 terms inside an SV (for constant collection)."""
    if sv is None:
        return []
    if sv.k in ("nx_attr", "nx_adj", "nx_keydict", "nx_edgeview"):
        return list(sv.x)
    if sv.k in ("tuple",):
        return [t for i in sv.x for t in sv_terms(i)]
    if sv.k == "range":
        return [t for i in sv.x for t in sv_terms(i)]
    if sv.k in ("list", "bytes"):
        return [sv.t, sv.x]
    if sv.k == "dict":
        return [sv.t, sv.x[0]]
    if sv.k == "gen":
        return [t for b in sv.x for t in [b.cond] + sv_terms(b.elem)]
    return [sv.t] if sv.t is not None else []


def legal_pattern(t):
    """z3 triggers may not contain ite or boolean connectives"""
    bad = (z3.Z3_OP_ITE, z3.Z3_OP_AND, z3.Z3_OP_OR, z3.Z3_OP_NOT, z3.Z3_OP_IMPLIES, z3.Z3_OP_EQ, z3.Z3_OP_DISTINCT)
    seen = set()
    stack = [t]
    while stack:
        e = stack.pop()
        if e.get_id() in seen:
            continue
        seen.add(e.get_id())
        if z3.is_quantifier(e):
            return False
        if z3.is_app(e):
            if e.decl().kind() in bad:
                return False
            stack.extend(e.children())
    return True


def fresh_name(prefix):
    return "%s!%d" % (prefix, next(_counter))


class Unsupported(Exception):
    """Construct outside the verified subset: the function is UNDECIDED, never a violation."""


# --------------------------------------------------------------------------- symbolic values

class SV:
    """Symbolic value.  k (kind):
       'val'   t: Val term (dynamic)
       'int'   t: Int         'bool' t: Bool      'none'
       'ref'   t: Int (object id), cls: static class name or None
       'str'   t: String      'uuid' t: Int       'iv' t: Val (known VIv)
       'set'   t: SetSort     'list' (t: SeqItems, n: Int)    'dict' (dom:SetSort, t: Array(Val,<vsort>), vk)
       'tuple' items: [SV]    'range' (start, stop, step SVs)
       'gen'   bags: [Bag]    'func'  (FuncInfo/Lambda, closure)   'py' python constant   'cls' ClassInfo
       'bytes' (t: SeqItems of VInt, n: Int)
    wb: optional write-back closure (state, new SV) for in-place mutation of containers."""
    __slots__ = ("k", "t", "cls", "x", "wb", "orig")

    def __init__(self, k, t=None, cls=None, x=None, wb=None, orig=None):
        self.k = k
        self.t = t
        self.cls = cls
        self.x = x
        self.wb = wb
        self.orig = orig      # orig(state) -> current value of the container this value was read from

    def __repr__(self):
        return "SV(%s,%s%s)" % (self.k, self.t, "," + str(self.cls) if self.cls else "")


def sv_int(t):
    if isinstance(t, int):
        t = z3.IntVal(t)
    return SV("int", t)


def sv_bool(t):
    if isinstance(t, bool):
        t = z3.BoolVal(t)
    return SV("bool", t)


def sv_none():
    return SV("none")


def sv_ref(t, cls=None):
    return SV("ref", t, cls=cls)


def sv_val(t, cls=None):
    return SV("val", t, cls=cls)


def sv_str(t):
    if isinstance(t, str):
        t = z3.StringVal(t)
    return SV("str", t)


def sv_tuple(items, cls=None):
    return SV("tuple", x=list(items), cls=cls)


def sv_set(t, wb=None):
    return SV("set", t, wb=wb)


def to_val(sv):
    """Wrap any scalar SV into a Val term."""
    k = sv.k
    if k == "val" or k == "iv":
        return sv.t
    if k == "int":
        return VInt(sv.t)
    if k == "bool":
        return VBool(sv.t)
    if k == "none":
        return VNone
    if k == "ref":
        return VRef(sv.t)
    if k == "str":
        return VStr(sv.t)
    if k == "uuid":
        return VUuid(sv.t)
    if k == "blob":
        from .iomodel import blob_val
        return blob_val(sv.t)
    if k == "tuple":
        v = VNone
        for it in reversed(sv.x):
            v = VPair(to_val(it), v)
        return v
    if k == "py":
        c = sv.x
        if c is None:
            return VNone
        if isinstance(c, bool):
            return VBool(z3.BoolVal(c))
        if isinstance(c, int):
            return VInt(z3.IntVal(c))
        if isinstance(c, str):
            return VStr(z3.StringVal(c))
        if isinstance(c, tuple):
            return to_val(sv_tuple([SV("py", x=i) for i in c]))
    raise Unsupported("cannot convert %r to Val" % (sv,))


def from_py(c):
    if c is None:
        return sv_none()
    if isinstance(c, bool):
        return sv_bool(c)
    if isinstance(c, int):
        return sv_int(c)
    if isinstance(c, str):
        return sv_str(c)
    if isinstance(c, tuple):
        return sv_tuple([from_py(i) for i in c])
    return SV("py", x=c)


class Bag:
    """A symbolic finite multiset of values: one element ``elem`` for every assignment of ``binders``
    satisfying ``cond`` (the branch decisions).  ``aux`` are auxiliary constants (results of callee
    contracts, fresh sets) that are *determined or constrained* by ``defs`` (callee postconditions and
    definitional facts): they are not part of the identity of an occurrence, and they are universally
    quantified (a callee's nondeterminism is demonic) wherever the bag is reasoned about."""
    __slots__ = ("binders", "cond", "elem", "tag", "defs", "aux", "order", "last_order")

    def __init__(self, binders, cond, elem, tag="", defs=None, aux=None, order=None):
        self.order = order      # Int term over the binders: occurrences come in increasing order of it (or None)
        self.binders = list(binders)
        self.cond = cond
        self.elem = elem
        self.tag = tag
        self.defs = defs if defs is not None else z3.BoolVal(True)
        self.aux = list(aux or [])

    def instantiate(self, prefix="b"):
        """Return (fresh binder consts, cond', elem', defs') with binders and aux renamed apart."""
        news = [fresh(prefix, b.sort()) for b in self.binders]
        newaux = [fresh(prefix + "x", b.sort()) for b in self.aux]
        sub = list(zip(self.binders, news)) + list(zip(self.aux, newaux))
        self.last_order = z3.substitute(self.order, *sub) if (self.order is not None and sub) else self.order
        if not sub:
            return news, self.cond, self.elem, self.defs
        return news, z3.substitute(self.cond, *sub), subst_sv(self.elem, sub), z3.substitute(self.defs, *sub)

    def with_cond(self, extra_cond=None, extra_defs=None, binders_prefix=()):
        return Bag(list(binders_prefix) + self.binders,
                   z3.And(extra_cond, self.cond) if extra_cond is not None else self.cond, self.elem, self.tag,
                   z3.And(extra_defs, self.defs) if extra_defs is not None else self.defs, self.aux)


def subst_sv(sv, sub):
    if not sub:
        return sv
    if sv.k in ("none", "py", "cls", "func"):
        return sv
    if sv.k == "tuple":
        return SV("tuple", x=[subst_sv(i, sub) for i in sv.x], cls=sv.cls)
    if sv.k in ("nx_attr", "nx_adj", "nx_keydict", "nx_edgeview"):
        return SV(sv.k, x=tuple(z3.substitute(t, *sub) for t in sv.x), cls=sv.cls)
    if sv.k == "range":
        return SV("range", x=tuple(subst_sv(i, sub) for i in sv.x))
    if sv.k == "gen":
        return SV("gen", x=[Bag(b.binders, z3.substitute(b.cond, *sub), subst_sv(b.elem, sub), b.tag,
                                z3.substitute(b.defs, *sub), b.aux)
                            for b in sv.x])
    if sv.k in ("list", "bytes"):
        return SV(sv.k, z3.substitute(sv.t, *sub), x=z3.substitute(sv.x, *sub), cls=sv.cls)
    if sv.k == "dict":
        return SV("dict", z3.substitute(sv.t, *sub), x=(z3.substitute(sv.x[0], *sub), sv.x[1]), cls=sv.cls)
    return SV(sv.k, z3.substitute(sv.t, *sub), cls=sv.cls, x=sv.x)


# --------------------------------------------------------------------------- obligations

class Obligation:
    __slots__ = ("name", "assumptions", "goal", "kind", "info")

    def __init__(self, name, assumptions, goal, kind="assert", info=None):
        self.name = name
        self.assumptions = list(assumptions)
        self.goal = goal
        self.kind = kind      # assert | cover
        self.info = info or {}


# --------------------------------------------------------------------------- state

class State:
    """One symbolic path: locals, heap (field name -> z3 array), path condition, yields."""

    def __init__(self):
        self.env = {}
        self.heap = {}
        self.pc = []
        self.bags = []            # yields so far on this path (list of Bag)
        self.binders = []         # enclosing comprehension-loop binders [(const)]
        self.binder_conds = []
        self.obls = None          # shared list of Obligation
        self.facts = []           # extra axioms (instantiated lemmas) - part of assumptions
        self.trace = []           # human-readable path description
        self.alloc = None         # z3 Int: allocation frontier (refs >= alloc are fresh)
        self.entry_mark = 0       # index into pc where the current function body starts
        self.entry_serial = 0     # fresh-constant serial at entry of the current function body
        self.nondec = set()       # indices into pc of assumptions that are not branch decisions
        self.tags = {}            # pc index -> tag ("pre.<clause>", "call:<callee>.post.<clause>") for slicing

    def fork(self):
        s = State.__new__(State)
        s.env = dict(self.env)
        s.heap = dict(self.heap)
        s.pc = list(self.pc)
        s.bags = list(self.bags)
        s.binders = list(self.binders)
        s.binder_conds = list(self.binder_conds)
        s.obls = self.obls
        s.facts = self.facts          # shared: facts are valid formulas
        s.trace = list(self.trace)
        s.alloc = self.alloc
        s.entry_mark = self.entry_mark
        s.entry_serial = self.entry_serial
        s.nondec = set(self.nondec)
        s.tags = dict(self.tags)
        return s

    def assume(self, c, why=None, decision=True, tag=None):
        """decision=False marks consequences/definitions (callee postconditions, definitional facts,
        invariants) as opposed to branch decisions; only decisions (plus the definitions of the auxiliary
        constants they mention) make up the condition under which a value is yielded."""
        if not decision:
            self.nondec.add(len(self.pc))
        if tag:
            self.tags[len(self.pc)] = tag
        self.pc.append(c)
        if why:
            self.trace.append(why)

    def define(self, c, tag=None):
        self.assume(c, decision=False, tag=tag)

    def sliced_assumptions(self, keep):
        """assumptions with tagged entries filtered by keep(tag) (untagged entries are always kept)"""
        out = list(self.facts)
        for i, f in enumerate(self.pc):
            t = self.tags.get(i)
            if t is None or keep(t):
                out.append(f)
        return out

    def assumptions(self):
        return list(self.facts) + list(self.pc)

    def oblige(self, name, goal, info=None):
        self.obls.append(Obligation(name, self.assumptions(), goal, "assert", info))
