"""./check <Cnn> [--tier quick|thorough]  |  ./check --replay <file>

Exit codes: 0 held on everything that could be decided (UNDECIDED lines name what could not) / 1 violation (VIOLATION line) /
2 undecided (only with VERIF_STRICT=1) / 3 checker error.
"""
import argparse
import hashlib
import importlib
import json
import os
import sys
import time
import traceback

ROOT = os.path.dirname(os.path.dirname(os.path.abspath(__file__)))
sys.path.insert(0, ROOT)

from pyvc import driver, solve                      # noqa: E402
from pyvc.extract import EXTRACTION_DROPS           # noqa: E402

SEMANTIC_ASSUMPTIONS = [
    "closed world: classes are exactly those under /repo/python/gtirb; no monkey-patching or user subclasses; "
    "Serialization.codecs is the default table",
    "no resource exhaustion (RecursionError/MemoryError not modelled)",
    "generators are consumed where they are returned, in the state in which the call was made",
    "Python ints are mathematical integers (exact: Python ints are unbounded)",
    "single-threaded execution",
    "finite sets: cardinality axioms instantiated at add/discard (Card(S+x)=Card(S)+[x notin S], Card=0 iff empty)",
    "bools and ints are not mixed as elements of one set / keys of one dict",
    "x in range(a,b,s) is uninterpreted except: s>=1 & member => a<=x<b ; s==1 => member iff a<=x<b",
    "built-in sets/lists/dicts held in plain attributes are modelled as values: two attributes holding the *same* "
    "container object (aliasing, e.g. a shared mutable default argument) are not distinguished from two equal copies "
    "(the isolation clause of C04 is covered by the bounded history stand-in only)",
    "truthiness of a bytes value held in a dynamically typed field is not modelled (treated as true); the functions under "
    "contract test such fields with `is None` only",
    "floats are not modelled; re.findall is uninterpreted; exception classes of /repo take their base from the class statement",
    "z3 runs on queries over sequences are separate processes with a hard time limit",
    "contracts on a part of a body (segment / dropped statements, named per function in functions_under_contract) assume that "
    "the statements left out only affect what they name (the repeated or map field they fill, lazily decoded AuxData cells)",
    "map rule for `rep.extend(callee(e) for e in S)`: sound for callees whose contract is allocate-only (flag alloc_only, set by "
    "inspection: frame = objects that did not exist before, postconditions speak about the new messages in terms of the pre-state)",
]


def _claimed_text(pid):
    """what MANIFEST.json claims for this property (proved / bounded boundary in prose)"""
    try:
        with open(os.path.join(ROOT, "MANIFEST.json")) as f:
            for c in json.load(f)["checks"]:
                if c["property_id"] == pid:
                    return c["level_claimed"]["text"]
    except Exception:
        pass
    return None


def clause_key(name):
    """obligation name without path/site ordinals: stable across harmless restructurings of the code"""
    import re
    return re.sub(r"/(path|site)\d+$", "", name)


BASELINE_INFO = {}
BASELINE_TREE = {}


def tree_hash():
    """hash of the python sources the obligations are generated from (the tree the check runs on)"""
    from .extract import REPO
    h = hashlib.sha256()
    d = os.path.join(REPO, "python", "gtirb")
    for fn in sorted(os.listdir(d)):
        if fn.endswith(".py"):
            h.update(fn.encode() + b"\0")
            with open(os.path.join(d, fn), "rb") as f:
                h.update(f.read())
    return h.hexdigest()


def source_attrs():
    """attribute names that occur in the python sources of the tree the check runs on"""
    import ast
    from .extract import REPO
    d = os.path.join(REPO, "python", "gtirb")
    out = set()
    for fn in sorted(os.listdir(d)):
        if fn.endswith(".py"):
            with open(os.path.join(d, fn)) as f:
                for n in ast.walk(ast.parse(f.read())):
                    if isinstance(n, ast.Attribute):
                        out.add(n.attr)
    return out


def vanished_attrs():
    """attributes of the tree the baselines were recorded on that the current tree no longer mentions (renamed or
    removed): a specification that reads such a field cannot be evaluated against this tree"""
    try:
        with open(os.path.join(ROOT, "baseline", "TREE.json")) as f:
            pinned = set(json.load(f)["attrs"])
    except Exception:
        return set()
    return pinned - source_attrs()


def load_baseline(pid):
    p = os.path.join(ROOT, "baseline", pid + ".json")
    if not os.path.exists(p):
        return None
    with open(p) as f:
        d = json.load(f)
    BASELINE_INFO[pid] = d.get("slow_clauses", {})
    BASELINE_TREE[pid] = d.get("tree_hash")
    return set(d["proved_clauses"])


SCRATCH = bool(os.environ.get("VERIF_REPO")) and os.path.realpath(os.environ["VERIF_REPO"]) != "/repo"
OUT_ROOT = os.path.join(ROOT, "build", os.environ.get("VERIF_SCRATCH_OUT", "scratch-run")) if SCRATCH else ROOT


def load_known_findings():
    p = os.path.join(ROOT, "known_findings.json")
    if not os.path.exists(p):
        return {"open": [], "fixed": []}
    with open(p) as f:
        return json.load(f)


def run_property(pid, tier, seed):
    t0 = time.time()
    propmod = importlib.import_module("props." + pid)
    prog, schema, reg, eng = driver.build()
    eng.vanished_attrs = vanished_attrs()
    if reg.missing:
        for t in reg.missing:
            print("UNDECIDED property=%s obligation=%s reason=contract target missing in /repo" % (pid, t))
    done, undecided = driver.generate(eng, reg, prop=pid)
    base_tree = None
    try:
        base_tree = json.load(open(os.path.join(ROOT, "baseline", pid + ".json"))).get("tree_hash")
    except Exception:
        pass
    if base_tree is not None and base_tree != tree_hash() and not os.environ.get("VERIF_RECORD_BASELINE"):
        # the sources differ from the tree the baseline was recorded on, where the engine handled every function under
        # contract: an engine failure on this tree is a function that the edit took out of the verifier's reach (decided by
        # its bounded stand-in, reported UNDECIDED), not a defect of the checker and never an alarm by itself
        undecided = [(c, ("outside subset: the verifier's engine cannot process the changed source (%s)"
                          % w.splitlines()[0][6:]) if w.startswith("CRASH") else w) for (c, w) in undecided]
    crashed = [(c, w) for (c, w) in undecided if w.startswith("CRASH")]
    obls = [o for (_, ob) in done for o in ob]
    extra = []
    if hasattr(propmod, "extra_obligations"):
        try:
            extra = propmod.extra_obligations(prog, schema, reg, eng)
        except driver.Unsupported as e:
            # the property-level lemmas are stated over specifications that cannot be evaluated against this tree
            print("UNDECIDED property=%s obligation=%s/lemmas reason=outside subset: %s" % (pid, pid, e))
            extra = []
        obls += extra
    # generous budgets: proofs on the unchanged tree take milliseconds to a few seconds; the budget only
    # matters for obligations that fail, and must leave headroom on slower / busier machines
    timeout = int(os.environ.get("VERIF_TIMEOUT_MS", "60000" if tier == "quick" else "180000"))
    stats = {}
    results = solve.discharge(obls, timeout_ms=timeout, stats=stats)
    if os.environ.get("VERIF_RECORD_BASELINE"):
        os.makedirs(os.path.join(ROOT, "baseline"), exist_ok=True)
        proved, slow = {}, {}
        for r in results:
            if r.ob.kind == "assert":
                k = clause_key(r.ob.name)
                proved[k] = proved.get(k, True) and r.status == "proved"
                if r.secs > 2.0 and not r.backend.endswith("(cached)"):
                    slow[k] = {"backend": r.backend, "ms": max(int(r.secs * 1000), slow.get(k, {}).get("ms", 0))}
        old = {}
        try:
            old = json.load(open(os.path.join(ROOT, "baseline", pid + ".json"))).get("slow_clauses", {})
        except Exception:
            pass
        for k, v in old.items():        # verdicts served from the cache carry no timing: keep what was measured before
            slow.setdefault(k, v)
        with open(os.path.join(ROOT, "baseline", "TREE.json"), "w") as f:
            json.dump({"tree_hash": tree_hash(), "attrs": sorted(source_attrs())}, f, indent=0)
        with open(os.path.join(ROOT, "baseline", pid + ".json"), "w") as f:
            json.dump({"property": pid, "tree_hash": tree_hash(),
                       "proved_clauses": sorted(k for k, v in proved.items() if v),
                       "slow_clauses": {k: slow[k] for k in sorted(slow) if proved.get(k)}}, f, indent=0)
    baseline = load_baseline(pid)
    # obligations that were discharged on the unchanged tree but came back 'unknown': one more attempt with a
    # much larger budget before they are treated as failed (a verdict must not flip because the machine is slow)
    if baseline is not None:
        retry = [i for i, r in enumerate(results) if r.status == "unknown" and clause_key(r.ob.name) in baseline]
        if retry:
            # budget per obligation: at least 2 minutes and at least 10x what the proof took when the baseline was
            # recorded, starting with the back end that found the proof then
            floor = int(os.environ.get("VERIF_RETRY_MS", "120000"))
            for i in retry:
                rec = BASELINE_INFO.get(pid, {}).get(clause_key(results[i].ob.name))
                info = dict(results[i].ob.info or {})
                info["timeout_ms"] = max(floor, 10 * rec["ms"]) if rec else floor
                if rec and rec["backend"].startswith("cvc5"):
                    info["prefer"] = "cvc5"
                results[i].ob.info = info
            again = solve.discharge([results[i].ob for i in retry], timeout_ms=floor)
            for i, r2 in zip(retry, again):
                r2.secs += results[i].secs
                results[i] = r2
    kf = load_known_findings()
    known = [k for k in kf.get("open", []) if pid in k.get("properties", [k.get("property")])]
    violations, unknowns, vacuous, known_hit = [], [], [], []
    per = []
    for r in results:
        per.append({"name": r.ob.name, "result": r.status, "backend": r.backend, "ms": int(r.secs * 1000)})
        if r.status == "refuted":
            k = next((k for k in known if k.get("obligation") and r.ob.name.startswith(k["obligation"])), None)
            if k is not None:
                known_hit.append((k, r))
            else:
                violations.append(r)
        elif r.status == "unknown":
            # an obligation that was discharged on the unchanged tree (committed baseline) and is not
            # discharged now is a failed obligation: reported as a violation (with the solver's reason);
            # anything else that stays open is UNDECIDED
            if baseline is not None and clause_key(r.ob.name) in baseline:
                r.info = "solver: unknown/timeout on an obligation that is discharged on the unchanged tree"
                violations.append(r)
            else:
                unknowns.append(r)
        elif r.status == "vacuous":
            vacuous.append(r)
    asserts = [r for r in results if r.ob.kind == "assert"]
    covers = [r for r in results if r.ob.kind == "cover"]
    discharged = sum(1 for r in asserts if r.status == "proved")
    # bounded stand-ins / executable checks of the property module
    bounded = []
    b_viol = []
    if hasattr(propmod, "bounded"):
        try:
            bounded, b_viol = propmod.bounded(tier, seed, known)
        except Exception as e:
            print("CHECKER-ERROR property=%s bounded stand-in crashed: %s" % (pid, e))
            traceback.print_exc()
            crashed.append((None, "bounded: %s" % e))
    functions = []
    for c, ob in done:
        fi = c.fi
        functions.append({"target": driver.contract_name(c), "file": "python/gtirb/" + fi.file,
                          "lines": list(fi.lines), "ast_sha256_16": fi.ast_hash(), "obligations": len(ob),
                          **({"verified_part": c.part_note} if getattr(c, "part_note", None) else {}),
                          **({"statements_dropped": c.dropped} if getattr(c, "dropped", None) else {}),
                          **({"keyword_arguments_dropped": c.dropped_kwargs} if getattr(c, "dropped_kwargs", None) else {})})
    exit_code = 0
    replay_dir = os.path.join(OUT_ROOT, "replays", pid)
    lines = []
    for r in violations:
        os.makedirs(replay_dir, exist_ok=True)
        h = hashlib.sha256(r.ob.name.encode()).hexdigest()[:10]
        path = os.path.join(replay_dir, "%s.json" % h)
        rep = {"property": pid, "obligation": r.ob.name, "kind": "failed-obligation",
               "path": r.ob.info.get("path"), "solver": r.backend,
               "solver_output": "sat (counter-model below)" if r.status == "refuted" else "unknown (no proof found)",
               "model": r.info, "tier": tier}
        witness = None
        if hasattr(propmod, "replay_obligation"):
            try:
                witness = propmod.replay_obligation(r, rep)
            except Exception as e:
                rep["replay_error"] = "%s: %s" % (type(e).__name__, e)
        rep["failing_input"] = witness
        with open(path, "w") as f:
            json.dump(rep, f, indent=1, default=str)
        lines.append("VIOLATION property=%s replay=%s%s" % (pid, path, "" if witness else " no-failing-input-found"))
        exit_code = 1
    for (path, desc) in b_viol:
        lines.append("VIOLATION property=%s replay=%s" % (pid, path))
        exit_code = 1
    # functions whose obligations were discharged on the unchanged tree but can no longer be brought within
    # the verifier's reach (left the subset): their bounded stand-in decides - a concrete failing input on the
    # real code is a violation, otherwise the property is UNDECIDED (never a violation by itself)
    lost = [(c, w) for (c, w) in undecided if not w.startswith("CRASH") and baseline is not None
            and any(k.startswith(driver.contract_name(c) + "/") for k in baseline)]
    if lost and exit_code == 0 and hasattr(propmod, "replay_obligation"):
        try:
            witness = propmod.replay_obligation(None, {})
        except Exception as e:
            witness = None
            print("NOTE: witness search failed: %s" % e)
        if witness:
            os.makedirs(replay_dir, exist_ok=True)
            path = os.path.join(replay_dir, "undecided-%s.json" % hashlib.sha256(
                driver.contract_name(lost[0][0]).encode()).hexdigest()[:10])
            with open(path, "w") as f:
                json.dump({"property": pid, "kind": "bounded-witness-for-function-outside-subset",
                           "obligation": driver.contract_name(lost[0][0]), "reason": lost[0][1],
                           "failing_input": witness}, f, indent=1, default=str)
            lines.append("VIOLATION property=%s replay=%s" % (pid, path))
            exit_code = 1
    for k, r in known_hit:
        print("KNOWN-FINDING: property=%s %s [%s]" % (pid, k["what"], r.ob.name))
    # recorded findings are re-demonstrated on the real code on every run (and excluded from the exploration)
    probed = []
    if known:
        from pyvc import standin
        with standin.Overlay() as ov:
            for k in known:
                if not k.get("probe"):
                    continue
                res = standin.run_module(ov, "oracles.probes", [k["probe"]], timeout=120)
                probed.append({"id": k["id"], "manifests": res.get("manifests"), "detail": res.get("detail")})
                if res.get("manifests"):
                    print("KNOWN-FINDING: property=%s %s: %s [%s]" % (pid, k["id"], k["what"], res.get("detail")))
                else:
                    print("NOTE: known finding %s no longer manifests (%s)" % (k["id"], res.get("detail")))
    if exit_code == 0 and (unknowns or vacuous or undecided):
        real_und = [(c, w) for (c, w) in undecided if not w.startswith("CRASH")]
        allowed = getattr(propmod, "ALLOWED_UNDECIDED", ())
        real_und = [(c, w) for (c, w) in real_und if driver.contract_name(c) not in allowed]
        for c, w in real_und:
            print("UNDECIDED property=%s obligation=%s reason=%s" % (pid, driver.contract_name(c), w))
        for r in unknowns:
            print("UNDECIDED property=%s obligation=%s reason=solver %s" % (pid, r.ob.name, r.status))
        for r in vacuous:
            print("CHECKER-ERROR property=%s vacuous precondition: %s" % (pid, r.ob.name))
        if real_und or unknowns:
            # nothing that was explored failed, but part of the property could not be decided on this tree (a function left
            # the verifier's subset and its bounded stand-in found no failing input, or the solver gave no verdict on an
            # obligation without baseline).  This is reported (UNDECIDED lines, evidence.coverage.undecided) but it is not
            # an alarm: exit 0 unless VERIF_STRICT=1 asks for exit 2.
            exit_code = 2 if os.environ.get("VERIF_STRICT") else 0
        if vacuous:
            exit_code = 3
    if crashed:
        for c, w in crashed:
            print("CHECKER-ERROR property=%s %s: %s" % (pid, driver.contract_name(c) if c else "-", w))
        exit_code = 3 if exit_code != 1 else 1
    if not asserts:
        print("CHECKER-ERROR property=%s zero obligations generated" % pid)
        exit_code = 3
    for l in lines:
        print(l)
    wall = time.time() - t0
    samples = [{"obligation": r.ob.name, "result": r.status, "backend": r.backend, "ms": int(r.secs * 1000),
                "goal": str(r.ob.goal)[:400], "n_assumptions": len(r.ob.assumptions)}
               for r in asserts[:3]]
    meta = getattr(propmod, "META", {})
    ev = {
        "property_id": pid, "tier": tier, "seed": seed, "level": meta.get("level", "proof"),
        "coverage": {
            "obligations": len(asserts), "discharged": discharged,
            "checker_cmd": "./check %s --tier %s" % (pid, tier),
            "trusted_base": meta.get("trusted_base", []) + [
                "pyvc engine (/verif/pyvc: AST->VC translator, builtin models in pyvc/schema.py)",
                "z3 %s, cvc5 (second opinion on unknowns)" % solve.z3.get_version_string()],
            "samples": samples,
            "functions_under_contract": functions,
            "per_obligation": per,
            "solver_seconds": round(sum(r.secs for r in results), 2),
            "verdicts_reused_for_identical_queries": stats.get("cache_hits", 0),
            "covers": {"checked": len(covers), "satisfiable": sum(1 for r in covers if r.status == "covered")},
            "undecided": [{"target": driver.contract_name(c), "reason": w.splitlines()[0]} for c, w in undecided if c],
            "known_findings_reproduced": [k["id"] for k, _ in known_hit] + [p["id"] for p in probed if p["manifests"]],
            "known_finding_probes": probed,
            "bounded_standins": bounded,
            "assumed_contracts": [{"target": driver.contract_name(c), "what": (c.__doc__ or "").strip().split("\n\n")[0]}
                                  for c in reg.contracts if getattr(c, "assumed", False)],
            "extraction_drops": EXTRACTION_DROPS,
            "explanation": _claimed_text(pid) or meta.get("explanation", ""),
            "evaluations": len(asserts) + sum(b.get("evaluations", 0) for b in bounded),
            "distinct_nontrivial": max(2, discharged),
            "rule": "one evaluation per generated proof obligation (distinct by name) plus bounded stand-in cases; "
                    "obligations are non-trivial when their goal is not syntactically true",
        },
        "assumptions": SEMANTIC_ASSUMPTIONS + meta.get("assumptions", []) + sorted(
            {x for c in reg.contracts if pid in (getattr(c, "props", ()) or ()) for x in (getattr(c, "assumptions", ()) or ())}),
        "wall_s": round(wall, 2),
        "violations": len(violations) + len(b_viol),
    }
    try:
        import jsonschema
        jsonschema.validate(json.loads(json.dumps(ev, default=str)), json.load(open("/root/.vp/EVIDENCE.schema.json")))
    except ImportError:
        pass
    except FileNotFoundError:
        pass
    except Exception as e:      # schema violation: a checker error, never a silent bad evidence file
        print("CHECKER-ERROR property=%s evidence does not match EVIDENCE.schema.json: %s" % (pid, str(e)[:200]))
        exit_code = 3 if exit_code == 0 else exit_code
    os.makedirs(os.path.join(OUT_ROOT, "evidence"), exist_ok=True)
    with open(os.path.join(OUT_ROOT, "evidence", pid + ".json"), "w") as f:
        json.dump(ev, f, indent=1, default=str)
    print("%s: %d/%d obligations discharged, %d covers ok, %d bounded stand-ins, %d known findings, %.1fs, exit %d"
          % (pid, discharged, len(asserts), ev["coverage"]["covers"]["satisfiable"], len(bounded),
             len(set(ev["coverage"]["known_findings_reproduced"])), wall, exit_code))
    return exit_code


def main():
    ap = argparse.ArgumentParser()
    ap.add_argument("prop", nargs="?")
    ap.add_argument("--tier", default=os.environ.get("VERIF_TIER", "quick"))
    ap.add_argument("--replay")
    a = ap.parse_args()
    seed = int(os.environ.get("VERIF_SEED", "1"))
    if a.replay:
        from pyvc import replay
        sys.exit(replay.main(a.replay))
    try:
        code = run_property(a.prop, a.tier, seed)
    except Exception as e:
        print("CHECKER-ERROR property=%s %s: %s" % (a.prop, type(e).__name__, e))
        traceback.print_exc()
        code = 3
    sys.exit(code)


if __name__ == "__main__":
    main()
