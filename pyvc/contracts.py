"""Sidecar contracts: registry, contract application at call sites, verification of bodies.

A contract is an instance of Contract.  Spec clauses are Python callables that receive spec
contexts (Ctx: a view of the symbolic heap at a state) and the arguments as SVs, and return z3
formulas.  Names of clauses become obligation names:

    <prop>/<target>/post.<clause>/path<k>
    <prop>/<target>/call:<callee>.pre.<clause>/path<k>
    <prop>/<target>/safety.<what>/...
"""
import z3

from .core import (SV, Bag, State, Obligation, Unsupported, Val, VNone, VInt, VBool, VRef, VStr, VIv,
                   is_VNone, is_VInt, is_VBool, is_VRef, is_VIv, ival, bval, ref, SetSort, EmptySet,
                   fresh, sv_int, sv_bool, sv_none, sv_ref, sv_val, sv_str, sv_tuple, sv_set, to_val, Int, Bool)
from .extract import strip_docstring
from ast import unparse as ast_unparse
from .symex import Exc


class Ctx:
    """Spec view of a heap snapshot."""

    def __init__(self, eng, heap):
        self.eng = eng
        self.heap = heap          # dict key -> array (shared with the state at snapshot time: copy!)

    def arr(self, key):
        gone = getattr(self.eng, "vanished_attrs", None)
        if gone and key.split("#")[0].split(".")[-1] in gone:
            raise Unsupported("the specification reads the attribute %r, which the current source no longer has" % key)
        if key not in self.heap:
            self.heap[key] = z3.Const("H0_" + key.replace("#", "_"), self.eng.schema.field_sort(key))
        return self.heap[key]

    def get(self, key, r):
        return z3.Select(self.arr(key), r)

    def kind(self, r):
        return z3.Select(self.arr("$kind"), r)

    def fun(self, name, arg_sorts, ret_sort, body, deps=(), extra_patterns=None):
        """A spec function of this state, introduced as an *opaque* symbol with its definition as a
        quantified fact triggered on the symbol itself: gives the solver clean triggers instead of large
        if-then-else terms.  body(*args) -> term.  Memoised per context."""
        # two contexts over the same heap arrays (for the fields in deps) share the symbol
        key = (name,) + tuple(self.arr(k).get_id() for k in deps)
        memo = self.eng.fun_memo
        if key in memo:
            return memo[key]
        from .core import fresh_name
        f = z3.Function(fresh_name("F_" + name), *(list(arg_sorts) + [ret_sort]))
        xs = [z3.Const("x%d_%s" % (i, name), srt) for i, srt in enumerate(arg_sorts)]
        from .core import legal_pattern
        pats = [f(*xs)] + [p_ for p_ in (extra_patterns(*xs) if extra_patterns else []) if legal_pattern(p_)]
        ax = z3.ForAll(xs, f(*xs) == body(*xs), patterns=pats)
        self.eng.cur_facts.append(ax)
        memo[key] = f
        return f

    def isinst(self, r, clsname):
        ci = self.eng.prog.find_class(clsname)
        if ci is None:
            raise Unsupported("class %s referred to by a specification is not defined in /repo" % clsname)
        ids = self.eng.schema.subclass_ids(self.eng.prog, ci)
        k = self.kind(r)
        return z3.Or([k == i for i in ids])


class Args(dict):
    def __getattr__(self, n):
        try:
            return self[n]
        except KeyError:
            if n.startswith("__"):
                raise AttributeError(n)
            raise Unsupported("the contract refers to the parameter %r, which the function does not have in the current source" % n)


class Contract:
    target = None           # "file.py::Qual.name"
    props = ()              # property ids served
    params = None           # {name: kind-spec} for symbolic inputs when verifying the body
    result = "none"         # kind-spec of the result for call sites
    self_cls = None         # static class of self for resolution (default: owning class)
    modifies = ()           # heap keys that may change; or dict key -> lambda(c0, a, r) "object r may change"
    inline_ok = False
    pure = False
    inout = ()              # names of container parameters the function mutates in place (a.<name>__out in post)

    def __init__(self, **kw):
        for k, v in kw.items():
            setattr(self, k, v)
        self.fi = None

    # ---- clauses (override) -------------------------------------------------
    def pre(self, c, a):
        return {}

    def post(self, c0, c1, a, res):
        return {}

    def raises(self, c0, a):
        """{ExcName: condition} : the call raises ExcName exactly when condition holds (checked both ways)."""
        return {}

    def may_raise(self, c0, a):
        """{ExcName: condition}: ExcName may be raised only when condition holds (one direction)."""
        return {}

    def post_ghost(self, c0, a):
        """Ghost variables in force in the post-state (e.g. a module pending insertion); default: as on entry."""
        return {}

    def _in_post_ghost(self, eng, c0, a, fn):
        g = self.post_ghost(c0, a)
        if not g:
            return fn()
        saved = getattr(eng, "ghost", {})
        eng.ghost = dict(saved, **g)
        try:
            return fn()
        finally:
            eng.ghost = saved

    def ghost_witness(self, c0, c1, a, res):
        """New values of ghost heap fields (e.g. $modpos) in the post-state: {key: array term}.  The ghost
        key must be listed in modifies."""
        return {}

    def before_call(self, callee, c, callee_args):
        """Ghost assertions (lemma hints) to prove and then assume right before a call to `callee`
        (short contract name) in this function's body; c: state at the call."""
        return {}

    def ghost_symbolic(self, eng, st):
        """Ghost (logical) variables this contract is verified for, for *arbitrary* values (callers fix them,
        e.g. a loop invariant's pending set).  Default: none."""
        return {}

    def focus(self, clause):
        """Optional assumption slicing ('keep each query small'): the set of clause names (of this contract's
        preconditions, of callee postconditions and of lemmas) that the proof of `clause` may use; None = all.
        Untagged assumptions (branch decisions, definitions, frames) are always available."""
        return None

    def _sliced(self, s, clause, lemmas):
        names = self.focus(clause)
        if names is None:
            return s.assumptions() + [f for (_, f) in lemmas]
        names = set(names)
        keep = lambda tag: tag.rsplit(".", 1)[-1] in names
        return s.sliced_assumptions(keep) + [f for (n, f) in lemmas if n in names]

    def lemmas(self, c0, c1, a, res):
        """Hint lemmas about the pre/post state: each is proved (in order, earlier ones available) and then
        assumed when the postconditions are proved.  Never assumed without proof."""
        return {}

    def result_term(self, c0, a):
        """Optional: the result as an explicit term of the pre-state (functional contracts)."""
        return None

    def axioms(self, eng):
        """Definitions of spec functions this contract uses (added as facts)."""
        return []

    def yields(self, c0, a, v):
        """For generators: membership predicate of value v (Val term) in the result; None if not a generator."""
        return None

    yields_nodup = True

    def yield_order(self, c0, a, v):
        """Optional: Int key of value v; the generator must yield in increasing key order (single yield site)."""
        return None

    def yields_must(self, c0, a, v):
        """Optional lower bound when the result is only specified as a sandwich MUST <= result <= MAY
        (yields() is then the upper bound MAY).  None: the result is exactly yields()."""
        return None

    def witness(self, c0, a, v):
        """Completeness hints: {bag tag: [binder values]} (terms) for value v."""
        return {}

    # ---- symbolic inputs ------------------------------------------------------
    def make_value(self, eng, st, name, spec):
        return make_symbolic(eng, st, name, spec)

    # ---- application at a call site -----------------------------------------
    def bind(self, eng, args, kwargs, st):
        fi = self.fi
        names, vararg, kwonly = fi.params()
        env = Args()
        args = list(args)
        kwargs = dict(kwargs)
        defaults = fi.defaults()
        for i, n in enumerate(names):
            if i < len(args):
                env[n] = args[i]
            elif n in kwargs:
                env[n] = kwargs.pop(n)
            elif n in defaults:
                env[n] = eng.eval_default(defaults[n], fi, st)
            else:
                raise Unsupported("contract call: missing arg %s of %s" % (n, self.target))
        if vararg:
            env[vararg] = sv_tuple(args[len(names):])
        for n in kwonly:
            if n in kwargs:
                env[n] = kwargs.pop(n)
            elif n in defaults:
                env[n] = eng.eval_default(defaults[n], fi, st)
        # give static classes from param specs
        for n, spec in (self.params or {}).items():
            if n not in env or not isinstance(spec, str):
                continue
            if spec.startswith("ref:") and env[n].k in ("ref", "val"):
                cls = env[n].cls or spec.split(":", 1)[1]
                env[n] = SV("ref", eng.as_ref(env[n], st, "argument %s of %s" % (n, self.short())), cls=cls, x=env[n].x)
            elif spec.startswith("optref:") and env[n].k in ("ref", "val") and env[n].cls is None:
                env[n] = SV(env[n].k, env[n].t, cls=spec.split(":", 1)[1])
            elif spec == "int" and env[n].k != "int":
                env[n] = sv_int(eng.as_int(env[n], st, "argument %s of %s" % (n, self.short())))
            elif spec.startswith("pb:") and env[n].k == "pbsub":
                st.oblige("safety.submessage_present(argument %s of %s)" % (n, self.short()), is_VRef(env[n].t))
                env[n] = SV("ref", ref(env[n].t), cls=spec)
            elif spec == "blob" and env[n].k != "blob":
                from .iomodel import as_blob
                env[n] = SV("blob", as_blob(eng, env[n], st, "argument %s of %s" % (n, self.short())))
            elif spec == "stream" and env[n].k == "val":
                env[n] = SV("ref", eng.as_ref(env[n], st, "argument %s of %s" % (n, self.short())), cls="$Stream")
        if "self" in env and env["self"].k == "val":
            env["self"] = SV("ref", eng.as_ref(env["self"], st, "receiver of %s" % self.short()), cls=env["self"].cls,
                             x=env["self"].x)
        return env

    def apply(self, eng, args, kwargs, st):
        eng.last_applied = self
        a = self.bind(eng, args, kwargs, st)
        c0 = Ctx(eng, dict(st.heap))
        caller = eng.cur_contract
        if caller is not None and caller is not self:
            # ghost assertions of the caller placed right before this call: proved, then available
            for name, f in caller.before_call(self.short(), c0, a).items():
                if caller.focus(name) is not None:
                    st.obls.append(Obligation("hint:%s.before(%s)" % (name, self.short()), caller._sliced(st, name, []), f))
                else:
                    st.oblige("hint:%s.before(%s)" % (name, self.short()), f)
                st.define(f, tag="hint." + name)
        for name, f in self.pre(c0, a).items():
            if caller is not None and caller.focus("callpre." + name) is not None:
                st.obls.append(Obligation("call:%s.pre.%s" % (self.short(), name),
                                          caller._sliced(st, "callpre." + name, []), f))
            else:
                st.oblige("call:%s.pre.%s" % (self.short(), name), f)
        exc = self.raises(c0, a)
        for ename, cond in exc.items():
            s2 = st.fork()
            s2.assume(cond, "call %s raises %s" % (self.short(), ename))
            eng.exc_paths.append((s2, Exc(ename)))
            st.assume(z3.Not(cond))
        for ename, cond in self.may_raise(c0, a).items():
            s2 = st.fork()
            s2.assume(cond, "call %s may raise %s" % (self.short(), ename))
            eng.exc_paths.append((s2, Exc(ename)))
        # havoc
        self.havoc(eng, st, c0, a)
        c1 = Ctx(eng, dict(st.heap))
        for pname in self.inout:
            a[pname + "__out"] = make_symbolic(eng, st, pname + "_out", (self.params or {}).get(pname, "dict:val"))
        # result
        y = None
        v = fresh("y", Val)
        m = self.yields(c0, a, v)
        if m is not None:
            must = self.yields_must(c0, a, v)
            if must is not None:
                # sandwich: some set Y with MUST <= Y <= MAY
                Y = fresh("Y", SetSort)
                st.define(z3.ForAll([v], z3.And(z3.Implies(must, z3.Select(Y, v)), z3.Implies(z3.Select(Y, v), m))))
                m = z3.Select(Y, v)
            res = SV("gen", x=[Bag([v], m, eng.schema.refine(self.yield_sv(v)), tag="contract:" + self.short())])
        else:
            rt = self.result_term(c0, a)
            res = rt if rt is not None else make_symbolic(eng, st, "res_" + self.short().replace(".", "_"),
                                                          self.result)
        for name, f in self._in_post_ghost(eng, c0, a, lambda: self.post(c0, c1, a, res)).items():
            st.define(f, tag="call:%s.post.%s" % (self.short(), name))
        for pname in self.inout:
            arg = a[pname]
            if arg.wb is None:
                raise Unsupported("in/out argument %s of %s has no origin" % (pname, self.short()))
            out = a[pname + "__out"]
            arg.wb(st, SV(out.k, out.t, cls=arg.cls, x=out.x))
        return res

    yield_cls = None

    def yield_sv(self, v):
        return SV("val", v, cls=self.yield_cls)

    def havoc(self, eng, st, c0, a):
        mods = self.modifies
        if callable(mods):
            mods = mods(c0, a)
        if isinstance(mods, (list, tuple)):
            mods = {k: None for k in mods}
        for key, may in mods.items():
            for sub in eng_subkeys(eng, key):
                old = eng.field_array(st, sub)
                new = fresh("H_" + sub.replace("#", "_").replace("$", "S").replace(".", "_"), old.sort())
                if may is not None:
                    r = fresh("r", Int)
                    st.define(z3.ForAll([r], z3.Implies(z3.Not(may(c0, a, r)), z3.Select(new, r) == z3.Select(old, r))))
                st.heap[sub] = new

    def short(self):
        base = self.target.split("::")[1] if "::" in self.target else self.target.split(":", 1)[1]
        return base + (("[" + self.variant + "]") if getattr(self, "variant", None) else "")

    # ---- verification of the body -------------------------------------------
    def verify(self, eng):
        """Symbolically execute the real body against this contract; returns obligations."""
        fi = self.fi
        if fi is None:
            raise Unsupported("contract target %s not found in /repo" % self.target)
        if getattr(fi, "foreign_decorators", None):
            raise Unsupported("%s is decorated with %s" % (self.target, ", ".join(fi.foreign_decorators)))
        obls = []
        st = State()
        st.obls = obls
        st.entry_mark = 0
        st.facts = list(eng.schema.axioms) + list(self.axioms(eng))
        eng.cur_facts = st.facts
        eng.fun_memo = {}
        eng.ghost = self.ghost_symbolic(eng, st)
        names, vararg, kwonly = fi.params()
        a = Args()
        specs = dict(self.params or {})
        for n in names + ([vararg] if vararg else []) + kwonly:
            spec = specs.get(n)
            if spec is None:
                if n == "self" and fi.cls is not None:
                    spec = "ref:" + (self.self_cls or fi.cls.qual)
                elif n == "cls" and fi.cls is not None:
                    a[n] = SV("cls", x=eng.prog.classes[self.self_cls or fi.cls.qual])
                    continue
                else:
                    raise Unsupported("contract %s: no spec for parameter %s" % (self.target, n))
            a[n] = self.make_value(eng, st, n, spec)
        st.env = dict(a)
        for n, spec in (getattr(self, "closure", None) or {}).items():
            # free variables of a nested function: symbolic values of the enclosing scope
            a[n] = self.make_value(eng, st, n, spec)
            st.env[n] = a[n]
        for pname in self.inout:
            v0 = a[pname]
            st.env[pname] = SV(v0.k, v0.t, cls=v0.cls, x=v0.x,
                               wb=lambda st2, new, pname=pname: st2.env.__setitem__(
                                   pname, SV(new.k, new.t, cls=new.cls, x=new.x, wb=st2.env[pname].wb)))
        c0 = Ctx(eng, dict(st.heap))
        for name, f in self.pre(c0, a).items():
            st.assume(f, "pre." + name, tag="pre." + name)
        st.heap = c0.heap   # share arrays created lazily by pre
        c0 = Ctx(eng, dict(st.heap))
        st.entry_mark = len(st.pc)
        from .core import serial_mark
        st.entry_serial = serial_mark()
        pre_assumptions = st.assumptions()
        pre_alone = list(st.pc)          # the precondition without the (definitional, universally quantified) axioms
        # execute
        eng.cur_fn = fi
        eng.cur_target = self.target + (("[" + self.variant + "]") if getattr(self, "variant", None) else "")
        eng.cur_contract = self
        eng.cur_c0 = c0
        eng.cur_args = a
        eng.loop_counter = 0
        eng.exc_paths = []
        eng.inline_depth = 0
        import ast as _ast
        if isinstance(fi.node, _ast.Lambda):
            val = eng.eval(fi.node.body, st)
            outs = [(st, ("return", val))] + [(s, ("raise", e)) for (s, e) in eng.exc_paths]
            eng.exc_paths = []
        else:
            stmts = strip_docstring(fi.node.body)
            prefix_mode = False
            seg = getattr(self, "segment", None)
            if seg is not None:
                # segment contract: the statements from the first one matching seg[0] up to (not including) the first
                # later one matching seg[1]; its free variables are the function's parameters and `closure`
                srcs = [ast_unparse(s_) for s_ in stmts]
                starts = [i_ for i_, t_ in enumerate(srcs) if seg[0](t_)]
                if not starts:
                    raise Unsupported("segment contract %s: start statement not found" % self.target)
                ends = [i_ for i_, t_ in enumerate(srcs) if i_ > starts[0] and seg[1](t_)] if seg[1] else [len(stmts)]
                if not ends:
                    raise Unsupported("segment contract %s: end statement not found" % self.target)
                stmts = stmts[starts[0]:ends[0]]
            dk = getattr(self, "drop_kwarg", None)
            if dk:
                # argument abstraction (named in the evidence): the listed keyword arguments are removed from the calls of
                # the verified text, so the callee sees its default for them
                import ast as _a
                import copy as _copy
                stmts = [_copy.deepcopy(s_) for s_ in stmts]
                self.dropped_kwargs = []
                for s_ in stmts:
                    for n_ in _a.walk(s_):
                        if isinstance(n_, _a.Call):
                            keep = [kw for kw in n_.keywords if kw.arg not in dk]
                            if len(keep) != len(n_.keywords):
                                self.dropped_kwargs += [kw.arg + "=" + " ".join(ast_unparse(kw.value).split())[:80]
                                                        for kw in n_.keywords if kw.arg in dk]
                                n_.keywords = keep
            drop = getattr(self, "drop_stmt", None)
            if drop is not None:
                # statements left out of the verified text (named in the evidence): each must be an expression
                # statement (a call for effect) - nothing later in the function can depend on a value it binds
                kept = []
                self.dropped = []
                for s_ in stmts:
                    t_ = ast_unparse(s_)
                    if drop(t_):
                        import ast as _a
                        if not isinstance(s_, _a.Expr):
                            raise Unsupported("dropped statement is not an expression statement: %s" % t_[:60])
                        self.dropped.append(" ".join(t_.split())[:120])
                    else:
                        kept.append(s_)
                stmts = kept
            if getattr(self, "prefix_until", None) is not None:
                # guard contract: only the statements before the first one matching prefix_until are executed; what is
                # verified is that the guard conditions (raises) are checked before anything else happens.  The rest
                # of the body is not under this contract.
                for i_, s_ in enumerate(stmts):
                    if self.prefix_until(ast_unparse(s_)):
                        stmts = stmts[:i_]
                        prefix_mode = True
                        break
                else:
                    raise Unsupported("guard contract %s: no statement matches prefix_until" % self.target)
            outs = eng.exec_stmts(stmts, st)
            if prefix_mode:
                outs = [(s_, c_ if (c_ is not None and c_[0] == "raise") else ("prefix-end", None)) for (s_, c_) in outs]
        n_paths = 0
        exc_spec = self.raises(c0, a)
        may_spec = self.may_raise(c0, a)
        is_gen = fi.is_generator()
        all_bags = []
        normal_conds = []
        for i, (s, ctrl) in enumerate(outs):
            n_paths += 1
            tag = "path%d" % i
            if ctrl is not None and ctrl[0] == "raise":
                e = ctrl[1].cls
                allowed = []
                for en, cond in list(exc_spec.items()) + list(may_spec.items()):
                    if _exc_match(e, en):
                        allowed.append(cond)
                goal = z3.Or(*allowed) if allowed else z3.BoolVal(False)
                rl = []
                if getattr(self, "lemmas_on_raise", False):
                    # hint lemmas about the entry state are also available on exceptional paths (proved first)
                    for lname, lf in self.lemmas(c0, Ctx(eng, dict(s.heap)), a, None).items():
                        obls.append(Obligation("lemma.%s/%s" % (lname, tag), self._sliced(s, "lemma." + lname, rl), lf,
                                               info={"path": s.trace}))
                        rl.append((lname, lf))
                obls.append(Obligation("raises.%s.allowed/%s" % (e, tag), self._sliced(s, "raises." + e, rl), goal,
                                       info={"path": s.trace, "exception": e}))
                # exception safety clauses
                c1 = Ctx(eng, dict(s.heap))
                if self.inout:
                    a = Args(a)
                    for pname in self.inout:
                        a[pname + "__out"] = s.env.get(pname, a[pname])
                for name, f in self.on_raise(c0, c1, a, e).items():
                    obls.append(Obligation("onraise.%s/%s" % (name, tag), s.assumptions(), f, info={"path": s.trace}))
                continue
            if ctrl is not None and ctrl[0] == "prefix-end":
                # end of the verified prefix: none of the guard conditions may hold here
                for en, cond in exc_spec.items():
                    obls.append(Obligation("guard.%s.checked_first/%s" % (en, tag), s.assumptions(), z3.Not(cond),
                                           info={"path": s.trace}))
                c1 = Ctx(eng, dict(s.heap))
                for name, f in self.frame_obligations(eng, c0, c1, a).items():
                    obls.append(Obligation("guard.no_effect_before.%s/%s" % (name, tag), s.assumptions(), f, info={"path": s.trace}))
                continue
            res = ctrl[1] if ctrl else sv_none()
            if isinstance(self.result, str) and self.result.startswith("ref:") and res.k in ("val", "none"):
                obls.append(Obligation("post.result_is_object/%s" % tag, s.assumptions(),
                                       is_VRef(to_val(res)), info={"path": s.trace}))
                res = SV("ref", ref(to_val(res)), cls=self.result[4:])
            elif self.result == "int" and res.k != "int":
                res = sv_int(eng.as_int(res, s, "result"))
            elif self.result == "bool" and res.k != "bool":
                if res.k == "val":
                    obls.append(Obligation("post.result_is_bool/%s" % tag, s.assumptions(), is_VBool(res.t),
                                           info={"path": s.trace}))
                    res = sv_bool(bval(res.t))
            # "must raise" direction: on a normal path none of the exact-raise conditions holds
            c1 = Ctx(eng, dict(s.heap))
            for gkey, gterm in self.ghost_witness(c0, c1, a, res).items():
                # ghost state has no code: the contract supplies the new value, either as a term or pointwise as a
                # function m -> value (then a fresh array defined by a triggered quantified fact)
                if callable(gterm):
                    srt = eng.schema.field_sort(gkey)
                    arr = fresh("G_" + gkey.strip("$"), srt)
                    m_ = z3.Const("gx", srt.domain())
                    # (a definition of a fresh symbol: harmless for every other path, so it goes to the shared facts)
                    s.facts.append(z3.ForAll([m_], z3.Select(arr, m_) == gterm(m_), patterns=[z3.Select(arr, m_)]))
                    gterm = arr
                c1.heap[gkey] = gterm
            if self.inout:
                a = Args(a)
                for pname in self.inout:
                    a[pname + "__out"] = s.env[pname]
            if is_gen or self.yields(c0, a, fresh("probe", Val)) is not None:
                bags = list(s.bags)
                if not is_gen:
                    bags = eng.bags_of(res, s)
                lc = z3.And(*s.pc[st.entry_mark:]) if len(s.pc) > st.entry_mark else z3.BoolVal(True)
                all_bags.append((s, lc, bags))
            lemmas = []
            for name, f in self.lemmas(c0, c1, a, res).items():
                obls.append(Obligation("lemma.%s/%s" % (name, tag), self._sliced(s, "lemma." + name, lemmas), f,
                                       info={"path": s.trace}))
                lemmas.append((name, f))
            for en, cond in exc_spec.items():
                obls.append(Obligation("raises.%s.required/%s" % (en, tag),
                                       s.assumptions() + ([f_ for (_, f_) in lemmas] if getattr(self, "lemmas_on_raise", False) else []),
                                       z3.Not(cond), info={"path": s.trace}))
            for name, f in self._in_post_ghost(eng, c0, a, lambda: self.post(c0, c1, a, res)).items():
                obls.append(Obligation("post.%s/%s" % (name, tag), self._sliced(s, name, lemmas), f,
                                       info={"path": s.trace}))
            # frame
            for name, f in self.frame_obligations(eng, c0, c1, a).items():
                obls.append(Obligation("frame.%s/%s" % (name, tag), s.assumptions(), f, info={"path": s.trace}))
        if all_bags:
            self.verify_yields(eng, c0, a, all_bags, obls)
        if n_paths == 0:
            raise Unsupported("no paths through %s" % self.target)
        # vacuity guard: the precondition must be satisfiable (cover obligation)
        obls.append(Obligation("cover.pre", pre_assumptions, z3.BoolVal(True), kind="cover"))
        if len(pre_alone) != len(pre_assumptions):
            obls.append(Obligation("cover.pre_without_axioms", pre_alone, z3.BoolVal(True), kind="cover"))
        eng.cur_contract = None
        return obls

    def on_raise(self, c0, c1, a, exc_name):
        return {}

    def frame_obligations(self, eng, c0, c1, a):
        """Every heap key not in modifies is unchanged; keys with a per-object predicate only change there."""
        out = {}
        mods = self.modifies
        if callable(mods):
            mods = mods(c0, a)
        if isinstance(mods, (list, tuple)):
            mods = {k: None for k in mods}
        allowed = {}
        for key, may in mods.items():
            for sub in eng_subkeys(eng, key):
                allowed[sub] = may
        for key, arr in c1.heap.items():
            old = c0.heap.get(key)
            if old is None:
                old = c0.arr(key)
            if z3.eq(arr, old):
                continue
            if key not in allowed:
                out["unchanged(%s)" % key] = arr == old
            elif allowed[key] is not None:
                r = fresh("r", Int)
                out["only_allowed_objects(%s)" % key] = z3.ForAll(
                    [r], z3.Implies(z3.Not(allowed[key](c0, a, r)), z3.Select(arr, r) == z3.Select(old, r)))
        return out

    def verify_yields(self, eng, c0, a, all_bags, obls):
        """Generator result against the membership predicate: sound (<= MAY), complete (>= MUST), no repeats.
        Auxiliary constants of a bag (callee results) are free, constrained by the bag's definitions."""
        k = 0
        for (s, lc, bags) in all_bags:
            for b in bags:
                news, cond, elem, defs = b.instantiate("ys")
                v = to_val(elem)
                m = self.yields(c0, a, v)
                obls.append(Obligation("yields.sound/site%d" % k, s.assumptions() + [defs, cond], m,
                                       info={"site": b.tag, "path": s.trace}))
                key = self.yield_order(c0, a, v)
                if key is not None:
                    ok = b.last_order is not None and len(bags) == 1
                    obls.append(Obligation("yields.ordered/site%d" % k, s.assumptions() + [defs, cond],
                                           (b.last_order == key) if ok else z3.BoolVal(False),
                                           info={"site": b.tag, "path": s.trace}))
                k += 1
        v = fresh("m", Val)
        mem = self.yields_must(c0, a, v)
        if mem is None:
            mem = self.yields(c0, a, v)
        hints = self.witness(c0, a, v)
        for i, (s, lc, bags) in enumerate(all_bags):
            alts = []
            defs_all = []
            for b in bags:
                news, cond, elem, defs = b.instantiate("yc")     # aux renamed apart, binders to be substituted
                ev = to_val(elem)
                key = b.tag
                hv = None
                for h in hints:
                    if key == h or key.startswith(h):
                        hv = hints[h]
                if hv is not None:
                    if len(hv) != len(news):
                        raise Unsupported("witness for %s has %d terms, bag %s has %d binders"
                                          % (self.short(), len(hv), key, len(news)))
                    sub = list(zip(news, hv))
                    alts.append(z3.And(z3.substitute(cond, *sub), z3.substitute(ev, *sub) == v))
                    defs_all.append(z3.substitute(defs, *sub))
                elif len(news) == 1 and z3.eq(ev, news[0]):
                    sub = [(news[0], v)]
                    alts.append(z3.substitute(cond, *sub))
                    defs_all.append(z3.substitute(defs, *sub))
                elif not news:
                    alts.append(z3.And(cond, ev == v))
                    defs_all.append(defs)
                else:
                    alts.append(z3.Exists(news, z3.And(cond, ev == v)))
            goal = z3.Implies(mem, z3.Or(*alts) if alts else z3.BoolVal(False))
            obls.append(Obligation("yields.complete/path%d" % i, s.assumptions() + defs_all, goal,
                                   info={"path": s.trace}))
        if self.yields_nodup:
            k = 0
            for (s, lc, bags) in all_bags:
                for i, b1 in enumerate(bags):
                    for j, b2 in enumerate(bags):
                        if j < i:
                            continue
                        n1, c1_, e1, d1 = b1.instantiate("d1")
                        n2, c2_, e2, d2 = b2.instantiate("d2")
                        if i == j and not n1:
                            continue
                        if i == j:
                            goal = z3.Implies(to_val(e1) == to_val(e2), z3.And([x == y for x, y in zip(n1, n2)]))
                        else:
                            goal = to_val(e1) != to_val(e2)
                        obls.append(Obligation("yields.nodup/site%d" % k, s.assumptions() + [d1, d2, c1_, c2_], goal,
                                               info={"path": s.trace}))
                        k += 1


def lc_no_binders(s, lc):
    return lc


def _exc_match(e, handler):
    from .symex import exc_isinstance
    return exc_isinstance(e, handler)


def eng_subkeys(eng, key):
    """Heap arrays that implement a logical field key."""
    srt = None
    from .schema import FIELDS
    for (k, knd, _c) in FIELDS.values():
        if k == key:
            if knd in ("list", "bytes"):
                return [key + "#items", key + "#len"]
            if knd.startswith("dict"):
                return [key + "#dom", key + "#map"]
    return [key]


def make_symbolic(eng, st, name, spec):
    """Create a symbolic input of the given kind-spec."""
    if isinstance(spec, SV):
        return spec
    if callable(spec):
        return spec(eng, st, name)
    if spec == "none":
        return sv_none()
    if spec == "int":
        return sv_int(fresh(name, Int))
    if spec == "bool":
        return sv_bool(fresh(name, Bool))
    if spec == "str":
        return SV("str", fresh(name, z3.StringSort()))
    if spec == "val":
        return sv_val(fresh(name, Val))
    if spec == "optint":
        v = fresh(name, Val)
        st.assume(z3.Or(is_VNone(v), is_VInt(v)))
        return sv_val(v)
    if spec == "set":
        return sv_set(fresh(name, SetSort))
    if spec == "dict:val":
        return SV("dict", fresh(name + "_map", z3.ArraySort(Val, Val)), x=(fresh(name + "_dom", SetSort), "val"))
    if spec.startswith("ref:"):
        return sv_ref(fresh(name, Int), cls=spec[4:])
    if spec.startswith("optref:"):
        v = fresh(name, Val)
        st.assume(z3.Or(is_VNone(v), is_VRef(v)))
        return sv_val(v, cls=spec[7:])
    if spec == "range":
        a, b, s = fresh(name + "_start", Int), fresh(name + "_stop", Int), fresh(name + "_step", Int)
        return SV("range", x=(sv_int(a), sv_int(b), sv_int(s)))
    if spec == "seq":
        return SV("seq", fresh(name, z3.SeqSort(Val)))
    if spec == "mapseq":
        # a Mapping given by its iteration sequence (ghost): keys[i] -> vals[i] in the order .items() yields them
        ks, vs = fresh(name + "_keys", z3.SeqSort(Val)), fresh(name + "_vals", z3.SeqSort(Val))
        st.assume(z3.Length(ks) == z3.Length(vs))
        return SV("mapseq", x=(SV("seq", ks), SV("seq", vs)))
    if spec == "list":
        n = fresh(name + "_len", Int)
        st.assume(n >= 0)
        return SV("list", fresh(name + "_items", z3.ArraySort(Int, Val)), x=n)
    if spec == "blob":
        from .iomodel import BSeq, byte_range
        b = fresh(name, BSeq)
        st.assume(byte_range(b))
        return SV("blob", b)
    if spec == "stream":
        r = fresh(name, Int)
        return SV("ref", r, cls="$Stream")
    if spec.startswith("pbrep:"):
        msg_, attr_ = spec[6:].split(".")
        return SV("pbrep", x=(fresh(name + "_owner", Int), msg_, attr_))
    if spec.startswith("pb:"):
        return SV("ref", fresh(name, Int), cls=spec)
    if spec == "gen":
        v = fresh("g", Val)
        return SV("gen", x=[Bag([v], z3.Select(fresh(name, SetSort), v), sv_val(v))])
    raise Unsupported("param spec %r" % (spec,))


class Registry:
    def __init__(self, prog):
        self.prog = prog
        self.contracts = []
        self.by_node = {}        # id(ast node) -> [contracts]
        self.loops = {}          # (target, ordinal) -> LoopSpec
        self.inline = set()      # targets that may be inlined
        self.ctor = {}           # class qual -> contract
        self.descriptor_contracts = {}   # (class qual, attr) -> contract
        self.missing = []

    def add(self, c):
        fi = self.prog.find_function(c.target)
        c.fi = fi
        self.contracts.append(c)
        if fi is None:
            self.missing.append(c.target)
            return c
        self.by_node.setdefault(id(fi.node), []).append(c)
        return c

    def add_loop(self, target, ordinal, spec):
        self.loops[(target, ordinal)] = spec

    def allow_inline(self, *targets):
        for t in targets:
            self.inline.add(t)

    def find_loop(self, target, ordinal):
        return self.loops.get((target, ordinal))

    def find_for_call(self, fi, self_cls, args, kwargs=None):
        cs = self.by_node.get(id(fi.node))
        if not cs:
            return None
        if len(cs) == 1:
            return cs[0]
        for c in cs:
            sel = getattr(c, "selects", None)
            if sel is None:
                continue
            try:
                ok = sel(self_cls, args, kwargs or {})
            except TypeError:
                ok = sel(self_cls, args)
            if ok:
                return c
        raise Unsupported("no contract variant of %s::%s matches this call" % (fi.file, fi.qual))

    def find_descriptor_contract(self, ci, attr):
        for c in ci.mro:
            if (c.qual, attr) in self.descriptor_contracts:
                return self.descriptor_contracts[(c.qual, attr)]
        return None

    def find_constructor(self, ci):
        return self.ctor.get(ci.qual)

    def prefers_inline(self, fi):
        return (fi.file + "::" + fi.qual) in self.inline

    def may_inline(self, fi):
        # functions without a contract are inlined (the verified text is then the caller's body plus the
        # helper's body); recursion is cut by the engine's inline depth limit
        return True


class _AliasEnv:
    """The locals as a loop invariant sees them: a local the sidecar spec names is looked up under the name the current
    source uses for it (LoopSpec._resolve_names); a name that is in scope under neither is outside the subset, never a crash."""

    def __init__(self, env, alias):
        self._env, self._alias = env, alias

    def __getitem__(self, name):
        real = self._alias.get(name, name)
        if real not in self._env:
            raise Unsupported("the loop invariant refers to the local %r, which is not in scope in the current source" % name)
        return self._env[real]

    def __contains__(self, name):
        return self._alias.get(name, name) in self._env

    def get(self, name, default=None):
        return self._env.get(self._alias.get(name, name), default)


def _mutated_names(node):
    """names that the loop body assigns, or calls a method on, or stores into by subscript"""
    import ast
    out = set()
    for n in ast.walk(node):
        if isinstance(n, ast.Call) and isinstance(n.func, ast.Attribute) and isinstance(n.func.value, ast.Name):
            out.add(n.func.value.id)
        elif isinstance(n, (ast.Assign, ast.AugAssign, ast.AnnAssign)):
            for t in (n.targets if isinstance(n, ast.Assign) else [n.target]):
                for m in ast.walk(t):
                    if isinstance(m, ast.Name):
                        out.add(m.id)
    return out


class LoopCtx:
    """What a loop invariant may talk about."""

    def __init__(self, eng, st, c_entry, k=None, seen=None, elems=None, seq=None):
        self.eng = eng
        self.c0 = eng.cur_c0            # heap at function entry
        self.a = eng.cur_args           # function arguments
        self.cL = c_entry               # heap at loop entry
        self.c = Ctx(eng, dict(st.heap))  # current heap
        self.env = _AliasEnv(st.env, getattr(eng, "loop_alias", None) or {})   # current locals (spec name -> actual name)
        self.k = k                      # number of completed iterations (ordered iteration)
        self.seen = seen                # set of elements already processed (set iteration)
        self.elems = elems              # the iterated set (SetSort) / None
        self.seq = seq                  # the iterated sequence (Seq(Val)) / None
        info = getattr(eng, "cur_loop_info", None) or (None, ())
        self.iter_src = info[0]         # source text of the iterated expression, e.g. "self.proxies"
        self.done = info[1]             # the same for the loops of this function that ran before this one


class LoopSpec:
    """Sidecar loop invariant, keyed by (function target, loop ordinal).

    inv(L: LoopCtx) -> {name: formula};  modifies: heap keys the body may change;
    carried: {local name: kind-spec} for locals that live across iterations.
    lemmas(L) -> [formula]: hint lemmas; each is itself proved as an obligation before it is assumed."""

    def __init__(self, inv, modifies=(), carried=None, lemmas=None, ghost=None, focus=None):
        self.inv = inv
        self.modifies = modifies
        self.carried = carried or {}
        self.lemmas = lemmas
        self.focus = focus          # focus(clause) -> names usable in the proof of that invariant clause (slicing)
        self.ghost = ghost          # ghost(L: LoopCtx) -> dict of ghost variables in force during an iteration

    def _havoc(self, eng, st):
        for key in self.modifies:
            for sub in eng_subkeys(eng, key):
                old = eng.field_array(st, sub)
                st.heap[sub] = fresh("HL_" + sub.replace("#", "_").replace("$", "S").replace(".", "_"), old.sort())
        alias = getattr(eng, "loop_alias", None) or {}
        for name, spec in self.carried.items():
            name = alias.get(name, name)
            v = make_symbolic(eng, st, name, spec)
            if v.k in ("set", "list", "dict", "bytes", "seq"):
                v = SV(v.k, v.t, cls=v.cls, x=v.x,
                       wb=lambda st2, new, name=name: st2.env.__setitem__(
                           name, SV(new.k, new.t, cls=new.cls, x=new.x, wb=st2.env[name].wb)))
            st.env[name] = v

    def _with_ghost(self, eng, L, fn):
        saved = getattr(eng, "ghost", {})
        if self.ghost is not None:
            eng.ghost = dict(saved, **self.ghost(L))
        try:
            return fn()
        finally:
            eng.ghost = saved

    def _assert_inv(self, eng, st, L, label):
        for name, f in self._with_ghost(eng, L, lambda: self.inv(L)).items():
            names = self.focus(name) if self.focus else None
            if names is None:
                st.oblige("loop%s.%s" % (label, name), f)
            else:
                names = set(names)
                st.obls.append(Obligation("loop%s.%s" % (label, name),
                                          st.sliced_assumptions(lambda t: t.rsplit(".", 1)[-1] in names), f))

    def _assume_inv(self, eng, st, L):
        for name, f in self._with_ghost(eng, L, lambda: self.inv(L)).items():
            st.define(f, tag="loopinv." + name)

    def _resolve_names(self, node, st):
        """The spec names its loop-carried locals as the pinned source does.  When the current source has no local of that
        name, the local playing the same role is looked for: same kind of value, mutated by the loop body, and not one of
        the other names the spec declares.  Exactly one candidate: the spec is read with that name; otherwise the function
        is outside the subset (UNDECIDED), never a failed obligation."""
        alias = {}
        missing = [n for n in self.carried if n not in st.env]
        if not missing:
            return alias
        mut = _mutated_names(node)
        for n in missing:
            kind = str(self.carried[n]).split(":")[0]
            cands = [v for v, sv in st.env.items() if v in mut and v not in self.carried and v not in alias.values()
                     and getattr(sv, "k", None) == kind]
            if len(cands) != 1:
                raise Unsupported("the loop invariant refers to the local %r, which is not in scope in the current source "
                                  "(%d candidates of kind %s)" % (n, len(cands), kind))
            alias[n] = cands[0]
        return alias

    def run(self, eng, node, it, st, ordinal):
        saved = getattr(eng, "loop_alias", None), getattr(eng, "cur_loop_info", None)
        eng.loop_alias = self._resolve_names(node, st)
        eng.cur_loop_info = getattr(eng, "loop_iter_info", None)
        try:
            return self._run(eng, node, it, st, ordinal)
        finally:
            eng.loop_alias, eng.cur_loop_info = saved

    def _run(self, eng, node, it, st, ordinal):
        import z3 as _z3
        cL = Ctx(eng, dict(st.heap))
        outs = []
        if it.k == "seq":
            es = it.t
            n = _z3.Length(es)
            self._assert_inv(eng, st, LoopCtx(eng, st, cL, k=_z3.IntVal(0), seq=es), "%d.init" % ordinal)
            self._havoc(eng, st)
            # iteration
            s = st.fork()
            k = fresh("k", Int)
            s.assume(_z3.And(0 <= k, k < n))
            self._assume_inv(eng, s, LoopCtx(eng, s, cL, k=k, seq=es))
            # sequence lemma (theory of sequences; proved as an obligation, then used as a fact)
            lem = _z3.Extract(es, 0, k + 1) == _z3.Concat(_z3.Extract(es, 0, k), _z3.Unit(es[k]))
            # proved standalone (a fact of the theory of sequences, independent of the program state)
            s.obls.append(Obligation("loop%d.lemma.prefix_step" % ordinal, [0 <= k, k < n], lem, info={"prefer": "cvc5"}))
            s.define(lem)
            if self.lemmas:
                for j_, f in enumerate(self.lemmas(LoopCtx(eng, s, cL, k=k, seq=es))):
                    s.oblige("loop%d.lemma.hint%d" % (ordinal, j_), f)
                    s.define(f)
            eng.assign(node.target, eng.schema.refine(SV("val", es[k])), s)
            for (s2, ctrl) in eng.exec_stmts(node.body, s):
                if ctrl is not None and ctrl[0] == "raise":
                    outs.append((s2, ctrl))
                    continue
                if ctrl is not None and ctrl[0] in ("return", "break"):
                    raise Unsupported("return/break in invariant loop")
                it2 = eng.eval(node.iter, s2)
                s2.oblige("loop%d.iterable_unchanged" % ordinal, it2.t == es)
                self._assert_inv(eng, s2, LoopCtx(eng, s2, cL, k=k + 1, seq=es), "%d.step" % ordinal)
            # exit
            self._assume_inv(eng, st, LoopCtx(eng, st, cL, k=n, seq=es))
            st.define(_z3.Extract(es, 0, n) == es)
            if self.lemmas:
                for j_, f in enumerate(self.lemmas(LoopCtx(eng, st, cL, k=n, seq=es))):
                    st.oblige("loop%d.lemma.exit_hint%d" % (ordinal, j_), f)
                    st.define(f)
            for name in _target_names(node.target):
                st.env[name] = SV("poison", x="loop variable %s" % name)
            return [(st, None)] + outs
        if it.k == "list":
            # ordered iteration over a list value: k completed iterations, loop variable items[k]
            n = it.x
            self._assert_inv(eng, st, LoopCtx(eng, st, cL, k=_z3.IntVal(0)), "%d.init" % ordinal)
            self._havoc(eng, st)
            s = st.fork()
            k = fresh("k", Int)
            s.assume(_z3.And(0 <= k, k < n))
            self._assume_inv(eng, s, LoopCtx(eng, s, cL, k=k))
            eng.assign(node.target, eng.schema.refine(SV("val", _z3.Select(it.t, k), cls=it.cls)), s)
            for (s2, ctrl) in eng.exec_stmts(node.body, s):
                if ctrl is not None and ctrl[0] == "raise":
                    outs.append((s2, ctrl))
                    continue
                if ctrl is not None and ctrl[0] in ("return", "break"):
                    raise Unsupported("return/break in invariant loop")
                self._assert_inv(eng, s2, LoopCtx(eng, s2, cL, k=k + 1), "%d.step" % ordinal)
            self._assume_inv(eng, st, LoopCtx(eng, st, cL, k=n))
            for name in _target_names(node.target):
                st.env[name] = SV("poison", x="loop variable %s" % name)
            return [(st, None)] + outs
        if it.k == "zip":
            # ordered iteration over zip(a, b) of two sequences: k completed iterations, loop variables (a[k], b[k])
            sa, sb = it.x
            n = _z3.If(_z3.Length(sa.t) < _z3.Length(sb.t), _z3.Length(sa.t), _z3.Length(sb.t))
            self._assert_inv(eng, st, LoopCtx(eng, st, cL, k=_z3.IntVal(0)), "%d.init" % ordinal)
            self._havoc(eng, st)
            s = st.fork()
            k = fresh("k", Int)
            s.assume(_z3.And(0 <= k, k < n))
            self._assume_inv(eng, s, LoopCtx(eng, s, cL, k=k))
            if self.lemmas:
                for j_, f in enumerate(self.lemmas(LoopCtx(eng, s, cL, k=k))):
                    s.oblige("loop%d.lemma.hint%d" % (ordinal, j_), f)
                    s.define(f)
            eng.assign(node.target, sv_tuple([eng.schema.refine(SV("val", sa.t[k])), eng.schema.refine(SV("val", sb.t[k]))]), s)
            for (s2, ctrl) in eng.exec_stmts(node.body, s):
                if ctrl is not None and ctrl[0] == "raise":
                    outs.append((s2, ctrl))
                    continue
                if ctrl is not None and ctrl[0] in ("return", "break"):
                    raise Unsupported("return/break in invariant loop")
                self._assert_inv(eng, s2, LoopCtx(eng, s2, cL, k=k + 1), "%d.step" % ordinal)
            self._assume_inv(eng, st, LoopCtx(eng, st, cL, k=n))
            for name in _target_names(node.target):
                st.env[name] = SV("poison", x="loop variable %s" % name)
            return [(st, None)] + outs
        if it.k == "range":
            # ordered iteration over range(start, stop) (step 1): k completed iterations, loop variable start + k
            a_, b_, s_ = it.x
            if not (_z3.is_int_value(_z3.simplify(eng.as_int(s_, st))) and _z3.simplify(eng.as_int(s_, st)).as_long() == 1):
                raise Unsupported("invariant loop over a range with a step")
            start, stop = eng.as_int(a_, st), eng.as_int(b_, st)
            n = _z3.If(stop > start, stop - start, 0)
            self._assert_inv(eng, st, LoopCtx(eng, st, cL, k=_z3.IntVal(0)), "%d.init" % ordinal)
            self._havoc(eng, st)
            s = st.fork()
            k = fresh("k", Int)
            s.assume(_z3.And(0 <= k, k < n))
            self._assume_inv(eng, s, LoopCtx(eng, s, cL, k=k))
            if self.lemmas:
                for j_, f in enumerate(self.lemmas(LoopCtx(eng, s, cL, k=k))):
                    s.oblige("loop%d.lemma.hint%d" % (ordinal, j_), f)
                    s.define(f)
            eng.assign(node.target, sv_int(start + k), s)
            for (s2, ctrl) in eng.exec_stmts(node.body, s):
                if ctrl is not None and ctrl[0] == "raise":
                    outs.append((s2, ctrl))
                    continue
                if ctrl is not None and ctrl[0] in ("return", "break"):
                    raise Unsupported("return/break in invariant loop")
                self._assert_inv(eng, s2, LoopCtx(eng, s2, cL, k=k + 1), "%d.step" % ordinal)
            self._assume_inv(eng, st, LoopCtx(eng, st, cL, k=n))
            for name in _target_names(node.target):
                st.env[name] = SV("poison", x="loop variable %s" % name)
            return [(st, None)] + outs
        # set-like iteration (order arbitrary): single bag with one binder
        bags = eng.bags_of(it, st)
        if len(bags) != 1 or len(bags[0].binders) != 1:
            raise Unsupported("invariant loop over a non-simple collection")
        b = bags[0]
        x0 = b.binders[0]

        def member(t):
            return _z3.substitute(b.cond, (x0, t))

        def elem(t):
            from .core import subst_sv
            return subst_sv(b.elem, [(x0, t)])
        elems = fresh("elems", SetSort)
        y = fresh("y", x0.sort())
        if x0.sort() != Val:
            raise Unsupported("invariant loop binder sort")
        st.define(_z3.ForAll([y], _z3.Select(elems, y) == member(y)))
        self._assert_inv(eng, st, LoopCtx(eng, st, cL, seen=EmptySet, elems=elems), "%d.init" % ordinal)
        self._havoc(eng, st)
        seen = fresh("seen", SetSort)
        st.define(_z3.ForAll([y], _z3.Implies(_z3.Select(seen, y), _z3.Select(elems, y))))
        s = st.fork()
        x = fresh("x", Val)
        s.assume(_z3.And(_z3.Select(elems, x), _z3.Not(_z3.Select(seen, x))))
        Lbody = LoopCtx(eng, s, cL, seen=seen, elems=elems)
        self._assume_inv(eng, s, Lbody)
        eng.assign(node.target, elem(x), s)
        saved_ghost = getattr(eng, "ghost", {})
        if self.ghost is not None:
            eng.ghost = dict(saved_ghost, **self.ghost(Lbody))
        try:
            body_outs = eng.exec_stmts(node.body, s)
        finally:
            eng.ghost = saved_ghost
        for (s2, ctrl) in body_outs:
            if ctrl is not None and ctrl[0] == "raise":
                outs.append((s2, ctrl))
                continue
            if ctrl is not None and ctrl[0] in ("return", "break"):
                raise Unsupported("return/break in invariant loop")
            it2 = eng.eval(node.iter, s2)
            b2 = eng.bags_of(it2, s2)[0]
            y2 = fresh("y", Val)
            s2.oblige("loop%d.iterable_unchanged" % ordinal,
                      _z3.ForAll([y2], _z3.substitute(b2.cond, (b2.binders[0], y2)) == _z3.Select(elems, y2)))
            self._assert_inv(eng, s2, LoopCtx(eng, s2, cL, seen=_z3.Store(seen, x, True), elems=elems),
                             "%d.step" % ordinal)
        self._assume_inv(eng, st, LoopCtx(eng, st, cL, seen=seen, elems=elems))
        st.define(seen == elems)
        for name in _target_names(node.target):
            st.env[name] = SV("poison", x="loop variable %s" % name)
        return [(st, None)] + outs

    def run_while(self, eng, node, st, ordinal):
        """while cond: body   with invariant self.inv and variant self.variant(L) (Int, bounded below by 0,
        strictly decreasing)."""
        import z3 as _z3
        cL = Ctx(eng, dict(st.heap))
        outs = []
        self._assert_inv(eng, st, LoopCtx(eng, st, cL), "%d.init" % ordinal)
        self._havoc(eng, st)
        self._assume_inv(eng, st, LoopCtx(eng, st, cL))
        mark = len(eng.exc_paths)
        c = eng.truthy(eng.eval(node.test, st), st)
        s = st.fork()
        s.assume(c, "line %d: while-true" % node.lineno)
        st.assume(_z3.Not(c), "line %d: while-exit" % node.lineno)
        v0 = self.variant(LoopCtx(eng, s, cL)) if getattr(self, "variant", None) else None
        for (s2, ctrl) in eng.exec_stmts(node.body, s):
            if ctrl is not None and ctrl[0] == "raise":
                outs.append((s2, ctrl))
                continue
            if ctrl is not None and ctrl[0] in ("return", "break"):
                raise Unsupported("return/break in while loop")
            self._assert_inv(eng, s2, LoopCtx(eng, s2, cL), "%d.step" % ordinal)
            if v0 is not None:
                v1 = self.variant(LoopCtx(eng, s2, cL))
                s2.oblige("loop%d.variant_decreases" % ordinal, _z3.And(v0 >= 0, v1 < v0))
        return [(st, None)] + outs


def _target_names(t):
    import ast as _ast
    return {m.id for m in _ast.walk(t) if isinstance(m, _ast.Name)}
