"""Heap schema + models of builtins and library types (the trusted ``pysem`` layer).

Everything in this file is part of the trusted base: it states what Python's builtins and the
third-party containers do.  Each model is small; the assumed contracts on dependencies
(intervaltree, sortedcontainers, ...) are additionally exercised against the installed libraries by
the conformance runs in /verif/oracles/conformance.py.
"""
import ast
import z3

from .core import (SV, Bag, Unsupported, Val, VNone, VInt, VBool, VRef, VStr, VIv, VPair, VEnum, VUuid,
                   is_VNone, is_VInt, is_VBool, is_VRef, is_VStr, is_VIv, is_VPair, is_VEnum, is_VUuid,
                   ival, bval, ref, sval, ivb, ive, ivd, fst, snd, ecls, enum_, uval, SetSort, EmptySet, Card,
                   fresh, sv_int, sv_bool, sv_none, sv_ref, sv_val, sv_str, sv_tuple, sv_set, to_val,
                   from_py, Int, Bool, Str)
from .symex import Exc

NAMEDTUPLES = {"Edge": ["source", "target", "label"], "EdgeLabel": ["type", "conditional", "direct"],
               "Offset": ["element_id", "displacement"]}

# in_range(x, start, stop, step): Python's ``x in range(start, stop, step)`` for step >= 1, kept
# uninterpreted apart from the facts the proofs need (avoids non-linear mod).
InRange = z3.Function("InRange", Int, Int, Int, Int, Bool)


def in_range_axioms():
    x, a, b, s = z3.Ints("x a b s")
    return [
        z3.ForAll([x, a, b, s], z3.Implies(z3.And(s >= 1, InRange(x, a, b, s)), z3.And(a <= x, x < b)),
                  patterns=[InRange(x, a, b, s)]),
        z3.ForAll([x, a, b], InRange(x, a, b, 1) == z3.And(a <= x, x < b), patterns=[InRange(x, a, b, 1)]),
    ]


# field -> kind.  key: (class simple-or-qual name, attr) walking the MRO; default is 'val'.
# kinds: val | set | list | bytes | dict:val | dict:set
FIELDS = {
    ("SetWrapper", "_data"): ("SetWrapper._data", "set", None),
    ("ListWrapper", "_data"): ("ListWrapper._data", "list", None),
    ("DictWrapper", "_data"): ("DictWrapper._data", "dict:val", None),
    ("Module", "_symbol_name_index"): ("_symbol_name_index", "dict:set", "defaultdict:set"),
    ("Module", "_symbol_referent_index"): ("_symbol_referent_index", "dict:set", "defaultdict:set"),
    ("LazyIntervalTree", "_interval_events"): ("_interval_events", "seq", None),
    ("ByteInterval", "contents"): ("contents", "bytes", None),
    ("Section", "flags"): ("Section.flags", "set", None),
    ("SymbolicExpression", "attributes"): ("SymExpr.attributes", "set", None),
    ("IR", "_local_uuid_cache"): ("_local_uuid_cache", "dict:val", None),
    ("AuxDataContainer", "aux_data"): ("aux_data", "dict:val", None),
    ("$IntervalTree", "$content"): ("$tree_content", "set", None),
    ("LazyIntervalTree", "_interval_index"): ("LIT._interval_index", "val", "$IntervalTree"),
    # ByteInterval.size is a property over the indexed attribute _indexed_size (stored as __indexed_size) since the
    # fix for F-C19-1; both spellings denote the logical field "_size"
    ("ByteInterval", "__indexed_size"): ("_size", "val", None),
}

# Region R: the internals of the lazily maintained indexes.  Lookups may update them (benign: the
# abstract structure is untouched); loops over lookups are treated as comprehensions over the non-R heap
# with the region invariant carried across iterations (DESIGN 2.2 / 3.4).
REGION_KEYS = ("LIT._interval_index", "_interval_events", "$tree_content", "$alive")

# static classes of 'val' fields (for method resolution only)
FIELD_CLASSES = {
    "_section": "Section", "_module": "Module", "_ir": "IR", "_byte_interval": "ByteInterval",
    "_node": None, "_interval_tree": "LazyIntervalTree", "_interval_index": None,
    "byte_intervals": "Section._ByteIntervalSet", "blocks": "ByteInterval._BlockSet",
    "modules": "IR._ModuleList", "cfg": "CFG", "_symbolic_expressions": "ByteInterval._SymbolicExprDict",
    "_value_collection": None, "_nxg": "$Graph",
}

# (class, attr) specific overrides
FIELD_CLASSES_BY_CLASS = {
    ("AuxData", "_lazy_container"): "_LazyDataContainer",
    ("CodeBlock", "decode_mode"): ("CodeBlock.DecodeMode", "enum"),
    ("Module", "isa"): ("Module.ISA", "enum"), ("Module", "file_format"): ("Module.FileFormat", "enum"),
    ("Module", "byte_order"): ("Module.ByteOrder", "enum"), ("Module", "entry_point"): "CodeBlock",
    ("Symbol", "__payload"): None,
    ("SymAddrConst", "symbol"): "Symbol", ("SymAddrAddr", "symbol1"): "Symbol", ("SymAddrAddr", "symbol2"): "Symbol",
    ("Section", "_interval_index"): ("LazyIntervalTree", "ByteInterval"),
    ("ByteInterval", "_interval_tree"): ("LazyIntervalTree", "ByteBlock"),
    ("Section._ByteIntervalSet", "_node"): "Section",
    ("ByteInterval._BlockSet", "_node"): "ByteInterval",
    ("Module._NodeSet", "_node"): "Module",
    ("IR._ModuleList", "_node"): "IR",
    ("ByteInterval._SymbolicExprDict", "_interval"): "ByteInterval",
    ("Module", "sections"): ("Module._NodeSet", "Section"), ("Module", "symbols"): ("Module._NodeSet", "Symbol"),
    ("Module", "proxies"): ("Module._NodeSet", "ProxyBlock"),
    ("Section", "byte_intervals"): ("Section._ByteIntervalSet", "ByteInterval"),
    ("ByteInterval", "blocks"): ("ByteInterval._BlockSet", "ByteBlock"),
    ("IR", "modules"): ("IR._ModuleList", "Module"),
}


class Schema:
    def __init__(self, prog):
        self.prog = prog
        self._ids = {}
        for i, q in enumerate(sorted(prog.classes)):
            self._ids[q] = i + 1
        self._ids["$IntervalTree"] = 900
        self._ids["$Graph"] = 901
        from .nxmodel import NxModel
        self.nx = NxModel()
        from .iomodel import IoModel, axioms as io_axioms
        from .pbmodel import PbModel
        self.io = IoModel()
        self.pb = PbModel()
        self.axioms = in_range_axioms()      # (the byte-string axioms of iomodel are added per contract: IoContract)

    # ----------------------------------------------------------- classes
    def class_id(self, qual):
        if qual not in self._ids:
            # a class the specifications refer to is no longer in /repo (renamed or removed): the functions whose contracts
            # need it are outside the verifier's reach on this tree - not a checker error
            raise Unsupported("class %s referred to by a specification is not defined in /repo" % qual)
        return self._ids[qual]

    def subclass_ids(self, prog, ci):
        return [self._ids[c.qual] for c in prog.classes.values() if ci in c.mro]

    def annotation_class(self, prog, ann, fi):
        """Static class named by an annotation (Optional[...] stripped), or None."""
        try:
            txt = ast.unparse(ann)
        except Exception:
            return None
        txt = txt.replace("typing.", "")
        if txt.startswith("Optional[") and txt.endswith("]"):
            txt = txt[len("Optional["):-1]
        txt = txt.strip("'\"")
        if "[" in txt:
            base = txt.split("[")[0]
            if base in ("SetWrapper", "ListWrapper", "DictWrapper", "LazyIntervalTree"):
                txt = base
            else:
                return None
        ci = prog.find_class(txt, fi.cls)
        return ci.qual if ci is not None else None

    # ----------------------------------------------------------- fields
    def field(self, cls, attr):
        ci = self.prog.classes.get(cls) if cls else None
        names = [c.qual for c in ci.mro] if ci is not None else ([cls] if cls else [])
        for n in names:
            simple = n
            if (simple, attr) in FIELDS:
                return FIELDS[(simple, attr)]
        fcls = None
        for n in names:
            if (n, attr) in FIELD_CLASSES_BY_CLASS:
                fcls = FIELD_CLASSES_BY_CLASS[(n, attr)]
                break
        else:
            fcls = FIELD_CLASSES.get(attr)
        return (attr, "val", fcls)

    def post_read(self, obj, attr, sv):
        if obj.cls == "LazyIntervalTree" and attr == "_value_collection" and obj.x in self.LIT:
            return SV(sv.k, sv.t, cls=self.LIT[obj.x][1], x=obj.x, wb=sv.wb)
        if attr == "_data" and sv.k in ("set", "list"):
            elem = obj.x if isinstance(obj.x, str) else {
                "ByteInterval._BlockSet": "ByteBlock", "Section._ByteIntervalSet": "ByteInterval",
                "IR._ModuleList": "Module"}.get(obj.cls)
            if elem:
                return SV(sv.k, sv.t, cls=elem, x=sv.x, wb=sv.wb)      # element class of an owning collection
        if obj.cls == "LazyIntervalTree" and attr == "_interval_index":
            return SV(sv.k, sv.t, cls="$IntervalTree", x=obj.x, wb=sv.wb)
        return sv

    def field_sort(self, key):
        if key == "$kind":
            return z3.ArraySort(Int, Int)
        if key == "$alive":
            return z3.ArraySort(Int, Bool)
        if key == "$modpos":
            return z3.ArraySort(Int, Int)
        from .nxmodel import GSORTS
        if key in GSORTS:
            return GSORTS[key]
        if key == "$ir.loaded_from":
            return z3.ArraySort(Int, Val)
        if key.startswith("$stream.") or key.startswith("$unknown."):
            return self.io.field_sort(key)
        if key.startswith("pb.") or key.startswith("$pb."):
            return self.pb.field_sort(key)
        base = key.split("#")[0]
        kind = None
        for (k, knd, _c) in FIELDS.values():
            if k == base:
                kind = knd
        if kind is None or kind == "val":
            return z3.ArraySort(Int, Val)
        if kind == "set":
            return z3.ArraySort(Int, SetSort)
        if kind == "seq":
            return z3.ArraySort(Int, z3.SeqSort(Val))
        if kind in ("list", "bytes"):
            return z3.ArraySort(Int, z3.ArraySort(Int, Val)) if key.endswith("#items") else z3.ArraySort(Int, Int)
        if kind == "dict:val":
            return z3.ArraySort(Int, SetSort) if key.endswith("#dom") else z3.ArraySort(Int, z3.ArraySort(Val, Val))
        if kind == "dict:set":
            return z3.ArraySort(Int, SetSort) if key.endswith("#dom") else z3.ArraySort(Int, z3.ArraySort(Val, SetSort))
        raise Unsupported("sort of " + key)

    def refine(self, sv):
        return sv

    # function-valued / statically-known fields of LazyIntervalTree, by element type.  Class-shape fact,
    # checked mechanically by shape_checks(): the only two constructions of LazyIntervalTree in /repo are
    #   LazyIntervalTree[int, ByteBlock](self.blocks, _offset_interval)            (ByteInterval.__init__)
    #   LazyIntervalTree[int, ByteInterval](self.byte_intervals, _address_interval) (Section.__init__)
    LIT = {"ByteBlock": ("util.py::_offset_interval", "ByteInterval._BlockSet"),
           "ByteInterval": ("util.py::_address_interval", "Section._ByteIntervalSet")}

    def static_field(self, eng, obj, attr):
        if obj.cls == "LazyIntervalTree" and obj.x in self.LIT:
            if attr == "_make_interval":
                return SV("func", x=(eng.prog.find_function(self.LIT[obj.x][0]), {}))
        return None

    def shape_checks(self):
        """Mechanical checks of the class-shape facts the encoding relies on.  Returns list of failures."""
        import ast as _ast
        bad = []
        prog = self.prog
        # 1. constructions of LazyIntervalTree
        seen = {}
        for fn, tree in prog.files.items():
            for n in _ast.walk(tree):
                if isinstance(n, _ast.Call) and isinstance(n.func, _ast.Subscript) \
                        and _ast.unparse(n.func.value) == "LazyIntervalTree":
                    elem = _ast.unparse(n.func.slice).split(",")[-1].strip().strip(")")
                    seen[elem] = (fn, _ast.unparse(n.args[0]), _ast.unparse(n.args[1]))
                elif isinstance(n, _ast.Call) and _ast.unparse(n.func) == "LazyIntervalTree":
                    bad.append("unparameterised LazyIntervalTree(...) construction in %s" % fn)
        exp = {"ByteBlock": ("byteinterval.py", "self.blocks", "_offset_interval"),
               "ByteInterval": ("section.py", "self.byte_intervals", "_address_interval")}
        if seen != exp:
            bad.append("LazyIntervalTree constructions changed: %r" % (seen,))
        # 2. no Node subclass defines __eq__/__hash__/__bool__/__len__
        node = prog.classes.get("Node")
        for ci in prog.classes.values():
            if node in ci.mro:
                for m in ("__eq__", "__hash__", "__bool__", "__len__"):
                    if m in ci.methods:
                        bad.append("%s defines %s (identity semantics of nodes assumed)" % (ci.qual, m))
        # 3. wrapper _data fields are assigned only in __init__
        for cname in ("SetWrapper", "ListWrapper", "DictWrapper"):
            for ci in prog.classes.values():
                if prog.classes[cname] in ci.mro:
                    for mname, fi in ci.methods.items():
                        for n in _ast.walk(fi.node):
                            if isinstance(n, (_ast.Assign, _ast.AnnAssign)):
                                tgts = n.targets if isinstance(n, _ast.Assign) else [n.target]
                                for t in tgts:
                                    if isinstance(t, _ast.Attribute) and t.attr == "_data" and mname != "__init__":
                                        bad.append("%s.%s rebinds _data" % (ci.qual, mname))
        return bad

    # ----------------------------------------------------------- enums
    def enum_member(self, prog, ci, name):
        mod, ename, const = ci.enum_members[name]
        num = self.enum_number(ename, const)
        return SV("val", VEnum(z3.IntVal(self.class_id(ci.qual)), z3.IntVal(num)), cls=ci.qual, x="enum")

    def enum_number(self, ename, const):
        from .overlay import schema_tables
        if not hasattr(self, "_enums"):
            self._msgs, self._enums = schema_tables()
        for c, n in self._enums.get(ename, []):
            if c == const:
                return n
        raise Unsupported("enum constant %s.%s not in /repo/proto" % (ename, const))

    def enum_from_value(self, eng, ci, arg, st):
        """EnumClass(number): ValueError unless number is a member's value."""
        n = eng.as_int(arg, st)
        nums = []
        for name, (mod, ename, const) in ci.enum_members.items():
            nums.append(self.enum_number(ename, const))
        ok = z3.Or([n == k for k in nums]) if nums else z3.BoolVal(False)
        s2 = st.fork()
        s2.assume(z3.Not(ok))
        eng.exc_paths.append((s2, Exc("ValueError")))
        st.assume(ok)
        return SV("val", VEnum(z3.IntVal(self.class_id(ci.qual)), n), cls=ci.qual, x="enum")

    # ----------------------------------------------------------- hooks with defaults
    def isinstance_special(self, eng, sv, clsname, st):
        if clsname == "Iterator":
            # typing.Iterator / collections.abc.Iterator: generators are iterators, the built-in collections are not
            if sv.k == "gen":
                return z3.BoolVal(True)
            if sv.k in ("seq", "list", "tuple", "set", "dict", "mapseq", "bytes", "blob", "str", "range", "none", "int", "bool"):
                return z3.BoolVal(False)
            if sv.k == "ref" and sv.cls in eng.prog.classes:
                return z3.BoolVal(bool(eng.prog.classes[sv.cls].lookup("__next__")))
            raise Unsupported("isinstance(%s, Iterator)" % sv.k)
        if clsname in ("Sequence", "Collection", "Mapping") and sv.k in ("seq", "list", "tuple", "set", "dict", "mapseq"):
            return z3.BoolVal({"Sequence": sv.k in ("seq", "list", "tuple"), "Collection": True,
                               "Mapping": sv.k in ("dict", "mapseq")}[clsname])
        if clsname == "float":
            if sv.k == "val":
                from .iomodel import is_float
                return is_float(sv.t)
            return z3.BoolVal(False)
        if clsname == "UUID":
            if sv.k == "uuid":
                return z3.BoolVal(True)
            return is_VUuid(sv.t) if sv.k == "val" else z3.BoolVal(False)
        if clsname in ("bytes", "bytearray", "memoryview"):
            if sv.k == "blob":
                return z3.BoolVal(clsname == "bytes")
            if sv.k == "bytes":
                return z3.BoolVal(clsname in ("bytes", "bytearray"))
            if sv.k in ("ref", "none", "int", "bool", "str", "uuid", "tuple", "set", "list", "dict"):
                return z3.BoolVal(sv.k == "ref" and sv.cls == "UnknownData" and clsname == "bytes")
            if sv.k == "val" and clsname == "bytes":
                ci = eng.prog.find_class("UnknownData")
                kd = z3.Select(eng.field_array(st, "$kind"), ref(sv.t))
                return z3.Or(Val.is_VOpaque(sv.t), z3.And(is_VRef(sv.t), kd == self.class_id(ci.qual)) if ci else False)
        if clsname in NAMEDTUPLES:
            return z3.BoolVal(sv.cls == clsname)
        if clsname in ("Iterable", "typing.Iterable"):
            return z3.BoolVal(sv.k in ("set", "list", "tuple", "gen", "dict", "range", "bytes"))
        return None

    def set_item_special(self, eng, cont, slc, val, st):
        return False

    def get_item_special(self, eng, cont, idx, st):
        if cont.k in ("ref", "val") and cont.cls == "$Graph":
            return self.nx.getitem(eng, cont, idx, st)
        if cont.k == "nx_adj":
            return self.nx.adj_getitem(eng, cont, idx, st)
        if cont.k == "nx_attr":
            return self.nx.attr_getitem(eng, cont, idx, st)
        return None

    def contains_special(self, eng, cont, item, st):
        if cont.cls == "$Graph":
            return self.nx.contains(eng, cont, item, st)
        return None

    def get_attr_special(self, eng, obj, attr, st):
        if obj.k in ("ref", "val") and obj.cls in ("$IntervalTree", "$Graph", "$Stream"):
            return SV("boundbuiltin", x=(obj, attr))
        if obj.k in ("ref", "val") and (obj.cls or "").startswith("pb:"):
            return self.pb.get(eng, obj, attr, st)
        if obj.k == "pbsub":
            return self.pb.sub_get(eng, obj, attr, st)
        if obj.k in ("pbrep", "pbmap", "blob"):
            return SV("boundbuiltin", x=(obj, attr))
        if obj.k == "val" and obj.cls is None and attr == "value":
            # .value of a dynamically typed enum member
            st.oblige("safety.is_enum_member(.value)", is_VEnum(obj.t))
            return sv_int(enum_(obj.t))
        if obj.k == "val" and obj.cls is None and attr == "deep_eq":
            return SV("boundbuiltin", x=(obj, "deep_eq"))
        if obj.k == "val" and obj.cls is None and attr == "uuid":
            # .uuid of a dynamically typed node: every Node class stores it in the plain attribute set by Node.__init__
            r = eng.as_ref(obj, st, "receiver of .uuid")
            return eng.read_field(st, r, None, "uuid")
        if obj.k in ("int", "bool") and attr == "to_bytes":
            return SV("boundbuiltin", x=(obj, attr))
        if obj.k == "val" and obj.cls is None and attr == "to_bytes":
            return SV("boundbuiltin", x=(sv_int(eng.as_int(obj, st, "receiver of .to_bytes")), attr))
        if obj.k == "val" and obj.cls is None and attr == "encode":
            st.oblige("safety.is_str(receiver of .encode)", is_VStr(obj.t))
            return SV("boundbuiltin", x=(SV("str", sval(obj.t)), attr))
        if attr == "bytes" and (obj.k == "uuid" or (obj.k == "val" and obj.cls in (None, "UUID"))):
            from .iomodel import sv_blob, u2b
            if obj.k == "val":
                st.oblige("safety.is_uuid(.bytes)", Val.is_VUuid(obj.t))
                return sv_blob(u2b(Val.uval(obj.t)))
            return sv_blob(u2b(obj.t))
        if obj.k == "nx_keydict":
            return SV("boundbuiltin", x=(obj, attr))
        if obj.k == "tuple" and obj.cls in NAMEDTUPLES and attr in NAMEDTUPLES[obj.cls]:
            return obj.x[NAMEDTUPLES[obj.cls].index(attr)]
        if obj.k == "val" and obj.cls in NAMEDTUPLES and attr in NAMEDTUPLES[obj.cls]:
            t = obj.t
            for _ in range(NAMEDTUPLES[obj.cls].index(attr)):
                t = snd(t)
            fc = {"label": "EdgeLabel", "source": "CfgNode", "target": "CfgNode", "type": "EdgeType"}.get(attr)
            return SV("val", fst(t), cls=fc, x="enum" if attr == "type" else None)
        if obj.k == "val" and attr in ("begin", "end", "data") and obj.cls is None:
            # dynamically-typed interval (e.g. element of an IntervalTree)
            st.oblige("safety.is_interval(.%s)" % attr, is_VIv(obj.t))
            if attr == "begin":
                return sv_int(ivb(obj.t))
            if attr == "end":
                return sv_int(ive(obj.t))
            return SV("ref", ivd(obj.t))
        if obj.k == "val" and obj.cls is None and attr == "length":
            st.oblige("safety.is_interval(.length)", is_VIv(obj.t))
            return SV("boundbuiltin", x=(SV("iv", obj.t), "length"))
        return None

    def call_method_special(self, eng, obj, m, ci, args, kwargs, st):
        if m.qual.endswith(".deep_eq") and len(args) == 1 and obj.k in ("ref", "val"):
            # x.deep_eq(o) on a receiver whose dynamic class is not fixed by its static type (an abstract class such as
            # Block, or a class with subclasses): dynamic dispatch.  The result is the relation DEQ(x, o), which the
            # deep_eq contract of each concrete class characterises exactly for receivers of that class.
            cls = eng.prog.classes.get(obj.cls) if obj.cls else None
            has_sub = cls is None or any(cls in c.mro[1:] for c in eng.prog.classes.values())
            if has_sub:
                from specs.deepeq import DEQ
                return sv_bool(DEQ(eng.as_ref(obj, st, "receiver of .deep_eq"), to_val(args[0])))
        return None

    def class_attr_special(self, eng, ci, attr, st):
        if ci.qual == "AuxData" and attr == "serializer":
            # the one Serialization instance of the process (closed world: the default codec table)
            return SV("ref", z3.IntVal(-7), cls="Serialization")
        return None

    def global_name(self, eng, n, st):
        if n == "PROTOBUF_VERSION":
            # gtirb/version.py is generated from /repo/version.txt (VERSION_PROTOBUF) by the build
            from .overlay import protobuf_version
            return sv_int(z3.IntVal(protobuf_version()))
        return None

    def in_range(self, x, a, b, s):
        return InRange(x, a, b, s)

    def construct_special(self, eng, ci, args, kwargs, st):
        if ci.qual == "UnknownData":
            from .iomodel import as_blob
            return self.io.new_unknown_data(eng, st, as_blob(eng, args[0], st, "UnknownData(...)"))
        if ci.qual in NAMEDTUPLES:
            names = NAMEDTUPLES[ci.qual]
            vals = list(args) + [None] * (len(names) - len(args))
            for k, v in kwargs.items():
                vals[names.index(k)] = v
            defaults = {"Edge": {"label": sv_none()}, "EdgeLabel": {"conditional": sv_bool(False), "direct": sv_bool(True)}}
            for i, n in enumerate(names):
                if vals[i] is None:
                    vals[i] = defaults.get(ci.qual, {}).get(n)
                    if vals[i] is None:
                        raise Unsupported("missing field %s of %s" % (n, ci.qual))
            return SV("tuple", x=vals, cls=ci.qual)
        return None

    def bytes_repeat(self, eng, by, n, st):
        # b"\0" * n  (only single-byte literals are used in the code)
        if not (z3.is_int_value(z3.simplify(by.x)) and z3.simplify(by.x).as_long() == 1):
            raise Unsupported("bytes repeat of non-single byte")
        b0 = z3.Select(by.t, 0)
        ln = z3.If(n > 0, n, 0)
        return SV("bytes", z3.K(Int, b0), x=ln)

    # ----------------------------------------------------------- builtin functions
    def call_builtin(self, eng, name, args, kwargs, st, node):
        base = name.split(".")[-1]
        if name in ("typing.cast", "cast"):
            return args[1]
        if name == "len":
            return self.len_(eng, args[0], st)
        if name == "isinstance":
            c = args[1]
            if c.k == "cls":
                return sv_bool(eng.isinstance_(args[0], c.x.qual, st))
            if c.k == "builtin" and "_pb2." in c.x:
                return sv_bool(z3.BoolVal(args[0].cls == "pb:" + c.x.split(".")[-1]))
            if c.k == "builtin":
                return sv_bool(eng.isinstance_(args[0], c.x.split(".")[-1], st))
            if c.k == "tuple":
                return sv_bool(z3.Or([eng.isinstance_(args[0], (e.x.qual if e.k == "cls" else e.x.split(".")[-1]), st)
                                      for e in c.x]))
            raise Unsupported("isinstance class arg")
        if name == "range":
            ints = [a if a.k == "int" else sv_int(eng.as_int(a, st)) for a in args]
            if len(ints) == 1:
                return SV("range", x=(sv_int(0), ints[0], sv_int(1)))
            if len(ints) == 2:
                return SV("range", x=(ints[0], ints[1], sv_int(1)))
            if len(ints) == 3:
                return SV("range", x=tuple(ints))
        if name in ("max", "min"):
            xs = [eng.as_int(a, st) for a in args]
            acc = xs[0]
            for x in xs[1:]:
                acc = z3.If(x > acc, x, acc) if name == "max" else z3.If(x < acc, x, acc)
            return sv_int(acc)
        if name == "set":
            if not args:
                return sv_set(EmptySet)
            if len(args) != 1:
                s2 = st.fork()
                eng.exc_paths.append((s2, Exc("TypeError")))
                st.assume(z3.BoolVal(False))
                return sv_set(EmptySet)
            a = args[0]
            if a.k == "star":
                raise Unsupported("set(*x) with symbolic arity")
            return eng.as_set(a, st) if a.k != "set" else sv_set(a.t)
        if name == "list":
            if not args:
                return SV("list", z3.K(Int, VNone), x=z3.IntVal(0))
            a = args[0]
            if a.k == "list":
                return SV("list", a.t, x=a.x)
            return eng.as_list(a, st)
        if name == "tuple":
            if not args:
                return sv_tuple([])
            if args[0].k == "tuple":
                return args[0]
            if args[0].k == "list":
                # tuple(list): an immutable copy; a tuple of symbolic length is kept in the list representation
                return SV("list", args[0].t, x=args[0].x, cls="tuple")
            raise Unsupported("tuple(x)")
        if name == "dict":
            if not args:
                return SV("dict", z3.K(Val, VNone), x=(EmptySet, "val"))
            if len(args) == 1 and args[0].k == "dict":
                return SV("dict", args[0].t, x=args[0].x)
            raise Unsupported("dict(x)")
        if name == "bool":
            return sv_bool(eng.truthy(args[0], st))
        if name == "int":
            return sv_int(eng.as_int(args[0], st))
        if name == "iter":
            a = args[0]
            if a.k in ("ref", "val") and a.cls:
                ci = eng.prog.classes.get(a.cls)
                if ci is not None and ci.lookup("__iter__"):
                    return eng.call_method(a, ci, "__iter__", [], {}, st)
            return a
        if name == "next":
            # next(iterator over a set): StopIteration when exhausted, else some element (arbitrary choice)
            a = args[0]
            if a.k != "set":
                raise Unsupported("next() on %s" % a.k)
            s2 = st.fork()
            s2.assume(a.t == EmptySet)
            eng.exc_paths.append((s2, Exc("StopIteration")))
            st.assume(a.t != EmptySet)
            x = fresh("next", Val)
            st.define(z3.Select(a.t, x))
            return eng.schema.refine(SV("val", x, cls=a.cls))
        if name == "bytearray" or name == "bytes":
            if not args:
                return SV("bytes", z3.K(Int, VInt(0)), x=z3.IntVal(0))
            a = args[0]
            if a.k == "bytes":
                return SV("bytes", a.t, x=a.x)
            if a.k == "blob":
                # bytearray(b) / bytes(b) of an immutable byte string: the array of its bytes
                items = fresh("ba", z3.ArraySort(Int, Val))
                i = fresh("i", Int)
                st.define(z3.ForAll([i], z3.Implies(z3.And(0 <= i, i < z3.Length(a.t)), z3.Select(items, i) == VInt(a.t[i]))))
                return SV("bytes", items, x=z3.Length(a.t))
            if name == "bytes" and a.k in ("list", "tuple"):
                # bytes([b0, b1, ...]) of a display of known length: ValueError outside 0..255
                items = a.x if a.k == "tuple" else None
                if items is None:
                    n = z3.simplify(a.x)
                    if not z3.is_int_value(n) or n.as_long() > 16:
                        raise Unsupported("bytes(list of symbolic length)")
                    items = [SV("val", z3.Select(a.t, i)) for i in range(n.as_long())]
                from .iomodel import sv_blob, BSeq
                units = []
                for it in items:
                    x = eng.as_int(it, st, "element of bytes([...])")
                    s2 = st.fork()
                    s2.assume(z3.Not(z3.And(0 <= x, x <= 255)))
                    eng.exc_paths.append((s2, Exc("ValueError")))
                    st.assume(z3.And(0 <= x, x <= 255))
                    units.append(z3.Unit(x))
                return sv_blob(z3.Concat(*units) if len(units) > 1 else (units[0] if units else z3.Empty(BSeq)))
            raise Unsupported("%s(x)" % name)
        if name == "getattr":
            if args[1].k == "str" and z3.is_string_value(args[1].t):
                return eng.get_attr(args[0], args[1].t.as_string(), st)
            if args[1].k == "py" and isinstance(args[1].x, str):
                return eng.get_attr(args[0], args[1].x, st)
            # symbolic attribute name: case split over the names the code base ever stores in such a field
            cands = ["sections", "symbols", "proxies"] if args[0].cls == "Module" else None
            if cands and args[1].k in ("val", "str"):
                nm = to_val(args[1])
                st.oblige("safety.getattr_name_known", z3.Or([nm == VStr(z3.StringVal(c)) for c in cands]))
                res = eng.get_attr(args[0], cands[-1], st)
                for c in reversed(cands[:-1]):
                    res = eng.ite(nm == VStr(z3.StringVal(c)), eng.get_attr(args[0], c, st), res, st)
                return res
            raise Unsupported("getattr with symbolic name")
        if name == "setattr":
            nm = args[1]
            if nm.k == "str" and z3.is_string_value(nm.t):
                nm = nm.t.as_string()
            elif nm.k == "py":
                nm = nm.x
            else:
                raise Unsupported("setattr with symbolic name")
            r = eng.as_ref(args[0], st)
            eng.write_field(st, r, args[0].cls, nm, args[2])
            return sv_none()
        if name == "int.__index__":
            return args[0]
        if name == "type":
            # type(x): compared by identity only; represented by the class id
            a = args[0]
            if a.k in ("ref", "val"):
                r = eng.as_ref(a, st, "argument of type()")
                return SV("int", z3.Select(eng.field_array(st, "$kind"), r))
            raise Unsupported("type() of %s" % a.k)
        if name == "super":
            return SV("super", x=(eng.cur_fn.cls, st.env.get(eng.cur_fn.params()[0][0])))
        if name.startswith("intervaltree.Interval") or name == "Interval":
            b, e = eng.as_int(args[0], st), eng.as_int(args[1], st)
            d = eng.as_ref(args[2], st)
            return SV("iv", VIv(b, e, d), x=args[2].cls)
        if name == "IntervalTree":
            return self.new_tree(eng, args, st)
        if name == "MultiDiGraph":
            return self.nx.new_graph(eng, st)
        if name in ("collections.defaultdict", "defaultdict") and len(args) == 1 and args[0].k == "builtin" and args[0].x == "set":
            # collections.defaultdict(set): an empty dict of sets
            from .core import EmptySet as _E
            return SV("dict", z3.K(Val, _E), x=(_E, "set"), cls="defaultdict:set")
        if name in ("SortedDict", "sortedcontainers.SortedDict") and not args and not kwargs:
            return SV("dict", z3.K(Val, VNone), x=(EmptySet, "val"), cls="SortedDict")     # an empty sorted mapping
        if name == "zip" and len(args) == 2 and args[0].k == "seq" and args[1].k == "seq":
            # zip of two sequences: pairs (a[i], b[i]) for i below the shorter length, in order (iterated in invariant mode)
            return SV("zip", x=(args[0], args[1]))
        if name == "itertools.chain.from_iterable":
            outer = eng.bags_of(args[0], st)
            res = []
            for ob in outer:
                # the inner iterable is evaluated for an element of the outer one: its membership condition holds
                s_in = st.fork()
                s_in.assume(z3.And(ob.cond, ob.defs), "element of the outer iterable")
                inner = eng.bags_of(ob.elem, s_in)
                for ib in inner:
                    res.append(Bag(ob.binders + ib.binders, z3.And(ob.cond, ib.cond), ib.elem, tag=ib.tag,
                                   defs=z3.And(ob.defs, ib.defs), aux=ob.aux + ib.aux))
            return SV("gen", x=res)
        if name == "itertools.chain":
            res = []
            for a in args:
                res += eng.bags_of(a, st)
            return SV("gen", x=res)
        if base == "auto":
            raise Unsupported("enum.auto outside class table")
        if "_pb2." in name and name.split(".")[-1] in self.pb.msgs and not args and not kwargs:
            return self.pb.new(eng, st, name.split(".")[-1])
        r = self.io.call_builtin(eng, name, args, kwargs, st)
        if r is not None:
            return r
        raise Unsupported("builtin %s" % name)

    def len_(self, eng, a, st):
        k = a.k
        if k == "set":
            st.facts.append(Card(a.t) >= 0)
            st.facts.append((Card(a.t) == 0) == (a.t == EmptySet))
            return sv_int(Card(a.t))
        if k in ("list", "bytes"):
            return sv_int(a.x)
        if k == "seq":
            return sv_int(z3.Length(a.t))
        if k == "mapseq":
            return sv_int(z3.Length(a.x[0].t))
        if k == "dict":
            st.facts.append(Card(a.x[0]) >= 0)
            st.facts.append((Card(a.x[0]) == 0) == (a.x[0] == EmptySet))
            return sv_int(Card(a.x[0]))
        if k == "tuple":
            return sv_int(len(a.x))
        if k in ("ref", "val"):
            if a.cls == "$IntervalTree":
                r = eng.as_ref(a, st)
                c = z3.Select(eng.field_array(st, "$tree_content"), r)
                st.facts.append(Card(c) >= 0)
                st.facts.append((Card(c) == 0) == (c == EmptySet))
                return sv_int(Card(c))
            ci = eng.prog.classes.get(a.cls) if a.cls else None
            if ci is not None and ci.lookup("__len__"):
                return eng.call_method(a, ci, "__len__", [], {}, st)
        if k == "str" or k == "blob":
            return sv_int(z3.Length(a.t))
        if k == "nx_edgeview":
            E = self.nx.edges(eng, st, a.x[0])
            st.facts.append(Card(E) >= 0)
            return sv_int(Card(E))
        raise Unsupported("len of %s (cls=%s)" % (k, a.cls))

    # ----------------------------------------------------------- IntervalTree (assumed contract)
    def new_tree(self, eng, args, st):
        """IntervalTree(iterable of Interval): content = set of the intervals.
        (ValueError for null intervals cannot occur: all intervals built by gtirb have end >= begin+1.)"""
        r = eng.fresh_object(st, "$IntervalTree")
        if args:
            content = eng.as_set(args[0], st).t
            v = fresh("v", Val)
            st.oblige("dep.IntervalTree.pre.no_null_interval",
                      z3.ForAll([v], z3.Implies(z3.Select(content, v), z3.And(is_VIv(v), ivb(v) < ive(v)))))
        else:
            content = EmptySet
        st.heap["$tree_content"] = z3.Store(eng.field_array(st, "$tree_content"), r, content)
        return SV("ref", r, cls="$IntervalTree")

    # ----------------------------------------------------------- methods of builtin-typed values
    def call_builtin_method(self, eng, obj, name, args, kwargs, st, node):
        k = obj.k
        if k in ("ref", "val") and obj.cls == self.io.STREAM:
            return self.io.stream_method(eng, obj, name, args, kwargs, st)
        if (k in ("ref", "val") and (obj.cls or "").startswith("pb:")) or k in ("pbsub", "pbrep", "pbmap"):
            return self.pb.method(eng, obj, name, args, kwargs, st)
        if k == "val" and name == "deep_eq" and len(args) == 1:
            # dynamic dispatch on a dynamically typed node: the relation the per-class contracts characterise
            from specs.deepeq import DEQ
            return sv_bool(DEQ(eng.as_ref(obj, st, "receiver of .deep_eq"), to_val(args[0])))
        if k == "blob":
            return self.io.blob_method(eng, obj, name, args, kwargs, st)
        if k in ("int", "bool") and name == "to_bytes":
            return self.io.int_method(eng, obj, name, args, kwargs, st)
        if k == "str" and name == "encode":
            return self.io.str_method(eng, obj, name, args, kwargs, st)
        if k == "set":
            return self.set_method(eng, obj, name, args, st)
        if k == "mapseq":
            if name == "items" and not args:
                # the pairs (keys[i], vals[i]) in iteration order (iterated in invariant mode, like zip)
                return SV("zip", x=obj.x)
            raise Unsupported("mapseq.%s" % name)
        if k == "dict":
            return self.dict_method(eng, obj, name, args, kwargs, st)
        if k == "list":
            return self.list_method(eng, obj, name, args, st)
        if k == "seq":
            if name == "append":
                self._wb(obj, SV("seq", z3.Concat(obj.t, z3.Unit(to_val(args[0]))), cls=obj.cls), st)
                return sv_none()
            if name == "clear":
                self._wb(obj, SV("seq", z3.Empty(z3.SeqSort(Val)), cls=obj.cls), st)
                return sv_none()
            raise Unsupported("seq.%s" % name)
        if k == "iv":
            if name == "length":
                d = ive(obj.t) - ivb(obj.t)
                return sv_int(z3.If(d > 0, d, 0))
        if k in ("ref", "val") and obj.cls == "$IntervalTree":
            return self.tree_method(eng, obj, name, args, st)
        if k in ("int", "bool") and name == "__index__":
            return obj
        if k in ("ref", "val") and obj.cls == "$Graph":
            return self.nx.method(eng, obj, name, args, kwargs, st)
        if k == "nx_keydict" and name == "items":
            return self.nx.keydict_items(eng, obj, st)
        raise Unsupported("method .%s on %s" % (name, k))

    def set_method(self, eng, obj, name, args, st):
        if name == "add":
            x = to_val(args[0])
            eng.card_axioms_store(st, obj.t, x, True)
            new = sv_set(z3.Store(obj.t, x, True))
            self._wb(obj, new, st)
            return sv_none()
        if name == "discard":
            x = to_val(args[0])
            eng.card_axioms_store(st, obj.t, x, False)
            new = sv_set(z3.Store(obj.t, x, False))
            self._wb(obj, new, st)
            return sv_none()
        if name == "update":
            cur = obj.t
            for a in args:
                other = eng.as_set(a, st).t
                u = fresh("U", SetSort)
                x = fresh("x", Val)
                st.define(z3.ForAll([x], z3.Select(u, x) == z3.Or(z3.Select(cur, x), z3.Select(other, x))))
                cur = u
            self._wb(obj, sv_set(cur), st)
            return sv_none()
        if name == "clear":
            self._wb(obj, SV("set", EmptySet, cls=obj.cls), st)
            return sv_none()
        if name == "remove":
            x = to_val(args[0])
            s2 = st.fork()
            s2.assume(z3.Not(z3.Select(obj.t, x)))
            eng.exc_paths.append((s2, Exc("KeyError")))
            st.assume(z3.Select(obj.t, x))
            eng.card_axioms_store(st, obj.t, x, False)
            self._wb(obj, SV("set", z3.Store(obj.t, x, False), cls=obj.cls), st)
            return sv_none()
        if name == "pop":
            s2 = st.fork()
            s2.assume(obj.t == EmptySet)
            eng.exc_paths.append((s2, Exc("KeyError")))
            st.assume(obj.t != EmptySet)
            x = fresh("popped", Val)
            st.define(z3.Select(obj.t, x))
            eng.card_axioms_store(st, obj.t, x, False)
            self._wb(obj, SV("set", z3.Store(obj.t, x, False), cls=obj.cls), st)
            return eng.schema.refine(SV("val", x, cls=obj.cls))
        if name == "copy":
            return SV("set", obj.t, cls=obj.cls)
        if name in ("difference_update", "intersection_update"):
            other = eng.as_set(args[0], st).t
            u = fresh("U", SetSort)
            x = fresh("x", Val)
            keep = z3.Not(z3.Select(other, x)) if name == "difference_update" else z3.Select(other, x)
            st.define(z3.ForAll([x], z3.Select(u, x) == z3.And(z3.Select(obj.t, x), keep)))
            self._wb(obj, SV("set", u, cls=obj.cls), st)
            return sv_none()
        if name == "union":
            cur = obj.t
            for a in args:
                if a.k == "star":
                    raise Unsupported("union(*x)")
                other = eng.as_set(a, st).t
                if z3.eq(z3.simplify(other), z3.simplify(EmptySet)):
                    continue            # union with a literally empty operand
                u = fresh("U", SetSort)
                x = fresh("x", Val)
                st.define(z3.ForAll([x], z3.Select(u, x) == z3.Or(z3.Select(cur, x), z3.Select(other, x))))
                cur = u
            return sv_set(cur)
        raise Unsupported("set.%s" % name)

    def _wb(self, obj, new, st):
        if obj.wb is None:
            raise Unsupported("in-place mutation of a container value without origin")
        obj.wb(st, new)

    def dict_method(self, eng, obj, name, args, kwargs, st):
        dom, vk = obj.x
        if name == "get":
            key = to_val(args[0])
            present = z3.Select(dom, key)
            if vk == "val":
                dflt = to_val(args[1]) if len(args) > 1 else VNone
                return SV("val", z3.If(present, z3.Select(obj.t, key), dflt))
            # dict of sets: returns the set or None; model as optional set via (present, set)
            elem = {"_symbol_name_index": "Symbol", "_symbol_referent_index": "Symbol"}.get(
                (obj.cls or "").split("@")[-1]) if obj.cls else None
            return SV("optset", z3.Select(obj.t, key), x=present, cls="Symbol" if obj.cls == "defaultdict:set" else None)
        if name == "items":
            x = fresh("k", Val)
            if vk != "val":
                raise Unsupported("items() of dict of sets")
            return SV("gen", x=[Bag([x], z3.Select(dom, x), sv_tuple([SV("val", x), SV("val", z3.Select(obj.t, x))]))])
        if name == "keys":
            return sv_set(dom)
        if name == "irange":
            # sortedcontainers.SortedDict.irange(min, max, inclusive=(True, False)) (assumed contract): exactly the
            # integer keys k with min <= k < max, in increasing order
            inc = kwargs.get("inclusive")
            if inc is None or inc.k != "tuple" or len(inc.x) != 2:
                raise Unsupported("irange without explicit inclusive=(True, False)")
            c0, c1 = z3.simplify(eng.truthy(inc.x[0], st)), z3.simplify(eng.truthy(inc.x[1], st))
            if not (z3.is_true(c0) and z3.is_false(c1)):
                raise Unsupported("irange inclusive flags other than (True, False)")
            lo, hi = eng.as_int(args[0], st), eng.as_int(args[1], st)
            x = fresh("k", Val)
            return SV("gen", x=[Bag([x], z3.And(z3.Select(dom, x), is_VInt(x), lo <= ival(x), ival(x) < hi),
                                    sv_int(ival(x)), order=ival(x))])
        if name == "clear":
            new = SV("dict", z3.K(Val, VNone) if vk == "val" else z3.K(Val, EmptySet), x=(EmptySet, vk), cls=obj.cls)
            self._wb(obj, new, st)
            return sv_none()
        raise Unsupported("dict.%s" % name)

    def list_method(self, eng, obj, name, args, st):
        if name == "insert":
            # list.insert(i, x): index clamped into [0, len] (negative indices count from the end)
            i = eng.as_int(args[0], st)
            n = obj.x
            i = z3.If(i < 0, z3.If(i + n < 0, 0, i + n), z3.If(i > n, n, i))
            new_items = fresh("ins", z3.ArraySort(Int, Val))
            j = fresh("j", Int)
            st.define(z3.ForAll([j], z3.Select(new_items, j) == z3.If(j < i, z3.Select(obj.t, j),
                                                                        z3.If(j == i, to_val(args[1]),
                                                                              z3.Select(obj.t, j - 1)))))
            self._wb(obj, SV("list", new_items, x=n + 1, cls=obj.cls), st)
            st.ghost_last_insert = i
            return sv_none()
        if name == "index":
            # first position holding an equal element; ValueError if absent
            x = to_val(args[0])
            k = fresh("idx", Int)
            j = fresh("j", Int)
            absent = z3.ForAll([j], z3.Implies(z3.And(0 <= j, j < obj.x), z3.Select(obj.t, j) != x))
            s2 = st.fork()
            s2.assume(absent)
            eng.exc_paths.append((s2, Exc("ValueError")))
            st.assume(z3.Not(absent))
            st.define(z3.And(0 <= k, k < obj.x, z3.Select(obj.t, k) == x,
                             z3.ForAll([j], z3.Implies(z3.And(0 <= j, j < k), z3.Select(obj.t, j) != x))))
            return sv_int(k)
        if name == "append":
            new = SV("list", z3.Store(obj.t, obj.x, to_val(args[0])), x=obj.x + 1, cls=obj.cls)
            self._wb(obj, new, st)
            return sv_none()
        if name == "clear":
            new = SV("list", obj.t, x=z3.IntVal(0), cls=obj.cls)
            self._wb(obj, new, st)
            return sv_none()
        if name == "pop" and not args:
            # list.pop(): IndexError on an empty list, else removes and returns the last element
            s2 = st.fork()
            s2.assume(obj.x <= 0)
            eng.exc_paths.append((s2, Exc("IndexError")))
            st.assume(obj.x > 0)
            last = z3.Select(obj.t, obj.x - 1)
            self._wb(obj, SV("list", obj.t, x=obj.x - 1, cls=obj.cls), st)
            return eng.schema.refine(SV("val", last, cls=obj.cls))
        raise Unsupported("list.%s" % name)

    def tree_method(self, eng, obj, name, args, st):
        r = eng.as_ref(obj, st)
        content = z3.Select(eng.field_array(st, "$tree_content"), r)
        if name == "overlap":
            b, e = eng.as_int(args[0], st), eng.as_int(args[1], st)
            v = fresh("iv", Val)
            return SV("gen", x=[Bag([v], z3.And(z3.Select(content, v), is_VIv(v), b < e, ivb(v) < e, ive(v) > b),
                                    SV("iv", v, x=obj.x))])
        if name in ("add", "discard"):
            x = to_val(args[0])
            eng.card_axioms_store(st, content, x, name == "add")
            st.heap["$tree_content"] = z3.Store(eng.field_array(st, "$tree_content"), r,
                                                z3.Store(content, x, name == "add"))
            return sv_none()
        if name == "update":
            other = eng.as_set(args[0], st).t
            u = fresh("U", SetSort)
            x = fresh("x", Val)
            st.define(z3.ForAll([x], z3.Select(u, x) == z3.Or(z3.Select(content, x), z3.Select(other, x))))
            st.heap["$tree_content"] = z3.Store(eng.field_array(st, "$tree_content"), r, u)
            return sv_none()
        if name == "remove":
            x = to_val(args[0])
            s2 = st.fork()
            s2.assume(z3.Not(z3.Select(content, x)))
            eng.exc_paths.append((s2, Exc("ValueError")))
            st.assume(z3.Select(content, x))
            eng.card_axioms_store(st, content, x, False)
            st.heap["$tree_content"] = z3.Store(eng.field_array(st, "$tree_content"), r, z3.Store(content, x, False))
            return sv_none()
        if name == "clear":
            st.heap["$tree_content"] = z3.Store(eng.field_array(st, "$tree_content"), r, EmptySet)
            return sv_none()
        if name in ("begin", "end", "span"):
            # assumed contract of intervaltree: begin() = least begin, end() = greatest end (0 if empty)
            v = fresh("v", Val)
            lo = fresh("tree_begin", Int)
            hi = fresh("tree_end", Int)
            nonempty = content != EmptySet
            w1 = fresh("wlo", Val)
            w2 = fresh("whi", Val)
            st.define(z3.Implies(nonempty, z3.And(
                z3.ForAll([v], z3.Implies(z3.Select(content, v), z3.And(lo <= ivb(v), ive(v) <= hi))),
                z3.Select(content, w1), ivb(w1) == lo, z3.Select(content, w2), ive(w2) == hi)))
            st.define(z3.Implies(z3.Not(nonempty), z3.And(lo == 0, hi == 0)))
            return sv_int({"begin": lo, "end": hi, "span": hi - lo}[name])
        raise Unsupported("IntervalTree.%s" % name)
