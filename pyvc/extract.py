"""Extractor: re-reads /repo/python/gtirb/*.py on every run and builds a class table.

Nothing is copied by hand: the AST nodes handed to the symbolic executor are the
``ast.FunctionDef`` / ``ast.Lambda`` nodes of the files under /repo at the time of
the run.  What extraction drops (complete list, also reported in the evidence):

  * type annotations and ``typing.cast(T, x)`` (-> x)
  * docstrings (leading string-expression statements)
  * ``@typing.overload`` stubs
  * ``if typing.TYPE_CHECKING:`` import blocks
  * comments (incl. ``# type:`` / ``# pragma``)
  * ``__repr__`` / ``__str__`` bodies (never under contract)
"""
import ast
import hashlib
import os

REPO = os.environ.get("VERIF_REPO", "/repo")
PKG = os.path.join(REPO, "python", "gtirb")

EXTRACTION_DROPS = [
    "type annotations and typing.cast(T, x) (treated as x)",
    "docstrings",
    "@typing.overload stubs",
    "if typing.TYPE_CHECKING: import blocks",
    "comments (# type:, # pragma)",
    "__repr__/__str__ bodies (never under contract)",
    "decorators: only property / setter / staticmethod / classmethod / overload / abstractmethod are understood; a function "
    "with any other decorator is outside the subset (never silently treated as undecorated)",
]


class FuncInfo:
    def __init__(self, qual, node, file, cls=None, kind="method"):
        self.qual = qual          # e.g. "ByteInterval._BlockSet.update" or "get_desired_range"
        self.node = node          # ast.FunctionDef | ast.Lambda
        # decorators that change what a call does (anything but the structural ones) are not modelled: calls to such a
        # function are outside the subset
        decos = [ast.unparse(d) for d in getattr(node, "decorator_list", [])]
        self.foreign_decorators = [d for d in decos if not (d in ("property", "staticmethod", "classmethod", "abstractmethod",
                                                                  "abc.abstractmethod", "typing.overload", "overload")
                                                            or d.endswith(".setter") or d.endswith(".getter"))]
        self.file = file          # file name relative to python/gtirb
        self.cls = cls            # owning ClassInfo or None
        self.kind = kind          # method | staticmethod | classmethod | getter | setter | function | lambda

    @property
    def lines(self):
        return (self.node.lineno, getattr(self.node, "end_lineno", self.node.lineno))

    def ast_hash(self):
        return hashlib.sha256(ast.dump(self.node, include_attributes=False).encode()).hexdigest()[:16]

    def params(self):
        a = self.node.args
        names = [x.arg for x in a.posonlyargs + a.args]
        kwonly = [x.arg for x in a.kwonlyargs]
        return names, a.vararg.arg if a.vararg else None, kwonly

    def defaults(self):
        """name -> default AST expr"""
        a = self.node.args
        pos = a.posonlyargs + a.args
        out = {}
        for p, d in zip(pos[len(pos) - len(a.defaults):], a.defaults):
            out[p.arg] = d
        for p, d in zip(a.kwonlyargs, a.kw_defaults):
            if d is not None:
                out[p.arg] = d
        return out

    def annotation(self, pname):
        a = self.node.args
        for x in a.posonlyargs + a.args + a.kwonlyargs + ([a.vararg] if a.vararg else []):
            if x.arg == pname:
                return x.annotation
        return None

    def is_generator(self):
        if isinstance(self.node, ast.Lambda):
            return False
        for n in _walk_no_nested(self.node):
            if isinstance(n, (ast.Yield, ast.YieldFrom)):
                return True
        return False


def _walk_no_nested(fn):
    """Walk a function body without descending into nested defs/lambdas."""
    stack = list(fn.body)
    while stack:
        n = stack.pop()
        if isinstance(n, (ast.FunctionDef, ast.Lambda, ast.AsyncFunctionDef, ast.ClassDef)):
            continue
        yield n
        for c in ast.iter_child_nodes(n):
            if isinstance(c, (ast.FunctionDef, ast.Lambda, ast.AsyncFunctionDef, ast.ClassDef)):
                continue
            stack.append(c)


class ClassInfo:
    def __init__(self, qual, node, file, outer=None):
        self.qual = qual
        self.name = node.name
        self.node = node
        self.file = file
        self.outer = outer
        self.base_exprs = [ast.unparse(b) for b in node.bases]
        self.bases = []           # resolved ClassInfo (in-package only)
        self.methods = {}         # name -> FuncInfo (method/static/class)
        self.getters = {}         # property name -> FuncInfo
        self.setters = {}
        self.descriptors = {}     # attr name -> FuncInfo(kind=lambda) parent getter
        self.consts = {}          # class-level constant assignments: name -> ast expr
        self.enum_members = {}    # NAME -> (pb2 module, pb2 enum, const name) for Enum classes
        self.enum_auto = {}       # NAME -> int for members defined with enum.auto() (1-based, in order)
        self.is_enum = False
        self.mro = []

    def lookup(self, name):
        for c in self.mro:
            if name in c.methods:
                return c.methods[name]
        return None

    def lookup_getter(self, name):
        for c in self.mro:
            if name in c.getters:
                return c.getters[name]
            if name in c.methods or name in c.descriptors:
                return None
        return None

    def lookup_setter(self, name):
        for c in self.mro:
            if name in c.setters:
                return c.setters[name]
        return None

    def lookup_descriptor(self, name):
        for c in self.mro:
            if name in c.descriptors:
                return c.descriptors[name]
            if name in c.getters or name in c.methods:
                return None
        return None

    def lookup_const(self, name):
        for c in self.mro:
            if name in c.consts:
                return c.consts[name]
        return None

    def is_subclass_of(self, other):
        return other in self.mro


class Program:
    def __init__(self, pkg=None):
        self.pkg = pkg or PKG
        self.files = {}       # filename -> ast.Module
        self.sources = {}
        self.classes = {}     # qual -> ClassInfo ; also simple name -> ClassInfo when unique
        self.by_simple = {}
        self.functions = {}   # module-level: "util.py::name" and bare name -> FuncInfo
        self.module_consts = {}  # (file, name) -> ast expr
        self._load()

    def _load(self):
        for fn in sorted(os.listdir(self.pkg)):
            if not fn.endswith(".py") or fn in ("version.py",):
                continue
            path = os.path.join(self.pkg, fn)
            with open(path) as f:
                src = f.read()
            self.sources[fn] = src
            tree = ast.parse(src, filename=path)
            self.files[fn] = tree
            for node in tree.body:
                self._top(node, fn)
        self._resolve()

    def _top(self, node, fn):
        if isinstance(node, ast.ClassDef):
            self._class(node, fn, None)
        elif isinstance(node, ast.FunctionDef):
            fi = FuncInfo(node.name, node, fn, None, "function")
            self.functions[fn + "::" + node.name] = fi
            self.functions.setdefault(node.name, fi)
        elif isinstance(node, ast.Assign) and len(node.targets) == 1 and isinstance(node.targets[0], ast.Name):
            self.module_consts[(fn, node.targets[0].id)] = node.value

    def _class(self, node, fn, outer):
        qual = (outer.qual + "." if outer else "") + node.name
        ci = ClassInfo(qual, node, fn, outer)
        self.classes[qual] = ci
        self.by_simple.setdefault(node.name, []).append(ci)
        for st in node.body:
            if isinstance(st, ast.ClassDef):
                self._class(st, fn, ci)
            elif isinstance(st, ast.FunctionDef):
                decos = [ast.unparse(d) for d in st.decorator_list]
                if any(d.endswith("overload") for d in decos):
                    continue
                kind = "method"
                if "staticmethod" in decos:
                    kind = "staticmethod"
                elif "classmethod" in decos:
                    kind = "classmethod"
                if "property" in decos:
                    ci.getters[st.name] = FuncInfo(qual + "." + st.name, st, fn, ci, "getter")
                elif any(d.endswith(".setter") for d in decos):
                    ci.setters[st.name] = FuncInfo(qual + "." + st.name + ".setter", st, fn, ci, "setter")
                else:
                    ci.methods[st.name] = FuncInfo(qual + "." + st.name, st, fn, ci, kind)
            elif isinstance(st, (ast.Assign, ast.AnnAssign)):
                if isinstance(st, ast.Assign):
                    if len(st.targets) != 1 or not isinstance(st.targets[0], ast.Name):
                        continue
                    name, value = st.targets[0].id, st.value
                else:
                    if not isinstance(st.target, ast.Name) or st.value is None:
                        continue
                    name, value = st.target.id, st.value
                lam = _indexed_attribute_lambda(value)
                if lam is not None:
                    ci.descriptors[name] = FuncInfo(qual + "." + name + ".<parent_getter>", lam, fn, ci, "lambda")
                else:
                    ci.consts[name] = value
                    em = _enum_member(value)
                    if em is not None:
                        ci.enum_members[name] = em
                    if isinstance(value, ast.Call) and ast.unparse(value.func) in ("enum.auto", "auto"):
                        ci.enum_auto[name] = len(ci.enum_auto) + 1

    def _resolve(self):
        for ci in self.classes.values():
            for b in ci.base_exprs:
                base = b.split("[")[0]
                target = self.find_class(base, ci)
                if target is not None:
                    ci.bases.append(target)
                if base.split(".")[-1] == "Enum":
                    ci.is_enum = True
        # MRO through dummy python classes (C3)
        dummies = {}

        def mk(ci):
            if ci.qual in dummies:
                return dummies[ci.qual]
            bases = tuple(mk(b) for b in ci.bases) or (object,)
            d = type(ci.qual, bases, {})
            d._ci = ci
            dummies[ci.qual] = d
            return d

        for ci in self.classes.values():
            d = mk(ci)
            ci.mro = [c._ci for c in d.__mro__ if hasattr(c, "_ci")]

    def find_class(self, name, ctx=None):
        """Resolve a (possibly dotted, possibly quoted) class name."""
        name = name.strip("'\"")
        if name in self.classes:
            return self.classes[name]
        # nested relative to context's outer
        c = ctx
        while c is not None:
            q = c.qual + "." + name
            if q in self.classes:
                return self.classes[q]
            c = c.outer
        simple = name.split(".")[-1]
        cands = self.by_simple.get(simple, [])
        if len(cands) == 1:
            return cands[0]
        for cand in cands:
            if cand.qual.endswith(name):
                return cand
        return None

    def find_function(self, target):
        """target: 'file.py::Qual.name' | 'file.py::func' | + '.setter' / '.getter' / '.<parent_getter>'
        and nested functions as 'file.py::Outer.method/<inner>'"""
        if target.startswith("mro:"):
            # "mro:Class.method": the method an instance of Class actually runs (own or inherited)
            cname, _, mname = target[4:].rpartition(".")
            ci = self.classes.get(cname)
            return ci.lookup(mname) if ci is not None else None
        file, _, qual = target.partition("::")
        inner = None
        if "/" in qual:
            qual, _, inner = qual.partition("/")
        fi = None
        if file + "::" + qual in self.functions:
            fi = self.functions[file + "::" + qual]
        else:
            parts = qual.split(".")
            suffix = None
            if parts[-1] in ("setter", "getter", "<parent_getter>"):
                suffix = parts.pop()
            cname, mname = ".".join(parts[:-1]), parts[-1]
            ci = self.classes.get(cname)
            if ci is not None and ci.file == file:
                if suffix == "setter":
                    fi = ci.setters.get(mname)
                elif suffix == "getter":
                    fi = ci.getters.get(mname)
                elif suffix == "<parent_getter>":
                    fi = ci.descriptors.get(mname)
                else:
                    fi = ci.methods.get(mname) or ci.getters.get(mname)
        if fi is None:
            return None
        if inner:
            for n in ast.walk(fi.node):
                if isinstance(n, ast.FunctionDef) and n.name == inner and n is not fi.node:
                    return FuncInfo(fi.qual + "/" + inner, n, fi.file, fi.cls, "nested")
            return None
        return fi


def _indexed_attribute_lambda(value):
    # _IndexedAttribute[T]()(lambda self: self.X)
    if (isinstance(value, ast.Call) and len(value.args) == 1 and isinstance(value.args[0], ast.Lambda)
            and isinstance(value.func, ast.Call) and isinstance(value.func.func, ast.Subscript)
            and ast.unparse(value.func.func.value) == "_IndexedAttribute"):
        return value.args[0]
    return None


def _enum_member(value):
    # X_pb2.EnumName.Value("CONST")
    if (isinstance(value, ast.Call) and isinstance(value.func, ast.Attribute) and value.func.attr == "Value"
            and len(value.args) == 1 and isinstance(value.args[0], ast.Constant)
            and isinstance(value.func.value, ast.Attribute)):
        enum_name = value.func.value.attr
        mod = ast.unparse(value.func.value.value)
        return (mod, enum_name, value.args[0].value)
    return None


def strip_docstring(body):
    if body and isinstance(body[0], ast.Expr) and isinstance(body[0].value, ast.Constant) \
            and isinstance(body[0].value.value, str):
        return body[1:]
    return body
