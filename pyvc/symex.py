"""Forward symbolic executor over the real Python AST (the only place Python semantics live).

exec_stmts(stmts, st) -> [(state, ctrl)]   ctrl: None | ('return', SV) | ('raise', Exc) | ('break',) | ('continue',)
eval(expr, st) -> SV     (single-valued; exceptional sub-paths are parked in engine.exc_paths,
                          multi-path inlined callees are merged with ite)
"""
import ast
import os
import z3

from .core import *  # noqa: F401,F403
from .core import serial_mark, consts_since, sv_terms
from .core import (SV, Bag, State, Unsupported, Val, VNone, VInt, VBool, VRef, VStr, VIv, VPair, VEnum,
                   is_VNone, is_VInt, is_VBool, is_VRef, is_VStr, is_VIv, is_VPair, is_VEnum, is_VUuid,
                   ival, bval, ref, sval, ivb, ive, ivd, fst, snd, ecls, enum_, SetSort, EmptySet, Card,
                   fresh, fresh_name, sv_int, sv_bool, sv_none, sv_ref, sv_val, sv_str, sv_tuple, sv_set,
                   to_val, from_py, subst_sv, Int, Bool)
from .extract import strip_docstring, FuncInfo


class Exc:
    def __init__(self, cls, msg=None):
        self.cls = cls      # exception class name (string)
        self.msg = msg

    def __repr__(self):
        return "Exc(%s)" % self.cls


EXC_PARENTS = {
    "DeserializationError": "GtirbError", "GtirbError": "Exception",
    "DecodeError": "CodecError", "EncodeError": "CodecError", "TypeNameError": "EncodeError",
    "UnknownCodecError": "CodecError", "CodecError": "Exception",
    "KeyError": "LookupError", "IndexError": "LookupError", "LookupError": "Exception",
    "ValueError": "Exception", "TypeError": "Exception", "StopIteration": "Exception",
    "AssertionError": "Exception", "AttributeError": "Exception", "OverflowError": "ArithmeticError",
    "ArithmeticError": "Exception", "UnicodeDecodeError": "ValueError", "NotImplementedError": "RuntimeError",
    "RuntimeError": "Exception", "Exception": "BaseException", "PbDecodeError": "Exception", "StructError": "Exception",
}


def exc_isinstance(cls, handler):
    c = cls
    while c is not None:
        if c == handler:
            return True
        c = EXC_PARENTS.get(c)
    return False


class Engine:
    def __init__(self, program, schema, registry):
        self.prog = program
        self.schema = schema          # specs.schema module-like: field sorts, class ids
        self.reg = registry           # contracts registry
        self.exc_paths = []           # [(State, Exc)] parked exceptional sub-paths
        # exception classes defined in /repo: parent taken from the real class statement (first base)
        for ci in list(program.classes.values()) * 3:
            if ci.base_exprs and (ci.base_exprs[0].split(".")[-1] in EXC_PARENTS or ci.name in EXC_PARENTS):
                EXC_PARENTS[ci.name] = ci.base_exprs[0].split(".")[-1]
        self.cur_fn = None
        self.loop_counter = 0
        self.inline_depth = 0
        self.cur_contract = None

    # ------------------------------------------------------------------ heap access
    def field_array(self, st, key):
        if key not in st.heap:
            st.heap[key] = z3.Const("H0_" + key.replace("#", "_"), self.schema.field_sort(key))
        return st.heap[key]

    def read_field(self, st, obj_ref, cls, attr):
        """obj_ref: z3 Int; returns SV"""
        key, kind, fcls = self.schema.field(cls, attr)
        fx = None
        if isinstance(fcls, tuple):
            fcls, fx = fcls
        if kind == "val":
            t = z3.Select(self.field_array(st, key), obj_ref)
            return self.schema.refine(SV("val", t, cls=fcls, x=fx))
        if kind == "set":
            t = z3.Select(self.field_array(st, key), obj_ref)

            def wb(st2, new, key=key, obj_ref=obj_ref):
                st2.heap[key] = z3.Store(self.field_array(st2, key), obj_ref, new.t)
            return SV("set", t, wb=wb, cls=fcls)
        if kind == "seq":
            t = z3.Select(self.field_array(st, key), obj_ref)

            def wb(st2, new, key=key, obj_ref=obj_ref):
                st2.heap[key] = z3.Store(self.field_array(st2, key), obj_ref, new.t)
            return SV("seq", t, wb=wb, cls=fcls)
        if kind in ("list", "bytes"):
            items = z3.Select(self.field_array(st, key + "#items"), obj_ref)
            n = z3.Select(self.field_array(st, key + "#len"), obj_ref)

            def wb(st2, new, key=key, obj_ref=obj_ref):
                st2.heap[key + "#items"] = z3.Store(self.field_array(st2, key + "#items"), obj_ref, new.t)
                st2.heap[key + "#len"] = z3.Store(self.field_array(st2, key + "#len"), obj_ref, new.x)
            return SV(kind, items, x=n, wb=wb, cls=fcls)
        if kind.startswith("dict"):
            vk = kind.split(":")[1]
            dom = z3.Select(self.field_array(st, key + "#dom"), obj_ref)
            mp = z3.Select(self.field_array(st, key + "#map"), obj_ref)

            def wb(st2, new, key=key, obj_ref=obj_ref):
                st2.heap[key + "#dom"] = z3.Store(self.field_array(st2, key + "#dom"), obj_ref, new.x[0])
                st2.heap[key + "#map"] = z3.Store(self.field_array(st2, key + "#map"), obj_ref, new.t)
            return SV("dict", mp, x=(dom, vk), wb=wb, cls=fcls,
                      orig=lambda st2, obj_ref=obj_ref, cls=cls, attr=attr: self.read_field(st2, obj_ref, cls, attr))
        raise Unsupported("field kind " + kind)

    def write_field(self, st, obj_ref, cls, attr, value):
        key, kind, fcls = self.schema.field(cls, attr)
        if value.k == "func":
            # function-valued attribute: stored as an opaque token (reads of the statically known ones go through
            # Schema.static_field)
            import zlib
            value = SV("val", Val.VOpaque(z3.IntVal(zlib.crc32(value.x[0].qual.encode()))))
        if value.k == "boundmethod":
            # bound method stored as a value (e.g. ir.get_by_uuid): a token made of the function and the receiver
            import zlib
            o, m, _ci = value.x
            value = SV("val", Val.VPair(Val.VOpaque(z3.IntVal(zlib.crc32(m.qual.encode()))),
                                        to_val(o) if o is not None else VNone))
        if kind == "val" and value.k == "list":
            # a list / tuple of symbolic length stored in a dynamically typed field: kept as an opaque token (reads give
            # an opaque value, on which list operations are outside the subset)
            value = SV("val", Val.VOpaque(fresh("listobj", Int)))
        if kind == "val":
            st.heap[key] = z3.Store(self.field_array(st, key), obj_ref, to_val(value))
        elif kind == "set":
            v = self.as_set(value, st)
            st.heap[key] = z3.Store(self.field_array(st, key), obj_ref, v.t)
        elif kind == "seq":
            if value.k == "list" and z3.is_int_value(z3.simplify(value.x)) and z3.simplify(value.x).as_long() == 0:
                value = SV("seq", z3.Empty(z3.SeqSort(Val)))
            if value.k != "seq":
                raise Unsupported("seq field assigned %s" % value.k)
            st.heap[key] = z3.Store(self.field_array(st, key), obj_ref, value.t)
        elif kind in ("list", "bytes"):
            v = self.as_list(value, st)
            st.heap[key + "#items"] = z3.Store(self.field_array(st, key + "#items"), obj_ref, v.t)
            st.heap[key + "#len"] = z3.Store(self.field_array(st, key + "#len"), obj_ref, v.x)
        elif kind.startswith("dict"):
            if value.k != "dict":
                raise Unsupported("dict field assigned non-dict")
            st.heap[key + "#dom"] = z3.Store(self.field_array(st, key + "#dom"), obj_ref, value.x[0])
            st.heap[key + "#map"] = z3.Store(self.field_array(st, key + "#map"), obj_ref, value.t)
        else:
            raise Unsupported("field kind " + kind)

    def fresh_object(self, st, clsname):
        """Allocate a new object: a reference that was not alive before."""
        r = fresh("new_" + clsname.replace("$", "").replace(".", "_"), Int)
        alive = self.field_array(st, "$alive")
        st.assume(z3.Not(z3.Select(alive, r)))
        st.heap["$alive"] = z3.Store(alive, r, True)
        if not clsname.startswith("$"):
            st.heap["$kind"] = z3.Store(self.field_array(st, "$kind"), r, self.schema.class_id(clsname))
        return r

    # ------------------------------------------------------------------ conversions
    def as_int(self, sv, st, what="operand"):
        if sv.k == "int":
            return sv.t
        if sv.k == "bool":
            return z3.If(sv.t, 1, 0)
        if sv.k == "val":
            st.oblige("safety.is_int(%s)" % what, z3.Or(is_VInt(sv.t), is_VBool(sv.t)))
            return z3.If(is_VBool(sv.t), z3.If(bval(sv.t), 1, 0), ival(sv.t))
        if sv.k == "py" and isinstance(sv.x, int):
            return z3.IntVal(int(sv.x))
        if sv.k == "none":
            st.oblige("safety.is_int(%s)" % what, z3.BoolVal(False))
            return z3.IntVal(0)
        raise Unsupported("as_int of %s" % sv.k)

    def as_ref(self, sv, st, what="object"):
        if sv.k == "ref":
            return sv.t
        if sv.k == "val":
            st.oblige("safety.not_none(%s)" % what, is_VRef(sv.t))
            return ref(sv.t)
        if sv.k == "none":
            st.oblige("safety.not_none(%s)" % what, z3.BoolVal(False))
            return z3.IntVal(-1)
        raise Unsupported("as_ref of %s" % sv.k)

    def as_set(self, sv, st):
        if sv.k == "set":
            return sv
        if sv.k == "gen":
            return self.set_of_bags(sv.x, st)
        if sv.k == "tuple":
            t = EmptySet
            for it in sv.x:
                t = z3.Store(t, to_val(it), True)
            return sv_set(t)
        if sv.k == "list":
            x = fresh("e", Val)
            raise Unsupported("set(list)")
        raise Unsupported("as_set of %s" % sv.k)

    def set_of_bags(self, bags, st):
        """set(<bags>): fresh set S with  forall v. S[v] <-> exists binders. cond & elem==v.
        Encoded without existentials when elem is a binder itself."""
        s = fresh("S", SetSort)
        v = fresh("v", Val)
        disj = []
        for b in bags:
            ev = to_val(b.elem)
            # common case: elem is exactly one binder and it's the only binder
            if len(b.binders) == 1 and not b.aux and z3.eq(ev, b.binders[0]):
                disj.append(z3.substitute(b.cond, (b.binders[0], v)))
            elif not b.binders and not b.aux:
                disj.append(z3.And(b.cond, ev == v))
            else:
                # auxiliary constants here are results of functional callee contracts (determined by defs)
                disj.append(z3.Exists(b.binders + b.aux, z3.And(b.defs, b.cond, ev == v)))
        body = z3.Or(*disj) if disj else z3.BoolVal(False)
        st.define(z3.ForAll([v], z3.Select(s, v) == body))
        return sv_set(s)

    def as_list(self, sv, st):
        if sv.k in ("list", "bytes"):
            return sv
        if sv.k == "tuple":
            arr = z3.K(Int, VNone)
            for i, it in enumerate(sv.x):
                arr = z3.Store(arr, i, to_val(it))
            return SV("list", arr, x=z3.IntVal(len(sv.x)))
        if sv.k == "set" and z3.eq(z3.simplify(sv.t), z3.simplify(EmptySet)):
            return SV("list", z3.K(Int, VNone), x=z3.IntVal(0))       # list(set()): the literally empty set
        raise Unsupported("as_list of %s" % sv.k)

    def truthy(self, sv, st):
        k = sv.k
        if k == "bool":
            return sv.t
        if k == "none":
            return z3.BoolVal(False)
        if k == "int":
            return sv.t != 0
        if k == "ref":
            ci = self.prog.classes.get(sv.cls) if sv.cls else None
            if ci is not None and (ci.lookup("__len__") or ci.lookup("__bool__")):
                m = ci.lookup("__bool__") or ci.lookup("__len__")
                r = self.call_function(m, [sv], {}, st, self_cls=sv.cls)
                return self.truthy(r, st)
            return z3.BoolVal(True)
        if k == "str" or k == "blob":
            return z3.Length(sv.t) > 0
        if k == "val":
            t = sv.t
            if sv.cls:
                ci = self.prog.classes.get(sv.cls)
                if ci is not None and (ci.lookup("__len__") or ci.lookup("__bool__")):
                    raise Unsupported("truthiness of optional %s with __len__" % sv.cls)
            return z3.If(is_VNone(t), False,
                         z3.If(is_VInt(t), ival(t) != 0,
                               z3.If(is_VBool(t), bval(t),
                                     z3.If(is_VStr(t), z3.Length(sval(t)) > 0, True))))
        if k == "iv":
            return z3.BoolVal(True)
        if k == "set":
            return sv.t != EmptySet
        if k == "optset":           # Optional[set] (dict.get on a dict of sets): x = present
            return z3.And(sv.x, sv.t != EmptySet)
        if k in ("list", "bytes"):
            return sv.x > 0
        if k == "seq":
            return z3.Length(sv.t) > 0
        if k == "nx_adj":
            return self.schema.nx.adj_truthy(self, sv, st)
        if k == "dict":
            return sv.x[0] != EmptySet
        if k == "tuple":
            return z3.BoolVal(len(sv.x) > 0)
        if k == "range":
            a, b, s = sv.x
            return self.as_int(a, st) < self.as_int(b, st)      # step >= 1 is a stated precondition
        if k == "py":
            return z3.BoolVal(bool(sv.x))
        if k == "gen":
            return z3.BoolVal(True)
        raise Unsupported("truthiness of %s" % k)

    def py_eq(self, a, b, st):
        """Python == on the modelled value domain."""
        if a.k == "none" and b.k == "none":
            return z3.BoolVal(True)
        if a.k in ("int", "bool") and b.k in ("int", "bool"):
            return self.as_int(a, st) == self.as_int(b, st)
        if a.k == "str" and b.k == "str":
            return a.t == b.t
        if a.k == "blob" or b.k == "blob":
            from .iomodel import as_blob
            if a.k in ("blob", "bytes", "val") and b.k in ("blob", "bytes", "val"):
                return as_blob(self, a, st) == as_blob(self, b, st)
            return z3.BoolVal(False)
        if a.k == "set" or b.k == "set":
            return self.as_set(a, st).t == self.as_set(b, st).t
        if a.k == "tuple" and b.k == "tuple":
            if len(a.x) != len(b.x):
                return z3.BoolVal(False)
            return z3.And([self.py_eq(x, y, st) for x, y in zip(a.x, b.x)]) if a.x else z3.BoolVal(True)
        if a.k in ("list", "bytes") and b.k in ("list", "bytes"):
            i = fresh("i", Int)
            return z3.And(a.x == b.x, z3.ForAll([i], z3.Implies(z3.And(0 <= i, i < a.x),
                                                                  z3.Select(a.t, i) == z3.Select(b.t, i))))
        if a.k == "dict" and b.k == "dict":
            return z3.And(a.x[0] == b.x[0], a.t == b.t)      # maps canonical outside dom (see dict ops)
        for x in (a, b):
            if x.k in ("ref", "val") and x.cls:
                ci = self.prog.classes.get(x.cls)
                if ci is not None and ci.lookup("__eq__"):
                    raise Unsupported("== on class with __eq__: %s" % x.cls)
        va, vb = to_val(a), to_val(b)
        num = lambda v: z3.If(is_VBool(v), z3.If(bval(v), 1, 0), ival(v))
        isnum = lambda v: z3.Or(is_VInt(v), is_VBool(v))
        if a.k in ("int", "bool") or b.k in ("int", "bool"):
            other = vb if a.k in ("int", "bool") else va
            me = a if a.k in ("int", "bool") else b
            return z3.And(isnum(other), num(other) == self.as_int(me, st))
        if a.k == "val" and b.k == "val":
            return z3.If(z3.And(isnum(va), isnum(vb)), num(va) == num(vb), va == vb)
        return va == vb

    def py_is(self, a, b, st):
        if a.k == "none":
            return self.is_none(b)
        if b.k == "none":
            return self.is_none(a)
        return to_val(a) == to_val(b)

    def is_none(self, sv):
        if sv.k == "none":
            return z3.BoolVal(True)
        if sv.k == "val":
            return is_VNone(sv.t)
        if sv.k == "py":
            return z3.BoolVal(sv.x is None)
        return z3.BoolVal(False)

    # ------------------------------------------------------------------ isinstance
    def isinstance_(self, sv, clsname, st):
        S = self.schema
        if clsname == "int":
            if sv.k in ("int", "bool"):
                return z3.BoolVal(True)
            if sv.k == "val":
                return z3.Or(is_VInt(sv.t), is_VBool(sv.t))
            return z3.BoolVal(False)
        if clsname == "bool":
            if sv.k == "bool":
                return z3.BoolVal(True)
            if sv.k == "val":
                return is_VBool(sv.t)
            return z3.BoolVal(False)
        if clsname == "str":
            if sv.k == "str":
                return z3.BoolVal(True)
            if sv.k == "val":
                return is_VStr(sv.t)
            return z3.BoolVal(False)
        if clsname == "range":
            return z3.BoolVal(sv.k == "range")
        if clsname == "tuple":
            if sv.k == "tuple":
                return z3.BoolVal(True)
            if sv.k == "val":
                return is_VPair(sv.t)
            return z3.BoolVal(False)
        if clsname == "slice":
            if sv.k in ("int", "bool"):
                return z3.BoolVal(False)
            raise Unsupported("isinstance(_, slice) on non-int")
        from .schema import NAMEDTUPLES
        if clsname in NAMEDTUPLES:
            return z3.BoolVal(sv.cls == clsname)
        ci = self.prog.find_class(clsname)
        if ci is None:
            special = S.isinstance_special(self, sv, clsname, st)
            if special is not None:
                return special
            raise Unsupported("isinstance against unknown class %s" % clsname)
        ids = S.subclass_ids(self.prog, ci)
        if sv.k == "ref":
            kd = z3.Select(self.field_array(st, "$kind"), sv.t)
            return z3.Or([kd == i for i in ids]) if ids else z3.BoolVal(False)
        if sv.k == "val":
            kd = z3.Select(self.field_array(st, "$kind"), ref(sv.t))
            return z3.And(is_VRef(sv.t), z3.Or([kd == i for i in ids]) if ids else z3.BoolVal(False))
        return z3.BoolVal(False)

    # ------------------------------------------------------------------ statements
    def exec_stmts(self, stmts, st):
        """returns list of (state, ctrl)"""
        outs = []
        work = [(st, 0)]
        while work:
            s, i = work.pop()
            if i >= len(stmts):
                outs.append((s, None))
                continue
            res = self.exec_stmt(stmts[i], s)
            for (s2, ctrl) in res:
                if ctrl is None:
                    work.append((s2, i + 1))
                else:
                    outs.append((s2, ctrl))
        return outs

    def _drain_exc(self, mark):
        """Collect exceptional sub-paths parked since mark."""
        got = self.exc_paths[mark:]
        del self.exc_paths[mark:]
        return [(s, ("raise", e)) for (s, e) in got]

    def exec_stmt(self, node, st):
        mark = len(self.exc_paths)
        res = self._exec_stmt(node, st)
        return res + self._drain_exc(mark)

    def _exec_stmt(self, node, st):
        T = type(node)
        if T is ast.Expr:
            v = node.value
            if isinstance(v, ast.Constant):
                return [(st, None)]
            if isinstance(v, ast.Yield):
                val = self.eval(v.value, st) if v.value is not None else sv_none()
                dec, defs = self._local_cond(st, sv_terms(val))
                st.bags.append(Bag(list(st.binders), dec, val, tag="line%d" % node.lineno, defs=defs))
                return [(st, None)]
            if isinstance(v, ast.YieldFrom):
                src = self.eval(v.value, st)
                for b in self.bags_of(src, st):
                    dec, defs = self._local_cond(st, [b.cond, b.defs] + sv_terms(b.elem))
                    st.bags.append(Bag(list(st.binders) + b.binders, z3.And(dec, b.cond), b.elem,
                                       tag="line%d" % node.lineno, defs=z3.And(defs, b.defs), aux=b.aux))
                return [(st, None)]
            self.eval(v, st)
            return [(st, None)]
        if T is ast.Pass:
            return [(st, None)]
        if T is ast.Assign:
            val = self.eval(node.value, st)
            for tgt in node.targets:
                self.assign(tgt, val, st)
            return [(st, None)]
        if T is ast.AnnAssign:
            if node.value is not None:
                val = self.eval(node.value, st)
                self.assign(node.target, val, st)
            return [(st, None)]
        if T is ast.AugAssign:
            cur = self.eval(node.target, st)
            rhs = self.eval(node.value, st)
            val = self.binop(node.op, cur, rhs, st, inplace=True)
            self.assign(node.target, val, st)
            return [(st, None)]
        if T is ast.Return:
            val = self.eval(node.value, st) if node.value is not None else sv_none()
            return [(st, ("return", val))]
        if T is ast.If:
            c = self.truthy(self.eval(node.test, st), st)
            outs = []
            c = z3.simplify(c)
            narrow_t, narrow_f = _isinstance_narrowing(node.test)
            if not z3.is_false(c):
                s1 = st.fork() if not z3.is_true(c) else st
                if not z3.is_true(c):
                    s1.assume(c, "line %d: if-true" % node.lineno)
                self._narrow(s1, narrow_t)
                outs += self.exec_stmts(node.body, s1)
            if not z3.is_true(c):
                s2 = st.fork() if not z3.is_false(c) else st
                if not z3.is_false(c):
                    s2.assume(z3.Not(c), "line %d: if-false" % node.lineno)
                self._narrow(s2, narrow_f)
                outs += self.exec_stmts(node.orelse, s2)
            return outs
        if T is ast.Raise:
            return [(st, ("raise", self.eval_exc(node.exc, st)))]
        if T is ast.Assert:
            c = self.truthy(self.eval(node.test, st), st)
            s2 = st.fork()
            s2.assume(z3.Not(c), "line %d: assert fails" % node.lineno)
            st.assume(c)
            return [(st, None), (s2, ("raise", Exc("AssertionError")))]
        if T is ast.For:
            return self.exec_for(node, st)
        if T is ast.While:
            return self.exec_while(node, st)
        if T is ast.Try:
            return self.exec_try(node, st)
        if T is ast.Continue:
            return [(st, ("continue",))]
        if T is ast.Break:
            return [(st, ("break",))]
        if T is ast.FunctionDef:
            st.env[node.name] = SV("func", x=(FuncInfo(self.cur_fn.qual + "/" + node.name, node, self.cur_fn.file,
                                                       self.cur_fn.cls, "nested"), st.env))
            return [(st, None)]
        if T is ast.Delete:
            for tgt in node.targets:
                self.delete(tgt, st)
            return [(st, None)]
        raise Unsupported("statement %s (line %d)" % (T.__name__, node.lineno))

    def _narrow(self, st, facts):
        """flow-sensitive static class after an isinstance test (method resolution only; the dynamic fact is in
        the path condition)"""
        for name, clsname in facts:
            sv = st.env.get(name)
            ci = self.prog.find_class(clsname, self.cur_fn.cls if self.cur_fn else None)
            if sv is None or ci is None or sv.k not in ("ref", "val"):
                continue
            cur = self.prog.classes.get(sv.cls) if sv.cls else None
            if cur is None or (ci in cur.mro and False) or (cur in ci.mro):
                st.env[name] = SV(sv.k, sv.t, cls=ci.qual, x=sv.x, wb=sv.wb)

    def _local_cond(self, st, extra_terms=()):
        """Condition under which the current point is reached, relative to function entry: the branch
        decisions since the entry mark, plus the definitional assumptions (callee postconditions, fresh-set
        definitions) of every auxiliary constant those decisions (or extra_terms) mention."""
        return local_cond(st, st.entry_mark, st.entry_serial, extra_terms)

    def eval_exc(self, node, st):
        if node is None:
            raise Unsupported("bare raise")
        if isinstance(node, ast.Call):
            name = ast.unparse(node.func).split(".")[-1]
            return Exc(name)
        if isinstance(node, ast.Name):
            return Exc(node.id)
        raise Unsupported("raise expr")

    # ------------------------------------------------------------------ assignment
    def assign(self, tgt, val, st):
        if isinstance(tgt, ast.Name):
            if val.k in ("set", "list", "dict", "bytes", "seq"):
                name = tgt.id
                origin_wb = val.wb      # a local bound to a container that lives in the heap / in a dict aliases it

                def wb(st2, new, name=name, origin_wb=origin_wb):
                    if origin_wb is not None:
                        origin_wb(st2, new)
                    st2.env[name] = SV(new.k, new.t, cls=new.cls, x=new.x, wb=st2.env[name].wb, orig=st2.env[name].orig)
                val = SV(val.k, val.t, cls=val.cls, x=val.x, wb=wb, orig=val.orig)
            st.env[tgt.id] = val
            return
        if isinstance(tgt, ast.Attribute):
            obj = self.eval(tgt.value, st)
            self.set_attr(obj, tgt.attr, val, st)
            return
        if isinstance(tgt, (ast.Tuple, ast.List)) and any(isinstance(t, ast.Starred) for t in tgt.elts):
            # a, *rest = xs   (one starred target, after plain ones; xs a list of symbolic length)
            stars = [i_ for i_, t in enumerate(tgt.elts) if isinstance(t, ast.Starred)]
            if len(stars) != 1 or stars[0] != len(tgt.elts) - 1 or val.k != "list":
                raise Unsupported("starred unpack in this position")
            k_ = len(tgt.elts) - 1
            s2 = st.fork()
            s2.assume(val.x < k_)
            self.exc_paths.append((s2, Exc("ValueError")))
            st.assume(val.x >= k_)
            for i_ in range(k_):
                self.assign(tgt.elts[i_], self.schema.refine(SV("val", z3.Select(val.t, i_), cls=val.cls)), st)
            rest = fresh("rest", z3.ArraySort(Int, Val))
            j_ = fresh("i", Int)
            st.define(z3.ForAll([j_], z3.Implies(z3.And(0 <= j_, j_ < val.x - k_), z3.Select(rest, j_) == z3.Select(val.t, j_ + k_))))
            self.assign(tgt.elts[k_].value, SV("list", rest, x=val.x - k_, cls=val.cls), st)
            return
        if isinstance(tgt, (ast.Tuple, ast.List)):
            items = self.unpack(val, len(tgt.elts), st, tgt)
            for t, v in zip(tgt.elts, items):
                if isinstance(t, ast.Starred):
                    raise Unsupported("starred unpack in this position")
                self.assign(t, v, st)
            return
        if isinstance(tgt, ast.Subscript):
            cont = self.eval(tgt.value, st)
            self.set_item(cont, tgt.slice, val, st)
            return
        raise Unsupported("assign target %s" % type(tgt).__name__)

    def unpack(self, val, n, st, tgt=None):
        if val.k == "tuple":
            if len(val.x) != n:
                s2 = st.fork()
                self.exc_paths.append((s2, Exc("ValueError")))
                st.assume(z3.BoolVal(False))
                return [sv_none()] * n
            return val.x
        if val.k in ("val", "iv"):
            # right-nested pairs
            out = []
            t = val.t
            for _ in range(n):
                out.append(self.schema.refine(sv_val(fst(t))))
                t = snd(t)
            return out
        if val.k == "list":
            s2 = st.fork()
            s2.assume(val.x != n)
            self.exc_paths.append((s2, Exc("ValueError")))
            st.assume(val.x == n)
            return [self.schema.refine(sv_val(z3.Select(val.t, i))) for i in range(n)]
        raise Unsupported("unpack %s" % val.k)

    def set_attr(self, obj, attr, val, st):
        cls = obj.cls
        if cls and cls.startswith("pb:"):
            self.schema.pb.set(self, obj, attr, val, st)
            return
        if obj.k == "pbsub":
            self.schema.pb.sub_set(self, obj, attr, val, st)
            return
        ci = self.prog.classes.get(cls) if cls else None
        if ci is not None:
            setter = ci.lookup_setter(attr)
            if setter is not None:
                self.call_function(setter, [obj, val], {}, st, self_cls=cls)
                return
            desc = ci.lookup_descriptor(attr)
            if desc is not None:
                self.descriptor_set(obj, ci, attr, desc, val, st)
                return
            if ci.lookup_getter(attr) is not None:
                raise Unsupported("assignment to read-only property %s.%s" % (cls, attr))
        r = self.as_ref(obj, st, "target of .%s =" % attr)
        self.write_field(st, r, cls, attr, val)

    def descriptor_set(self, obj, ci, attr, desc, val, st):
        """obj.attr = val where attr is an _IndexedAttribute: execute the *real*
        _IndexedAttribute.Descriptor.__set__ from util.py, specialised to this instantiation
        (parent_getter := the class-body lambda, attribute_name := '_' + attr)."""
        me = SV("descriptor", x=dict(parent_getter=SV("func", x=(desc, {})), attribute_name="_" + attr,
                                     name=attr))
        c = self.reg.find_descriptor_contract(ci, attr)
        if getattr(self.cur_contract, "inline_all", False):
            c = None
        if c is not None and self.cur_contract is not c:
            self.call_by_contract(c, [me, obj, val], {}, st)
            return
        fi = self.prog.find_function("util.py::_IndexedAttribute.Descriptor.__set__")
        if fi is None:
            raise Unsupported("_IndexedAttribute.Descriptor.__set__ not found")
        self.call_function(fi, [me, obj, val], {}, st, self_cls=None, force_inline=True)

    def set_item(self, cont, slc, val, st):
        if cont.k == "dict":
            key = to_val(self.eval(slc, st))
            dom, vk = cont.x
            newdom = z3.Store(dom, key, True)
            if vk == "val":
                newmap = z3.Store(cont.t, key, to_val(val))
            elif vk == "set":
                newmap = z3.Store(cont.t, key, self.as_set(val, st).t)
            else:
                raise Unsupported("dict value kind")
            self.card_axioms_store(st, dom, key, True)
            new = SV("dict", newmap, x=(newdom, vk), cls=cont.cls)
            if cont.wb is None:
                raise Unsupported("dict store without write-back")
            cont.wb(st, new)
            return
        if cont.k == "list":
            idx = self.eval(slc, st)
            i = self.as_int(idx, st)
            i = z3.If(i < 0, i + cont.x, i)
            s2 = st.fork()
            s2.assume(z3.Not(z3.And(0 <= i, i < cont.x)))
            self.exc_paths.append((s2, Exc("IndexError")))
            st.assume(z3.And(0 <= i, i < cont.x))
            new = SV("list", z3.Store(cont.t, i, to_val(val)), x=cont.x, cls=cont.cls)
            cont.wb(st, new)
            return
        if cont.k in ("ref", "val"):
            ci = self.prog.classes.get(cont.cls) if cont.cls else None
            if ci is not None and ci.lookup("__setitem__"):
                key = self.eval(slc, st)
                self.call_method(cont, ci, "__setitem__", [key, val], {}, st)
                return
        special = self.schema.set_item_special(self, cont, slc, val, st)
        if special:
            return
        raise Unsupported("item assignment on %s" % cont.k)

    def delete(self, tgt, st):
        if isinstance(tgt, ast.Subscript) and isinstance(tgt.slice, ast.Slice):
            cont = self.eval(tgt.value, st)
            sl = tgt.slice
            if cont.k in ("list", "bytes") and sl.upper is None and sl.step is None and sl.lower is not None:
                # del xs[a:]  -> keep the first clamp(a) elements
                n = cont.x
                a_ = self.as_int(self.eval(sl.lower, st), st)
                k = z3.If(a_ < 0, z3.If(a_ + n < 0, 0, a_ + n), z3.If(a_ > n, n, a_))
                cont.wb(st, SV(cont.k, cont.t, x=k, cls=cont.cls))
                return
            raise Unsupported("del with this slice form")
        if isinstance(tgt, ast.Subscript):
            cont = self.eval(tgt.value, st)
            if cont.k == "dict":
                key = to_val(self.eval(tgt.slice, st))
                dom, vk = cont.x
                s2 = st.fork()
                s2.assume(z3.Not(z3.Select(dom, key)))
                self.exc_paths.append((s2, Exc("KeyError")))
                st.assume(z3.Select(dom, key))
                self.card_axioms_store(st, dom, key, False)
                new = SV("dict", self.dict_canon(cont.t, key, vk), x=(z3.Store(dom, key, False), vk), cls=cont.cls)
                cont.wb(st, new)
                return
            if cont.k in ("ref", "val"):
                ci = self.prog.classes.get(cont.cls) if cont.cls else None
                if ci is not None and ci.lookup("__delitem__"):
                    key = self.eval(tgt.slice, st)
                    self.call_method(cont, ci, "__delitem__", [key], {}, st)
                    return
            if cont.k == "list":
                idx = self.eval(tgt.slice, st)
                i = self.as_int(idx, st)
                i = z3.If(i < 0, i + cont.x, i)
                s2 = st.fork()
                s2.assume(z3.Not(z3.And(0 <= i, i < cont.x)))
                self.exc_paths.append((s2, Exc("IndexError")))
                st.assume(z3.And(0 <= i, i < cont.x))
                new_items = fresh("del", z3.ArraySort(Int, Val))
                j = fresh("j", Int)
                st.define(z3.ForAll([j], z3.Select(new_items, j) == z3.If(j < i, z3.Select(cont.t, j),
                                                                           z3.Select(cont.t, j + 1))))
                cont.wb(st, SV("list", new_items, x=cont.x - 1, cls=cont.cls))
                return
            raise Unsupported("del on %s" % cont.k)
        if isinstance(tgt, ast.Attribute):
            obj = self.eval(tgt.value, st)
            r = self.as_ref(obj, st)
            self.write_field(st, r, obj.cls, tgt.attr, SV("val", Val.VOpaque(z3.IntVal(-7))))  # deleted marker
            return
        raise Unsupported("del target")

    def dict_canon(self, mp, key, vk):
        """Maps are kept canonical outside their domain so that (dom,map) equality is dict equality."""
        if vk == "val":
            return z3.Store(mp, key, VNone)
        if vk == "set":
            return z3.Store(mp, key, EmptySet)
        return mp

    # ------------------------------------------------------------------ loops
    def static_ordinal(self, node):
        """Position of a loop among the for/while statements of the function being executed, in source order (loops of
        nested functions and classes are not counted: they are numbered within their own function).  Independent of the
        order in which paths are explored and of how many paths reach the loop."""
        fn = self.cur_fn.node if self.cur_fn is not None else None
        dyn = self.loop_counter
        if fn is None:
            return dyn
        memo = self.__dict__.setdefault("_ord_memo", {})
        tab = memo.get(id(fn))
        if tab is None:
            loops = []

            def walk(n):
                for ch in ast.iter_child_nodes(n):
                    if isinstance(ch, (ast.FunctionDef, ast.AsyncFunctionDef, ast.Lambda, ast.ClassDef)):
                        continue
                    if isinstance(ch, (ast.For, ast.While)):
                        loops.append(ch)
                    walk(ch)
            walk(fn)
            loops.sort(key=lambda n: (n.lineno, n.col_offset))
            tab = memo[id(fn)] = ({id(n): i for i, n in enumerate(loops)}, fn, loops)     # keep fn alive: ids stay unique
        o = tab[0].get(id(node))
        if o is None:
            return dyn
        if os.environ.get("VERIF_DEBUG_ORD") and o != dyn:
            print("ORDINAL-MISMATCH %s line %d static %d dynamic %d spec-static %s spec-dynamic %s" % (
                self.cur_target, node.lineno, o, dyn, self.reg.find_loop(self.cur_target, o) is not None,
                self.reg.find_loop(self.cur_target, dyn) is not None))
        return o

    def exec_for(self, node, st):
        if node.orelse:
            raise Unsupported("for-else")
        it = self.eval(node.iter, st)
        ordinal = self.static_ordinal(node)
        self.loop_counter += 1
        # what the loop iterates over and which loops of this function ran before it (for invariants that are stated
        # per iterated collection rather than per loop position)
        before = getattr(self, "_ord_memo", {}).get(id(self.cur_fn.node), ({}, None, []))[2][:ordinal] if self.cur_fn is not None else []
        self.loop_iter_info = (ast.unparse(node.iter), tuple(ast.unparse(l.iter) for l in before if isinstance(l, ast.For)))
        inv = self.reg.find_loop(self.cur_target, ordinal)
        if inv is not None and self._small_concrete(it, st) == []:
            return [(st, None)]         # iteration over a literally empty collection: nothing to do
        if inv is not None:
            return self.exec_for_invariant(node, it, inv, st, ordinal)
        if isinstance(node.iter, ast.Set) and 1 <= len(node.iter.elts) <= 2 and \
                not any(isinstance(e_, ast.Starred) for e_ in node.iter.elts):
            # a set display of one or two elements: one iteration if they are equal, otherwise two in either order
            es = [self.eval(e_, st) for e_ in node.iter.elts]
            if len(es) == 1:
                return self.exec_for_unrolled(node, es, st)
            same = to_val(es[0]) == to_val(es[1])
            outs = []
            for cond, order in ((same, [es[0]]), (z3.Not(same), [es[0], es[1]]), (z3.Not(same), [es[1], es[0]])):
                s_ = st.fork()
                s_.assume(cond)
                outs += self.exec_for_unrolled(node, order, s_)
            return outs
        elems = self._small_concrete(it, st)
        if elems is not None:
            return self.exec_for_unrolled(node, elems, st)
        # comprehension rule: body must be stateless (no heap writes, no loop-carried locals).
        return self.exec_for_comprehension(node, it, st, ordinal)

    def _small_concrete(self, it, st):
        """Elements of an iterable whose length is a small known constant (then the loop is unrolled exactly)."""
        if it.k == "tuple" and len(it.x) <= 4:
            return list(it.x)
        if it.k == "set" and z3.eq(z3.simplify(it.t), z3.simplify(EmptySet)):
            return []           # the literally empty set (e.g. a default argument set())
        if it.k == "gen" and all(z3.is_false(z3.simplify(b.cond)) for b in it.x):
            return []           # e.g. the items of a literally empty dict
        if it.k == "range":
            a, b, s_ = it.x
            if s_.k == "int" and z3.is_int_value(s_.t) and s_.t.as_long() == 1:
                d = z3.simplify(self.as_int(b, st) - self.as_int(a, st))
                if z3.is_int_value(d) and 0 <= d.as_long() <= 4:
                    return [sv_int(self.as_int(a, st) + i) for i in range(d.as_long())]
        if it.k == "list":
            n = z3.simplify(it.x)
            if z3.is_int_value(n) and 0 <= n.as_long() <= 4:
                return [self.schema.refine(SV("val", z3.Select(it.t, i), cls=it.cls)) for i in range(n.as_long())]
        return None

    def exec_for_unrolled(self, node, elems, st):
        outs = []
        live = [st]
        for e in elems:
            nxt = []
            for s in live:
                self.assign(node.target, e, s)
                for (s2, ctrl) in self.exec_stmts(node.body, s):
                    if ctrl is None or ctrl[0] == "continue":
                        nxt.append(s2)
                    elif ctrl[0] == "break":
                        outs.append((s2, None))
                    else:
                        outs.append((s2, ctrl))
            live = nxt
        return [(s, None) for s in live] + outs

    def bags_of(self, it, st):
        """Describe an iterable as a list of Bags."""
        k = it.k
        if k == "gen":
            return it.x
        if k == "set":
            x = fresh("x", Val)
            return [Bag([x], z3.Select(it.t, x), self.schema.refine(SV("val", x, cls=it.cls)))]
        if k == "pbrep":
            # a repeated scalar protobuf field, iterated: its member set (order and multiplicity are not modelled)
            r_, msg_, attr_ = it.x
            x = fresh("x", Val)
            members = z3.Select(self.field_array(st, self.schema.pb.key(msg_, attr_) + "#set"), r_)
            ftype = self.schema.pb.fdef(msg_, attr_)["type"]
            if self.schema.pb.is_msg(ftype):
                # a repeated message field: its member messages (each a reference to a message of the field's type)
                return [Bag([x], z3.And(z3.Select(members, x), is_VRef(x)), SV("ref", ref(x), cls="pb:" + ftype))]
            return [Bag([x], z3.Select(members, x), SV("val", x))]
        if k == "optset":
            x = fresh("x", Val)
            st.oblige("safety.iterated_optional_is_not_none", it.x)
            return [Bag([x], z3.Select(it.t, x), self.schema.refine(SV("val", x, cls=it.cls)))]
        if k == "tuple":
            return [Bag([], z3.BoolVal(True), e) for e in it.x]
        if k == "list":
            i = fresh("i", Int)
            return [Bag([i], z3.And(0 <= i, i < it.x), self.schema.refine(SV("val", z3.Select(it.t, i), cls=it.cls)))]
        if k == "seq":
            i = fresh("i", Int)
            return [Bag([i], z3.And(0 <= i, i < z3.Length(it.t)), self.schema.refine(SV("val", it.t[i], cls=it.cls)))]
        if k == "range":
            a, b, s = it.x
            i = fresh("i", Int)
            if not (s.k == "int" and z3.is_int_value(s.t) and s.t.as_long() == 1):
                raise Unsupported("iteration over range with step")
            return [Bag([i], z3.And(self.as_int(a, st) <= i, i < self.as_int(b, st)), sv_int(i))]
        if k == "dict":
            x = fresh("k", Val)
            return [Bag([x], z3.Select(it.x[0], x), self.schema.refine(SV("val", x)))]
        if k in ("ref", "val"):
            ci = self.prog.classes.get(it.cls) if it.cls else None
            if ci is not None and ci.lookup("__iter__"):
                r = self.call_method(it, ci, "__iter__", [], {}, st)
                return self.bags_of(r, st)
            lw = self.prog.classes.get("ListWrapper")
            if ci is not None and lw in ci.mro:
                # collections.abc.Sequence.__iter__ (assumed mixin contract): yields self[0], self[1], ...
                # until IndexError; ListWrapper.__getitem__(i) is self._data[i]  =>  the items of _data in order
                r = self.as_ref(it, st, "iterated list wrapper")
                return self.bags_of(self.schema.post_read(it, "_data", self.read_field(st, r, it.cls, "_data")), st)
        if k == "py" and isinstance(it.x, tuple) and len(it.x) == 0:
            return []
        raise Unsupported("iteration over %s (cls=%s)" % (k, it.cls))

    def exec_for_comprehension(self, node, it, st, ordinal):
        bags = self.bags_of(it, st)
        assigned = _assigned_names(node.body)
        env_before = dict(st.env)
        where = "loop %d of %s (line %d)" % (ordinal, self.cur_target, node.lineno)

        def body(s, elem):
            self.assign(node.target, elem, s)
            res = self.exec_stmts(node.body, s)
            for (s2, ctrl) in res:
                if ctrl is not None and ctrl[0] == "break":
                    raise Unsupported("break inside %s needs a loop invariant" % where)
            return res

        outs = self.iterate_stateless(st, bags, body, where, collect="yields")
        # loop-carried locals are not allowed in comprehension mode
        for name in assigned:
            if name in env_before:
                raise Unsupported("%s assigns outer local %r: needs a loop invariant" % (where, name))
            st.env[name] = SV("poison", x="loop-local %s" % name)
        for name in _target_names(node.target):
            st.env[name] = SV("poison", x="loop variable %s" % name)
        return [(st, None)] + outs

    # -- stateless iteration (comprehension rule), optionally modulo the index region R -------------
    def iterate_stateless(self, st, bags, body, where, collect="yields"):
        """Run ``body`` once per bag for an arbitrary element.  The body must not change the heap,
        except for the index region R (schema.REGION_KEYS) when the contract under verification provides a
        region invariant: then R is havocked under the invariant before the arbitrary iteration, the
        invariant is re-proved after it, and yielded conditions must not mention R.
        Returns exceptional outcomes; yields are appended to st.bags (collect='yields') or, for
        collect='values', the list of (Bag) for the body's return values is returned instead."""
        from .schema import REGION_KEYS
        region = None
        for attempt in (False, True):
            if attempt and region is None:
                break
            try:
                return self._iterate(st, bags, body, where, collect, use_region=attempt)
            except _RegionWrite as e:
                inv = getattr(self.cur_contract, "region_invariant", None)
                if attempt or inv is None:
                    raise Unsupported("%s writes index-region field %s but the contract has no region invariant"
                                      % (where, e.args[0]))
                region = inv
        raise Unsupported("unreachable")

    def _iterate(self, st, bags, body, where, collect, use_region):
        from .schema import REGION_KEYS
        from .contracts import Ctx
        rkeys = set(REGION_KEYS)
        outs = []
        new_bags = []
        ret_conds = []
        nbags0 = len(st.bags)
        base = st
        if use_region:
            inv = self.cur_contract.region_invariant
            st.oblige("region.init(%s)" % where, inv(Ctx(self, dict(st.heap))))
            base = st.fork()
            for key in rkeys:
                old = self.field_array(base, key)
                base.heap[key] = fresh("HR_" + _san(key), old.sort())
            base.define(inv(Ctx(self, dict(base.heap))))
        heap_before = dict(base.heap)
        for b in bags:
            mark = serial_mark()
            news, cond, elem, bdefs = b.instantiate("it")
            iter_order = b.last_order if len(bags) == 1 else None
            s = base.fork()
            s.binders = st.binders + news
            s.assume(cond)
            s.define(bdefs)
            res = body(s, elem)
            for item in res:
                if collect == "values":
                    s2, ctrl, val = item
                else:
                    (s2, ctrl), val = item, None
                if ctrl is not None and ctrl[0] == "raise":
                    outs.append((s2, ctrl))
                    continue
                if ctrl is not None and ctrl[0] == "return":
                    # search loop: some iteration returns.  (Over-approximation: any iteration whose own path
                    # returns may be the first to do so.)  The fall-through path learns that none did.
                    for key, arr in s2.heap.items():
                        before = heap_before.get(key)
                        if before is not None and not z3.eq(arr, before):
                            raise Unsupported("%s: returning iteration writes heap field %s" % (where, key))
                    if len(s2.bags) > nbags0:
                        raise Unsupported("%s mixes yield and return" % where)
                    dec, defs = local_cond(s2, len(st.pc), mark)
                    aux = [x for x in consts_since([dec, defs], mark) if not any(x.eq(y) for y in news)]
                    ret_conds.append((list(news) + aux, z3.And(defs, dec)))
                    outs.append((s2, ctrl))
                    continue
                wrote_region = False
                for key, arr in s2.heap.items():
                    before = heap_before.get(key)
                    changed = (before is not None and not z3.eq(arr, before)) or \
                              (before is None and not z3.is_const(arr))
                    if not changed:
                        continue
                    if key in rkeys:
                        if not use_region:
                            raise _RegionWrite(key)
                        wrote_region = True
                    else:
                        raise Unsupported("%s writes heap field %s: needs a loop invariant" % (where, key))
                if use_region:
                    s2.oblige("region.step(%s)" % where, self.cur_contract.region_invariant(Ctx(self, dict(s2.heap))))
                if collect == "yields":
                    produced = s2.bags[nbags0:]
                else:
                    dec, defs = local_cond(s2, len(st.pc), mark, sv_terms(val))
                    produced = [Bag(list(s2.binders), dec, val, defs=defs)]
                for bag in produced:
                    aux = [x for x in consts_since([bag.cond, bag.defs] + sv_terms(bag.elem), mark)
                           if not any(x.eq(y) for y in bag.binders) and not any(x.eq(y) for y in bag.aux)]
                    # order: the iteration order of the (single, ordered) iterated bag, provided each iteration
                    # yields at most once on this path and nothing was yielded before the loop
                    order = iter_order if (collect == "yields" and len(produced) == 1 and nbags0 == 0
                                           and not st.binders) else None
                    nb = Bag(bag.binders, bag.cond, bag.elem, bag.tag, bag.defs, bag.aux + aux, order=order)
                    if use_region:
                        bad = [n for n in _named_consts([nb.cond] + sv_terms(nb.elem)) if _is_region_name(n, rkeys)]
                        if bad:
                            raise Unsupported("%s: yielded condition depends on index-region state %s" % (where, bad[:3]))
                    new_bags.append(nb)
        if use_region:
            for key in rkeys:
                old = self.field_array(st, key)
                st.heap[key] = fresh("HR_" + _san(key), old.sort())
            st.define(self.cur_contract.region_invariant(Ctx(self, dict(st.heap))))
        for (vs, f) in ret_conds:
            st.assume(z3.ForAll(vs, z3.Not(f)) if vs else z3.Not(f), "loop completed: no iteration returned")
        if collect == "values":
            self._last_value_bags = new_bags
        else:
            st.bags.extend(new_bags)
        return outs

    def exec_for_invariant(self, node, it, inv, st, ordinal):
        return inv.run(self, node, it, st, ordinal)

    def exec_while(self, node, st):
        ordinal = self.static_ordinal(node)
        self.loop_counter += 1
        inv = self.reg.find_loop(self.cur_target, ordinal)
        if inv is None:
            raise Unsupported("while loop without invariant (line %d)" % node.lineno)
        return inv.run_while(self, node, st, ordinal)

    def exec_try(self, node, st):
        if node.finalbody or node.orelse:
            raise Unsupported("try/finally/else")
        res = self.exec_stmts(node.body, st)
        outs = []
        for (s, ctrl) in res:
            if ctrl is not None and ctrl[0] == "raise":
                handled = False
                for h in node.handlers:
                    names = []
                    if h.type is None:
                        names = ["BaseException"]
                    elif isinstance(h.type, ast.Tuple):
                        names = [ast.unparse(e).split(".")[-1] for e in h.type.elts]
                    else:
                        names = [ast.unparse(h.type).split(".")[-1]]
                    if any(exc_isinstance(ctrl[1].cls, n) for n in names):
                        if h.name:
                            s.env[h.name] = SV("py", x=ctrl[1])
                        outs += self.exec_stmts(h.body, s)
                        handled = True
                        break
                if not handled:
                    outs.append((s, ctrl))
            else:
                outs.append((s, ctrl))
        return outs

    # ------------------------------------------------------------------ expressions
    def eval(self, node, st):
        T = type(node)
        m = getattr(self, "e_" + T.__name__, None)
        if m is None:
            raise Unsupported("expression %s (line %d)" % (T.__name__, getattr(node, "lineno", 0)))
        return m(node, st)

    def e_Constant(self, node, st):
        c = node.value
        if isinstance(c, bytes):
            arr = z3.K(Int, VInt(0))
            for i, b in enumerate(c):
                arr = z3.Store(arr, i, VInt(b))
            return SV("bytes", arr, x=z3.IntVal(len(c)))
        if c is Ellipsis:
            return SV("py", x=c)
        return from_py(c)

    def e_Name(self, node, st):
        n = node.id
        if n in st.env:
            v = st.env[n]
            if v.k == "poison":
                raise Unsupported("use of %s after loop without invariant" % v.x)
            return v
        if n in ("True", "False", "None"):
            return from_py({"True": True, "False": False, "None": None}[n])
        # module-level constant of the current file
        key = (self.cur_fn.file, n)
        if key in self.prog.module_consts:
            return self.eval(self.prog.module_consts[key], st)
        ci = self.prog.find_class(n, self.cur_fn.cls)
        if ci is not None:
            return SV("cls", x=ci)
        fi = self.prog.functions.get(self.cur_fn.file + "::" + n) or self.prog.functions.get(n)
        if fi is not None:
            return SV("func", x=(fi, {}))
        sp = self.schema.global_name(self, n, st)
        if sp is not None:
            return sp
        if "/" in self.cur_fn.qual:
            # a sibling nested function of the enclosing function
            sib = self.prog.find_function(self.cur_fn.file + "::" + self.cur_fn.qual.split("/")[0] + "/" + n)
            if sib is not None:
                return SV("func", x=(sib, {}))
        return SV("builtin", x=n)

    def e_Tuple(self, node, st):
        items = []
        for e in node.elts:
            if isinstance(e, ast.Starred):
                v = self.eval(e.value, st)
                if v.k != "tuple":
                    raise Unsupported("starred non-tuple in tuple display")
                items += v.x
            else:
                items.append(self.eval(e, st))
        return sv_tuple(items)

    def e_List(self, node, st):
        t = self.e_Tuple(node, st)
        return self.as_list(t, st)

    def e_Set(self, node, st):
        return self.as_set(self.e_Tuple(node, st), st)

    def e_Dict(self, node, st):
        if node.keys:
            raise Unsupported("non-empty dict display")
        return SV("dict", z3.K(Val, VNone), x=(EmptySet, "val"))

    def e_JoinedStr(self, node, st):
        return SV("py", x="<fstring>")

    def e_Lambda(self, node, st):
        return SV("func", x=(FuncInfo(self.cur_fn.qual + "/<lambda>", node, self.cur_fn.file, self.cur_fn.cls,
                                      "lambda"), st.env))

    def e_IfExp(self, node, st):
        c = z3.simplify(self.truthy(self.eval(node.test, st), st))
        if z3.is_true(c):
            return self.eval(node.body, st)
        if z3.is_false(c):
            return self.eval(node.orelse, st)
        s1 = st.fork()
        s1.assume(c)
        a = self.eval(node.body, s1)
        s2 = st.fork()
        s2.assume(z3.Not(c))
        b = self.eval(node.orelse, s2)
        self._no_heap_change(st, s1, s2, "conditional expression")
        return self.ite(c, a, b, st)

    def _no_heap_change(self, st, *others):
        for o in others[:-1] if isinstance(others[-1], str) else others:
            for k, v in o.heap.items():
                if k in st.heap and not z3.eq(v, st.heap[k]):
                    raise Unsupported("heap effect inside %s" % others[-1])

    def ite(self, c, a, b, st):
        if a.k == b.k and a.k in ("int", "bool", "str", "set", "uuid"):
            return SV(a.k, z3.If(c, a.t, b.t), cls=a.cls)
        if a.k == "ref" and b.k == "ref":
            return SV("ref", z3.If(c, a.t, b.t), cls=a.cls if a.cls == b.cls else None)
        if a.k == "tuple" and b.k == "tuple" and len(a.x) == len(b.x):
            return sv_tuple([self.ite(c, x, y, st) for x, y in zip(a.x, b.x)])
        if a.k == "gen" or b.k == "gen" or (a.k == "tuple" and not a.x) or (b.k == "tuple" and not b.x) \
                or (a.k == "py" and a.x == ()) or (b.k == "py" and b.x == ()):
            ba = self.bags_of(a, st)
            bb = self.bags_of(b, st)
            return SV("gen", x=[x.with_cond(c) for x in ba] + [x.with_cond(z3.Not(c)) for x in bb])
        if a.k in ("list", "bytes") and b.k == a.k:
            return SV(a.k, z3.If(c, a.t, b.t), x=z3.If(c, a.x, b.x), cls=a.cls)
        cls = a.cls if a.cls == b.cls else (a.cls or b.cls if (a.k == "none" or b.k == "none") else None)
        return self.schema.refine(SV("val", z3.If(c, to_val(a), to_val(b)), cls=cls))

    def e_BoolOp(self, node, st):
        # short-circuit: later operands are evaluated under the assumption that earlier ones allow it
        vals = []
        conds = []
        cur = st
        guards = []
        for i, e in enumerate(node.values):
            n_before = len(cur.pc)
            v = self.eval(e, cur)
            if cur is not st:
                # facts learned while evaluating a later operand (callee postconditions, definitions) hold
                # whenever that operand is evaluated at all: export them to the enclosing state under the guard
                for key, arr in cur.heap.items():
                    if key in st.heap and not z3.eq(arr, st.heap[key]):
                        raise Unsupported("heap effect inside a short-circuit operand")
                g = z3.And(*guards)
                for j in range(n_before, len(cur.pc)):
                    st.assume(z3.Implies(g, cur.pc[j]), decision=j not in cur.nondec)
            vals.append(v)
            if i < len(node.values) - 1:
                t = self.truthy(v, cur)
                nxt = cur.fork()
                gt = t if isinstance(node.op, ast.And) else z3.Not(t)
                nxt.assume(gt)
                guards.append(gt)
                conds.append(t)
                cur = nxt
        if all(v.k == "bool" for v in vals):
            ts = [v.t for v in vals]
            return sv_bool(z3.And(*ts) if isinstance(node.op, ast.And) else z3.Or(*ts))
        # general: value semantics
        res = vals[-1]
        for v, t in zip(reversed(vals[:-1]), reversed(conds)):
            if isinstance(node.op, ast.And):
                res = self.ite(t, res, v, st)
            else:
                res = self.ite(t, v, res, st)
        return res

    def _check_pure(self, a, b):
        pass

    def e_UnaryOp(self, node, st):
        v = self.eval(node.operand, st)
        if isinstance(node.op, ast.Not):
            return sv_bool(z3.Not(self.truthy(v, st)))
        if isinstance(node.op, ast.USub):
            return sv_int(-self.as_int(v, st))
        raise Unsupported("unary op")

    def e_BinOp(self, node, st):
        a = self.eval(node.left, st)
        b = self.eval(node.right, st)
        return self.binop(node.op, a, b, st)

    def binop(self, op, a, b, st, inplace=False):
        T = type(op)
        if a.k == "set" or b.k == "set":
            if a.k in ("ref", "val") or b.k in ("ref", "val"):
                raise Unsupported("set operator with wrapper object")
            sa, sb = self.as_set(a, st).t, self.as_set(b, st).t
            ecls = a.cls if a.k == "set" and a.cls else (b.cls if b.k == "set" else None)
            x = fresh("x", Val)
            if T is ast.BitOr:
                res = fresh("U", SetSort)
                st.define(z3.ForAll([x], z3.Select(res, x) == z3.Or(z3.Select(sa, x), z3.Select(sb, x))))
                return SV("set", res, cls=ecls)
            if T is ast.Sub and z3.eq(z3.simplify(sa), z3.simplify(EmptySet)):
                return SV("set", EmptySet, cls=ecls)        # {} - X
            if T is ast.Sub:
                res = fresh("D", SetSort)
                st.define(z3.ForAll([x], z3.Select(res, x) == z3.And(z3.Select(sa, x), z3.Not(z3.Select(sb, x)))))
                return SV("set", res, cls=ecls)
            if T is ast.BitAnd:
                res = fresh("I", SetSort)
                st.define(z3.ForAll([x], z3.Select(res, x) == z3.And(z3.Select(sa, x), z3.Select(sb, x))))
                return SV("set", res, cls=ecls)
            raise Unsupported("set operator")
        if a.k == "bytes" and T is ast.Add and b.k == "bytes":
            return self.bytes_concat(a, b, st)
        if a.k == "bytes" and T is ast.Mult or b.k == "bytes" and T is ast.Mult:
            by, n = (a, b) if a.k == "bytes" else (b, a)
            return self.schema.bytes_repeat(self, by, self.as_int(n, st), st)
        if T is ast.Mod and (a.k == "str" or (a.k == "py" and isinstance(a.x, str))):
            return SV("py", x="<formatted>")
        if a.k == "str" and b.k == "str" and T is ast.Add:
            return sv_str(z3.Concat(a.t, b.t))
        x, y = self.as_int(a, st, "left operand"), self.as_int(b, st, "right operand")
        if T is ast.Add:
            return sv_int(x + y)
        if T is ast.Sub:
            return sv_int(x - y)
        if T is ast.Mult:
            return sv_int(x * y)
        if T is ast.FloorDiv:
            return sv_int(self.floordiv(x, y, st))
        if T is ast.Mod:
            return sv_int(x - y * self.floordiv(x, y, st))
        raise Unsupported("binary op %s" % T.__name__)

    def floordiv(self, x, y, st):
        s2 = st.fork()
        s2.assume(y == 0)
        self.exc_paths.append((s2, Exc("ZeroDivisionError")))
        st.assume(y != 0)
        # python floor division; z3 div is euclidean-like (rounds so remainder >= 0)
        # python floor division from z3's euclidean div (remainder always >= 0)
        q = x / y
        return z3.If(y > 0, q, z3.If((x % y) == 0, q, q - 1))

    def bytes_concat(self, a, b, st):
        res = fresh("cat", z3.ArraySort(Int, Val))
        i = fresh("i", Int)
        st.define(z3.ForAll([i], z3.Select(res, i) == z3.If(i < a.x, z3.Select(a.t, i), z3.Select(b.t, i - a.x))))
        return SV("bytes", res, x=a.x + b.x)

    def e_Compare(self, node, st):
        left = self.eval(node.left, st)
        conj = []
        for op, rexpr in zip(node.ops, node.comparators):
            right = self.eval(rexpr, st)
            conj.append(self.compare(op, left, right, st))
            left = right
        return sv_bool(z3.And(*conj) if len(conj) > 1 else conj[0])

    def compare(self, op, a, b, st):
        T = type(op)
        if T is ast.Is:
            return self.py_is(a, b, st)
        if T is ast.IsNot:
            return z3.Not(self.py_is(a, b, st))
        if T is ast.Eq:
            return self.py_eq(a, b, st)
        if T is ast.NotEq:
            return z3.Not(self.py_eq(a, b, st))
        if T is ast.In:
            return self.contains(b, a, st)
        if T is ast.NotIn:
            return z3.Not(self.contains(b, a, st))
        x, y = self.as_int(a, st, "comparison operand"), self.as_int(b, st, "comparison operand")
        return {ast.Lt: x < y, ast.LtE: x <= y, ast.Gt: x > y, ast.GtE: x >= y}[T]

    def contains(self, cont, item, st):
        k = cont.k
        if k == "set":
            return z3.Select(cont.t, to_val(item))
        if k == "dict":
            return z3.Select(cont.x[0], to_val(item))
        if k == "tuple":
            return z3.Or([self.py_eq(item, e, st) for e in cont.x]) if cont.x else z3.BoolVal(False)
        if k == "range":
            a, b, s = cont.x
            x = self.as_int(item, st)
            return self.schema.in_range(x, self.as_int(a, st), self.as_int(b, st), self.as_int(s, st))
        if k in ("ref", "val"):
            ci = self.prog.classes.get(cont.cls) if cont.cls else None
            if ci is not None and ci.lookup("__contains__"):
                r = self.call_method(cont, ci, "__contains__", [item], {}, st)
                return self.truthy(r, st)
            sp = self.schema.contains_special(self, cont, item, st)
            if sp is not None:
                return sp
        if k == "list":
            i = fresh("i", Int)
            return z3.Exists([i], z3.And(0 <= i, i < cont.x, z3.Select(cont.t, i) == to_val(item)))
        if k == "nx_adj":
            return self.schema.nx.adj_contains(self, cont, item, st)
        if k == "nx_attr":
            return self.schema.nx.attr_contains(self, cont, item, st)
        raise Unsupported("'in' on %s (cls=%s)" % (k, cont.cls))

    def e_Attribute(self, node, st):
        obj = self.eval(node.value, st)
        return self.get_attr(obj, node.attr, st)

    def get_attr(self, obj, attr, st):
        k = obj.k
        from .schema import NAMEDTUPLES
        if k in ("tuple", "val") and obj.cls in NAMEDTUPLES:
            sp = self.schema.get_attr_special(self, obj, attr, st)
            if sp is not None:
                return sp
        if k == "descriptor":
            v = obj.x.get(attr)
            if v is None:
                raise Unsupported("descriptor attribute %s" % attr)
            return v if isinstance(v, SV) else from_py(v)
        if k == "cls":
            ci = obj.x
            if ci.is_enum and attr in ci.enum_members:
                return self.schema.enum_member(self.prog, ci, attr)
            if ci.is_enum and attr in ci.enum_auto:
                return SV("val", VEnum(z3.IntVal(self.schema.class_id(ci.qual)), z3.IntVal(ci.enum_auto[attr])),
                          cls=ci.qual, x="enum")
            sub = self.prog.classes.get(ci.qual + "." + attr)
            if sub is not None:
                return SV("cls", x=sub)
            m = ci.lookup(attr)
            if m is not None:
                return SV("boundmethod", x=(None, m, ci))
            sp = self.schema.class_attr_special(self, ci, attr, st)
            if sp is not None:
                return sp
            c = ci.lookup_const(attr)
            if c is not None:
                return self.eval(c, st)
            raise Unsupported("class attribute %s.%s" % (ci.qual, attr))
        if k == "range":
            return {"start": obj.x[0], "stop": obj.x[1], "step": obj.x[2]}[attr]
        if k == "iv" or (k == "val" and obj.cls == "Interval"):
            if attr == "begin":
                return sv_int(ivb(obj.t))
            if attr == "end":
                return sv_int(ive(obj.t))
            if attr == "data":
                return SV("ref", ivd(obj.t), cls=obj.x if isinstance(obj.x, str) else None)
            return SV("boundbuiltin", x=(obj, attr))
        if k in ("ref", "val") and obj.cls:
            ci = self.prog.classes.get(obj.cls)
            if ci is not None:
                g = ci.lookup_getter(attr)
                if g is not None:
                    return self.call_function(g, [obj], {}, st, self_cls=obj.cls)
                d = ci.lookup_descriptor(attr)
                if d is not None:
                    r = self.as_ref(obj, st, "receiver of .%s" % attr)
                    return self.read_field(st, r, obj.cls, "_" + attr)
                m = ci.lookup(attr)
                if m is not None:
                    return SV("boundmethod", x=(obj, m, ci))
                if ci.is_enum and attr == "value":
                    return sv_int(enum_(to_val(obj)))
                sf = self.schema.static_field(self, obj, attr)
                if sf is not None:
                    return sf
                r = self.as_ref(obj, st, "receiver of .%s" % attr)
                return self.schema.post_read(obj, attr, self.read_field(st, r, obj.cls, attr))
            sp = self.schema.get_attr_special(self, obj, attr, st)
            if sp is not None:
                return sp
        if k == "super":
            ci, selfsv = obj.x
            for c2 in ci.mro[1:]:
                if attr in c2.methods:
                    return SV("boundmethod", x=(selfsv, c2.methods[attr], c2))
            raise Unsupported("super().%s not found in package classes" % attr)
        if k in ("tuple", "val") and obj.cls:
            sp = self.schema.get_attr_special(self, obj, attr, st)
            if sp is not None:
                return sp
        if k in ("set", "list", "dict", "bytes", "str", "tuple", "gen", "seq", "mapseq", "nx_keydict"):
            return SV("boundbuiltin", x=(obj, attr))
        if k == "val" and attr == "value" and obj.x == "enum":
            return sv_int(enum_(obj.t))
        if k in ("int", "bool") and attr == "__index__":
            return SV("boundbuiltin", x=(obj, "__index__"))
        if k == "builtin" or k == "py":
            return SV("builtin", x=(obj.x if isinstance(obj.x, str) else repr(obj.x)) + "." + attr)
        sp = self.schema.get_attr_special(self, obj, attr, st)
        if sp is not None:
            return sp
        raise Unsupported("attribute .%s on %s (cls=%s)" % (attr, k, obj.cls))

    def e_Subscript(self, node, st):
        cont = self.eval(node.value, st)
        if isinstance(node.slice, ast.Slice):
            return self.slice_(cont, node.slice, st)
        if cont.k == "builtin" or cont.k == "cls":
            # typing subscripts: LazyIntervalTree[int, ByteBlock] etc.; remember the element type argument
            if cont.k == "cls" and cont.x.qual == "LazyIntervalTree":
                self._pending_type_arg = ast.unparse(node.slice).split(",")[-1].strip().strip(")")
            return cont
        idx = self.eval(node.slice, st)
        return self.get_item(cont, idx, st)

    def get_item(self, cont, idx, st):
        k = cont.k
        if k == "tuple":
            if idx.k == "int" and z3.is_int_value(z3.simplify(idx.t)):
                i = z3.simplify(idx.t).as_long()
                if -len(cont.x) <= i < len(cont.x):
                    return cont.x[i]
                self.exc_paths.append((st.fork(), Exc("IndexError")))
                st.assume(z3.BoolVal(False))
                return sv_none()
            raise Unsupported("symbolic tuple index")
        if k == "dict":
            key = to_val(idx)
            dom, vk = cont.x
            if cont.cls == "defaultdict:set":
                # d[k] on a missing key inserts a fresh empty set
                present = z3.Select(dom, key)
                newmap = z3.If(present, cont.t, z3.Store(cont.t, key, EmptySet))
                self.card_axioms_store(st, dom, key, True)
                new = SV("dict", newmap, x=(z3.Store(dom, key, True), vk), cls=cont.cls)
                cont.wb(st, new)
                cur = z3.Select(newmap, key)
                return SV("set", cur, wb=self._nested_set_wb(cont, key))
            s2 = st.fork()
            s2.assume(z3.Not(z3.Select(dom, key)))
            self.exc_paths.append((s2, Exc("KeyError")))
            st.assume(z3.Select(dom, key))
            if vk == "val":
                return self.schema.refine(SV("val", z3.Select(cont.t, key)))
            return SV("set", z3.Select(cont.t, key), wb=self._nested_set_wb(cont, key))
        if k in ("list", "bytes"):
            i = self.as_int(idx, st)
            i = z3.If(i < 0, i + cont.x, i)
            s2 = st.fork()
            s2.assume(z3.Not(z3.And(0 <= i, i < cont.x)))
            self.exc_paths.append((s2, Exc("IndexError")))
            st.assume(z3.And(0 <= i, i < cont.x))
            return self.schema.refine(SV("val", z3.Select(cont.t, i), cls=cont.cls))
        if k in ("ref", "val"):
            ci = self.prog.classes.get(cont.cls) if cont.cls else None
            if ci is not None and ci.lookup("__getitem__"):
                return self.call_method(cont, ci, "__getitem__", [idx], {}, st)
        sp = self.schema.get_item_special(self, cont, idx, st)
        if sp is not None:
            return sp
        raise Unsupported("subscript on %s (cls=%s)" % (k, cont.cls))

    def _nested_set_wb(self, cont, key):
        """write-back for a set stored inside a dict (d[k].add(x)): re-read the dict in the current state
        and store the new set under the key"""
        def wb(st2, newset, cont=cont, key=key):
            d = cont.orig(st2) if cont.orig is not None else cont
            new = SV("dict", z3.Store(d.t, key, newset.t), x=d.x, cls=d.cls)
            if cont.wb is None:
                raise Unsupported("nested set write-back without origin")
            cont.wb(st2, new)
        return wb

    def slice_(self, cont, sl, st):
        if sl.step is not None:
            raise Unsupported("extended slice")
        lo = self.eval(sl.lower, st) if sl.lower is not None else None
        hi = self.eval(sl.upper, st) if sl.upper is not None else None
        if cont.k in ("list", "bytes"):
            n = cont.x
            clamp = lambda v: z3.If(v < 0, z3.If(v + n < 0, 0, v + n), z3.If(v > n, n, v))
            l = clamp(self.as_int(lo, st)) if lo is not None else z3.IntVal(0)
            h = clamp(self.as_int(hi, st)) if hi is not None else n
            ln = z3.If(h > l, h - l, 0)
            res = fresh("slice", z3.ArraySort(Int, Val))
            i = fresh("i", Int)
            st.define(z3.ForAll([i], z3.Implies(z3.And(0 <= i, i < ln), z3.Select(res, i) == z3.Select(cont.t, l + i))))
            return SV(cont.k, res, x=ln, cls=cont.cls)
        if cont.k == "tuple":
            if (lo is None or (lo.k == "int" and z3.is_int_value(lo.t))) and \
                    (hi is None or (hi.k == "int" and z3.is_int_value(hi.t))):
                l = lo.t.as_long() if lo is not None else None
                h = hi.t.as_long() if hi is not None else None
                return sv_tuple(cont.x[l:h])
        raise Unsupported("slice of %s" % cont.k)

    def e_GeneratorExp(self, node, st):
        return self.comprehension(node.generators, node.elt, st)

    def e_ListComp(self, node, st):
        raise Unsupported("list comprehension")

    def e_SetComp(self, node, st):
        return self.as_set(self.comprehension(node.generators, node.elt, st), st)

    def comprehension(self, gens, elt, st):
        """(elt for x in it if c ...) -> bags.  Evaluated in the *current* state (see DESIGN 2.3:
        generators are consumed where they are returned)."""
        if len(gens) == 1:
            g = gens[0]
            it = self.eval(g.iter, st)
            bags = self.bags_of(it, st)

            def body(s, elem):
                self.assign(g.target, elem, s)
                for cexpr in g.ifs:
                    c = self.truthy(self.eval(cexpr, s), s)
                    s.assume(c)
                v = self.eval(elt, s)
                return [(s, None, v)]
            mark_e = len(self.exc_paths)
            mark_s = serial_mark()
            pc_len = len(st.pc)
            outs = self.iterate_stateless(st, bags, body, "generator expression in %s" % self.cur_target,
                                          collect="values")
            for (s2, ctrl) in outs:
                self.exc_paths.append((s2, ctrl[1]))
            # the evaluation continues normally only if no element raised: for every element, none of the exceptional
            # conditions holds (each exceptional path carries its condition over the element's binders)
            # (only for contracts that declare that their generator expressions are consumed completely - checked by
            # inspection; a partially consumed generator, e.g. under any(), may skip an element that would raise)
            fully = getattr(self.cur_contract, "generators_fully_consumed", False)
            for (se, _exc) in (self.exc_paths[mark_e:] if fully else []):
                if len(se.pc) <= pc_len:
                    continue
                dec, defs = local_cond(se, pc_len, mark_s)
                vs = consts_since([dec, defs], mark_s)
                cond_e = z3.And(defs, dec)
                st.assume(z3.ForAll(vs, z3.Not(cond_e)) if vs else z3.Not(cond_e), "no element of the generator raised")
            return SV("gen", x=self._last_value_bags)
        mark0 = serial_mark()

        def rec(i, s, binders, conds):
            if i == len(gens):
                v = self.eval(elt, s)
                # conditions assumed while evaluating (callee posts etc.) are part of the element condition
                cond, defs = local_cond(s, len(st.pc), mark0, sv_terms(v))
                aux = [x for x in consts_since([cond, defs] + sv_terms(v), mark0) if not any(x.eq(y) for y in binders)]
                return [Bag(binders, cond, v, defs=defs, aux=aux)]
            g = gens[i]
            it = self.eval(g.iter, s)
            out = []
            for b in self.bags_of(it, s):
                news, cond, elem, bdefs = b.instantiate("c")
                s2 = s.fork()
                s2.assume(cond)
                s2.define(bdefs)
                self.assign(g.target, elem, s2)
                cs = [cond]
                for cexpr in g.ifs:
                    c = self.truthy(self.eval(cexpr, s2), s2)
                    s2.assume(c)
                    cs.append(c)
                out += rec(i + 1, s2, binders + news, conds + cs)
                for key, arr in s2.heap.items():
                    if key in st.heap and not z3.eq(arr, st.heap[key]):
                        # heap effect inside a generator expression: the consumer must fuse it
                        raise Unsupported("generator expression with heap effects (needs fusion)")
            return out
        bags = rec(0, st, [], [])
        return SV("gen", x=bags)

    # ------------------------------------------------------------------ calls
    def e_Call(self, node, st):
        f = node.func
        if (isinstance(f, ast.Attribute) and f.attr == "extend" and len(node.args) == 1 and not node.keywords
                and isinstance(node.args[0], ast.GeneratorExp)):
            recv = self.eval(f.value, st)
            if recv.k == "pbrep" and self.schema.pb.is_msg(self.schema.pb.fdef(recv.x[1], recv.x[2])["type"]):
                # repeated message field filled by  (callee(e) for e in S)  with an allocating callee under contract
                return self.schema.pb.extend_map(self, recv, node.args[0], st)
        if (isinstance(f, ast.Attribute) and f.attr == "extend" and len(node.args) == 1 and not node.keywords
                and isinstance(node.args[0], ast.Call) and isinstance(node.args[0].func, ast.Attribute)):
            recv = self.eval(f.value, st)
            if recv.k == "pbrep" and self.schema.pb.is_msg(self.schema.pb.fdef(recv.x[1], recv.x[2])["type"]):
                inner = node.args[0]
                callee = self.eval(inner.func, st)
                if callee.k == "boundmethod" and callee.x[0] is not None and callee.x[1].is_generator() \
                        and not inner.args and not inner.keywords:
                    return self.schema.pb.extend_genfunc(self, recv, callee, st)
        # evaluate arguments
        fv = self.eval(f, st)
        args = []
        for a in node.args:
            if isinstance(a, ast.Starred):
                v = self.eval(a.value, st)
                if v.k == "tuple":
                    args += v.x
                elif v.k == "range_indices":
                    args += v.x
                else:
                    args.append(SV("star", x=v))
            else:
                args.append(self.eval(a, st))
        kwargs = {}
        for kw in node.keywords:
            if kw.arg is None:
                raise Unsupported("**kwargs call")
            kwargs[kw.arg] = self.eval(kw.value, st)
        return self.call_value(fv, args, kwargs, st, node)

    def call_value(self, fv, args, kwargs, st, node=None):
        k = fv.k
        if k == "func":
            fi, closure = fv.x
            return self.call_function(fi, args, kwargs, st, closure=closure)
        if k == "boundmethod":
            obj, m, ci = fv.x
            if obj is None:
                # Class.method(...) : classmethod/staticmethod or unbound
                if m.kind == "classmethod":
                    return self.call_function(m, [SV("cls", x=ci)] + args, kwargs, st, self_cls=ci.qual)
                return self.call_function(m, args, kwargs, st, self_cls=ci.qual)
            if m.kind == "staticmethod":
                return self.call_function(m, args, kwargs, st, self_cls=ci.qual)
            if m.kind == "classmethod":
                return self.call_function(m, [SV("cls", x=ci)] + args, kwargs, st, self_cls=ci.qual)
            sp = self.schema.call_method_special(self, obj, m, ci, args, kwargs, st)
            if sp is not None:
                return sp
            return self.call_function(m, [obj] + args, kwargs, st, self_cls=obj.cls)
        if k == "cls":
            return self.construct(fv.x, args, kwargs, st)
        if k == "builtin":
            return self.schema.call_builtin(self, fv.x, args, kwargs, st, node)
        if k == "boundbuiltin":
            obj, name = fv.x
            return self.schema.call_builtin_method(self, obj, name, args, kwargs, st, node)
        if k == "super":
            raise Unsupported("super() value call")
        raise Unsupported("call of %s (cls=%s)" % (k, fv.cls))

    def call_method(self, obj, ci, name, args, kwargs, st):
        m = ci.lookup(name)
        return self.call_function(m, [obj] + args, kwargs, st, self_cls=obj.cls)

    def call_function(self, fi, args, kwargs, st, closure=None, self_cls=None, force_inline=False):
        if getattr(fi, "foreign_decorators", None):
            raise Unsupported("call to %s, which is decorated with %s" % (fi.qual, ", ".join(fi.foreign_decorators)))
        cc = self.cur_contract
        if cc is not None and ((fi.file + "::" + fi.qual) in getattr(cc, "inline_callees", ())
                               or (getattr(cc, "inline_all", False)
                                   and (fi.file + "::" + fi.qual) not in getattr(cc, "contract_callees", ()))):
            # the contract under verification asks for this callee's real body (e.g. loader code, which runs while the
            # callee's usual precondition - a fully linked IR - does not hold yet)
            force_inline = True
        c = None if (force_inline or self.reg.prefers_inline(fi)) else self.reg.find_for_call(fi, self_cls, args, kwargs)
        if c is not None and c is not self.cur_contract_for_body(fi):
            return self.call_by_contract(c, args, kwargs, st, fi)
        if c is not None and c is self.cur_contract_for_body(fi) and self.inline_depth > 0:
            # recursive call to the function under verification: use its contract
            return self.call_by_contract(c, args, kwargs, st, fi)
        if not force_inline and not self.reg.may_inline(fi):
            raise Unsupported("call to %s::%s has no contract and is not inlineable" % (fi.file, fi.qual))
        return self.inline(fi, args, kwargs, st, closure, self_cls)

    def cur_contract_for_body(self, fi):
        c = self.cur_contract
        if c is not None and c.fi is not None and c.fi.node is fi.node:
            return c
        return None

    def bind_params(self, fi, args, kwargs, st, closure):
        names, vararg, kwonly = fi.params()
        env = dict(closure or {})
        defaults = fi.defaults()
        args = list(args)
        for i, n in enumerate(names):
            if i < len(args):
                env[n] = args[i]
            elif n in kwargs:
                env[n] = kwargs.pop(n)
            elif n in defaults:
                env[n] = self.eval_default(defaults[n], fi, st)
            else:
                raise Unsupported("missing argument %s for %s" % (n, fi.qual))
        extra = args[len(names):]
        if vararg:
            env[vararg] = sv_tuple(extra)
        elif extra:
            raise Unsupported("too many positional args for %s" % fi.qual)
        for n in kwonly:
            if n in kwargs:
                env[n] = kwargs.pop(n)
            elif n in defaults:
                env[n] = self.eval_default(defaults[n], fi, st)
            else:
                raise Unsupported("missing kw-only argument %s for %s" % (n, fi.qual))
        if kwargs:
            raise Unsupported("unexpected kwargs %s for %s" % (list(kwargs), fi.qual))
        return env

    def eval_default(self, node, fi, st):
        saved = self.cur_fn
        self.cur_fn = fi
        try:
            s = st.fork()
            s.env = {}
            return self.eval(node, s)
        finally:
            self.cur_fn = saved

    def inline(self, fi, args, kwargs, st, closure=None, self_cls=None):
        if self.inline_depth > 12:
            raise Unsupported("inline depth exceeded at %s" % fi.qual)
        env = self.bind_params(fi, args, dict(kwargs), st, closure)
        # static class of self
        if self_cls and fi.kind in ("method", "getter", "setter") and fi.params()[0]:
            sname = fi.params()[0][0]
            sv = env[sname]
            if sv.k in ("ref", "val") and sv.cls is None:
                env[sname] = SV(sv.k, sv.t, cls=self_cls, x=sv.x)
        # annotate params with static classes from annotations
        for pname in list(env):
            ann = fi.annotation(pname) if not isinstance(fi.node, ast.Lambda) else None
            sv = env.get(pname)
            if ann is not None and isinstance(sv, SV) and sv.k in ("ref", "val") and sv.cls is None:
                cn = self.schema.annotation_class(self.prog, ann, fi)
                if cn:
                    env[pname] = SV(sv.k, sv.t, cls=cn)
        saved = (self.cur_fn, self.loop_counter, self.cur_target)
        self.cur_fn = fi
        self.loop_counter = 0
        self.cur_target = fi.file + "::" + fi.qual
        self.inline_depth += 1
        try:
            sub = st.fork()
            sub.env = env
            L = len(st.pc)
            nbags = len(st.bags)
            sub.entry_mark = L
            sub.entry_serial = serial_mark()
            if isinstance(fi.node, ast.Lambda):
                val = self.eval(fi.node.body, sub)
                outs = [(sub, ("return", val))]
            else:
                body = strip_docstring(fi.node.body)
                outs = self.exec_stmts(body, sub)
        finally:
            self.inline_depth -= 1
            self.cur_fn, self.loop_counter, self.cur_target = saved
        normal = []
        for (s, ctrl) in outs:
            if ctrl is not None and ctrl[0] == "raise":
                s.env = st.env
                s.entry_mark = st.entry_mark
                s.entry_serial = st.entry_serial
                self.exc_paths.append((s, ctrl[1]))
            elif ctrl is None or ctrl[0] == "return":
                normal.append((s, ctrl[1] if ctrl else sv_none()))
            else:
                raise Unsupported("break/continue escaping function")
        is_gen = fi.is_generator()
        if not normal:
            st.assume(z3.BoolVal(False), "call to %s always raises" % fi.qual)
            return sv_none()
        if is_gen:
            bags = []
            for (s, _) in normal:
                bags += s.bags[nbags:]
            # heap effects inside generators are not supported when inlined
            from .schema import REGION_KEYS
            changed = set()
            for (s, _) in normal:
                for key, arr in s.heap.items():
                    if key in st.heap and not z3.eq(arr, st.heap[key]):
                        changed.add(key.split("#")[0])
            if changed:
                # effects confined to the lazily maintained index region R are benign (the region-aware loop rule has
                # already replaced R by arbitrary arrays satisfying the region invariant): adopt them
                region_ok = (changed <= set(REGION_KEYS) and len(normal) == 1
                             and getattr(self.cur_contract, "region_invariant", None) is not None)
                if not region_ok:
                    raise Unsupported("inlined generator %s has heap effects" % fi.qual)
                s1 = normal[0][0]
                st.pc = s1.pc
                st.nondec = s1.nondec
                st.heap = s1.heap
                st.trace = s1.trace
            # binders of the caller context are already included via st.binders (fork)
            # strip the caller's binder prefix: bags are values, caller binders stay free
            res = []
            for b in bags:
                res.append(Bag([x for x in b.binders if not any(x is y for y in st.binders)], b.cond, b.elem, b.tag,
                               b.defs, b.aux))
            return SV("gen", x=res)
        if len(normal) == 1:
            s, v = normal[0]
            st.pc = s.pc
            st.nondec = s.nondec
            st.heap = s.heap
            st.trace = s.trace
            return v
        # merge
        conds = [z3.And(*s.pc[L:]) if len(s.pc) > L else z3.BoolVal(True) for (s, _) in normal]
        st.assume(z3.Or(*conds))
        keys = set()
        for (s, _) in normal:
            keys |= set(s.heap)
        for key in keys:
            base = None
            arrs = []
            for (s, _) in normal:
                if key not in s.heap:
                    s.heap[key] = self.field_array(st, key)
                arrs.append(s.heap[key])
            if all(z3.eq(a, arrs[0]) for a in arrs):
                st.heap[key] = arrs[0]
            else:
                acc = arrs[-1]
                for c, a in zip(reversed(conds[:-1]), reversed(arrs[:-1])):
                    acc = z3.If(c, a, acc)
                st.heap[key] = acc
        val = normal[-1][1]
        for c, (s, v) in zip(reversed(conds[:-1]), reversed(normal[:-1])):
            val = self.ite(c, v, val, st)
        return val

    def construct(self, ci, args, kwargs, st):
        c = self.reg.find_constructor(ci)
        if c is not None:
            return self.call_by_contract(c, args, kwargs, st, None)
        sp = self.schema.construct_special(self, ci, args, kwargs, st)
        if sp is not None:
            return sp
        if ci.is_enum:
            return self.schema.enum_from_value(self, ci, args[0], st)
        init = ci.lookup("__init__")
        if init is None:
            raise Unsupported("construction of %s: no __init__ in the package" % ci.qual)
        # generic construction: a fresh object of that class, then the real __init__ (contract or inlined)
        r = self.fresh_object(st, ci.qual)
        obj = SV("ref", r, cls=ci.qual, x=getattr(self, "_pending_type_arg", None))
        self._pending_type_arg = None
        self.call_function(init, [obj] + args, kwargs, st, self_cls=ci.qual)
        return obj

    # ------------------------------------------------------------------ calls by contract
    def call_by_contract(self, c, args, kwargs, st, fi=None):
        return c.apply(self, args, kwargs, st)

    # ------------------------------------------------------------------ cardinality lemmas (instantiated)
    def card_axioms_store(self, st, s, x, flag):
        """Instantiate the finite-set cardinality axioms for Store(s, x, flag)."""
        s2 = z3.Store(s, x, flag)
        if flag:
            st.facts.append(Card(s2) == Card(s) + z3.If(z3.Select(s, x), 0, 1))
        else:
            st.facts.append(Card(s2) == Card(s) - z3.If(z3.Select(s, x), 1, 0))
        st.facts.append(Card(s) >= 0)
        st.facts.append(Card(s2) >= 0)
        st.facts.append((Card(s) == 0) == (s == EmptySet))
        st.facts.append((Card(s2) == 0) == (s2 == EmptySet))


def _isinstance_narrowing(test):
    """([(name, cls)] holding when the test is true, [...] when it is false) for tests built from
    isinstance(name, Cls), not, and, or"""
    if isinstance(test, ast.Call) and isinstance(test.func, ast.Name) and test.func.id == "isinstance" \
            and len(test.args) == 2 and isinstance(test.args[0], ast.Name) and isinstance(test.args[1], (ast.Name, ast.Attribute)):
        return [(test.args[0].id, ast.unparse(test.args[1]))], []
    if isinstance(test, ast.UnaryOp) and isinstance(test.op, ast.Not):
        t, f = _isinstance_narrowing(test.operand)
        return f, t
    if isinstance(test, ast.BoolOp):
        parts = [_isinstance_narrowing(v) for v in test.values]
        if isinstance(test.op, ast.And):
            return [x for t, _ in parts for x in t], []
        return [], [x for _, f in parts for x in f]
    return [], []


class _RegionWrite(Exception):
    pass


def _san(key):
    return key.replace("#", "_").replace("$", "S").replace(".", "_")


def _is_region_name(name, rkeys):
    base = name.split("!")[0]
    for pre in ("H0_", "HR_", "HL_", "H_"):
        if base.startswith(pre):
            base = base[len(pre):]
            break
    else:
        return False
    return _san(base) in {_san(k) for k in rkeys}


def _is_region_array(x, rkeys):
    return _is_region_name(x.decl().name(), rkeys)


def _named_consts(exprs):
    seen, out = set(), set()
    stack = [e for e in exprs if e is not None]
    while stack:
        e = stack.pop()
        i = e.get_id()
        if i in seen:
            continue
        seen.add(i)
        if z3.is_quantifier(e):
            stack.append(e.body())
        elif z3.is_app(e):
            if e.num_args() == 0 and e.decl().kind() == z3.Z3_OP_UNINTERPRETED:
                out.add(e.decl().name())
            else:
                stack.extend(e.children())
    return out


def local_cond(st, mark, serial, extra_terms=()):
    """-> (decisions, definitions): see State.assume / Bag."""
    dec, other = [], []
    for i in range(mark, len(st.pc)):
        (other if i in st.nondec else dec).append(st.pc[i])
    if not other:
        return (z3.And(*dec) if dec else z3.BoolVal(True)), z3.BoolVal(True)
    aux = {c.get_id() for c in consts_since(dec + list(extra_terms), serial)}
    other_consts = [(f, {c.get_id() for c in consts_since([f], serial)}) for f in other]
    chosen = []
    changed = True
    while changed:
        changed = False
        rest = []
        for f, cs in other_consts:
            if cs & aux:
                chosen.append(f)
                if not cs <= aux:
                    aux |= cs
                changed = True
            else:
                rest.append((f, cs))
        other_consts = rest
    return (z3.And(*dec) if dec else z3.BoolVal(True)), (z3.And(*chosen) if chosen else z3.BoolVal(True))


def _assigned_names(stmts):
    out = set()
    for st in stmts:
        for n in ast.walk(st):
            if isinstance(n, (ast.Assign, ast.AugAssign, ast.AnnAssign)):
                tgts = n.targets if isinstance(n, ast.Assign) else [n.target]
                for t in tgts:
                    for m in ast.walk(t):
                        if isinstance(m, ast.Name) and isinstance(m.ctx, ast.Store):
                            out.add(m.id)
            elif isinstance(n, ast.For):
                out |= _target_names(n.target)
    return out


def _target_names(t):
    return {m.id for m in ast.walk(t) if isinstance(m, ast.Name)}
