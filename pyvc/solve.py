"""Discharge obligations: z3 first, cvc5 on the same SMT-LIB text for whatever z3 leaves open.

Verdicts per obligation:  proved (unsat) | refuted (sat, with model text) | unknown (timeout / unknown).
Cover obligations (vacuity guards) are the other way round: they must be *satisfiable*.
Queries run in a process pool; each is shipped as SMT-LIB2 text.
"""
import hashlib
import json
import os
import subprocess
import tempfile
import time
from concurrent.futures import ProcessPoolExecutor

import z3


def to_smt2(assumptions, goal, cover=False):
    s = z3.Solver()
    for a in assumptions:
        s.add(a)
    if not cover:
        s.add(z3.Not(goal))
    return s.to_smt2()


def _run_z3(text, timeout_ms, seed=0):
    t0 = time.time()
    s = z3.Solver()
    s.set("timeout", timeout_ms)
    if seed:
        s.set("random_seed", seed)
        z3.set_param("smt.random_seed", seed)
    try:
        s.from_string(text)
        r = s.check()
    except z3.Z3Exception as e:
        return ("error", str(e), time.time() - t0)
    dt = time.time() - t0
    if r == z3.unsat:
        return ("unsat", "", dt)
    if r == z3.sat:
        try:
            m = s.model()
            txt = "\n".join("%s = %s" % (d.name(), m[d]) for d in sorted(m.decls(), key=lambda d: d.name())
                            if d.arity() == 0)
        except Exception as e:  # pragma: no cover
            txt = "<model unavailable: %s>" % e
        return ("sat", txt, dt)
    return ("unknown", s.reason_unknown(), dt)


Z3_CLI = os.path.join(os.path.dirname(os.path.dirname(os.path.abspath(__file__))), "build", "venv", "bin", "z3")


def _run_z3_cli(text, timeout_ms, seed=0):
    """z3 as a separate process with a hard time limit: queries over the theory of sequences can ignore the soft
    timeout of the in-process API."""
    t0 = time.time()
    if not os.path.exists(Z3_CLI):
        return _run_z3(text, timeout_ms, seed)
    with tempfile.NamedTemporaryFile("w", suffix=".smt2", delete=False) as f:
        f.write(text + "\n(get-model)\n")
        path = f.name
    secs = max(1, int(timeout_ms / 1000 + 0.999))
    try:
        p = subprocess.run([Z3_CLI, "-smt2", "-T:%d" % secs, "smt.random_seed=%d" % seed, path], capture_output=True, text=True,
                           timeout=secs + 10)
        out = p.stdout.strip().splitlines()
        res = out[0].strip() if out else "unknown"
        info = "\n".join(out[1:60]) if res == "sat" else (out[0] if out else "")
    except Exception as e:
        res, info = "unknown", "killed after hard time limit (%s)" % type(e).__name__
    finally:
        os.unlink(path)
    return (res if res in ("sat", "unsat") else "unknown", info, time.time() - t0)


def _z3(text, timeout_ms, seed=0):
    return _run_z3_cli(text, timeout_ms, seed) if "seq." in text else _run_z3(text, timeout_ms, seed)


def _run_cvc5(text, timeout_ms):
    t0 = time.time()
    exe = "/usr/bin/cvc5"
    if not os.path.exists(exe):
        return ("unknown", "cvc5 missing", 0.0)
    with tempfile.NamedTemporaryFile("w", suffix=".smt2", delete=False) as f:
        f.write("(set-logic ALL)\n" + text)
        path = f.name
    try:
        p = subprocess.run([exe, "--tlimit=%d" % timeout_ms, "--strings-exp", path], capture_output=True,
                           text=True, timeout=timeout_ms / 1000 + 5)
        out = p.stdout.strip().splitlines()
        res = out[0] if out else "unknown"
    except Exception as e:
        res = "unknown"
    finally:
        os.unlink(path)
    return (res if res in ("sat", "unsat") else "unknown", "", time.time() - t0)


def _job(args):
    """Portfolio.  z3 through the API with a short budget (almost every obligation is discharged in milliseconds), then
    the z3 command-line front end (its default tactic pipeline decides some quantified queries the plain SMT core does
    not; it is also the only way to get a hard time limit), then cvc5 on the same SMT-LIB text, then the z3 command
    line again with the full budget.  Queries over sequences skip the in-process attempt (soft timeouts can be ignored
    there)."""
    name, text, cover, timeout_ms, use_cvc5, prefer = args[:6]
    no_api = len(args) > 6 and args[6]
    total = 0.0
    seqq = ("seq." in text) or no_api
    quick = min(timeout_ms, 4000)
    if prefer == "cvc5":
        r, info, dt = _run_cvc5(text, timeout_ms)
        total += dt
        if r in ("sat", "unsat"):
            return (name, r, info, total, "cvc5")
    r, info = "unknown", ""
    if not seqq:
        r, info, dt = _run_z3(text, quick)
        total += dt
        if r in ("sat", "unsat"):
            return (name, r, info, total, "z3")
    r1, info1, dt = _run_z3_cli(text, quick)
    total += dt
    if r1 in ("sat", "unsat"):
        return (name, r1, info1, total, "z3cli")
    if cover:
        return (name, r1, info1 or info, total, "z3")
    if use_cvc5 and prefer != "cvc5":
        r2, info2, dt2 = _run_cvc5(text, timeout_ms)
        total += dt2
        if r2 in ("sat", "unsat"):
            return (name, r2, info2, total, "cvc5")
    if timeout_ms > quick:
        r3, info3, dt3 = _run_z3_cli(text, timeout_ms, 0)
        total += dt3
        if r3 in ("sat", "unsat"):
            return (name, r3, info3, total, "z3cli")
    return (name, "unknown", info1 or info, total, "z3+z3cli+cvc5")


class Result:
    def __init__(self, ob, status, info, secs, backend):
        self.ob = ob
        self.status = status      # proved | refuted | unknown | covered | vacuous
        self.info = info
        self.secs = secs
        self.backend = backend


CACHE_DIR = os.path.join(os.path.dirname(os.path.dirname(os.path.abspath(__file__))), "build", "vccache")


def _cache_get(key):
    p = os.path.join(CACHE_DIR, key[:2], key + ".json")
    try:
        with open(p) as f:
            return json.load(f)
    except Exception:
        return None


def _cache_put(key, val):
    d = os.path.join(CACHE_DIR, key[:2])
    try:
        os.makedirs(d, exist_ok=True)
        tmp = os.path.join(d, key + ".tmp%d" % os.getpid())
        with open(tmp, "w") as f:
            json.dump(val, f)
        os.replace(tmp, os.path.join(d, key + ".json"))
    except Exception:
        pass


def _run_pool(payload, jobs):
    """Run the jobs in worker processes.  The in-process z3 API only has a soft timeout, which some queries ignore; a job
    that does not come back within its whole budget plus a margin is abandoned: the workers are killed and the jobs that
    were still open are run again with the command-line solvers only (hard time limits)."""
    import concurrent.futures as cf
    if not payload:
        return []
    if jobs == 1 or len(payload) <= 2:
        # still in a worker process, so that a hang can be cut
        jobs = 1 if jobs == 1 else len(payload)
    results = {}
    open_jobs = list(payload)
    attempt = 0
    while open_jobs:
        attempt += 1
        no_api = attempt > 2          # second attempt: same portfolio again (hangs are not deterministic); third: no API
        batch = [tuple(p[:6]) + (no_api,) for p in open_jobs]
        budget = max(p[3] for p in batch) / 1000.0
        stall = 8 + 2 * budget + 60          # API + CLI quick, cvc5, CLI full, margin
        ex = cf.ProcessPoolExecutor(max_workers=min(jobs, len(batch)))
        futs = {ex.submit(_job, p): p for p in batch}
        pending = set(futs)
        hung = False
        while pending:
            done, pending = cf.wait(pending, timeout=stall, return_when=cf.FIRST_COMPLETED)
            if not done:
                hung = True
                break
            for f_ in done:
                try:
                    out = f_.result()
                except Exception as e:        # a crashed worker: treated like a hang
                    hung = True
                    continue
                results[out[0]] = out
        if hung:
            for proc in list(getattr(ex, "_processes", {}).values()):
                try:
                    proc.kill()
                except Exception:
                    pass
            ex.shutdown(wait=False, cancel_futures=True)
        else:
            ex.shutdown(wait=True)
        open_jobs = [p for p in open_jobs if p[0] not in results]
        if open_jobs and attempt >= 3:
            # even the command-line runs did not return: give up on these (verdict unknown)
            for p in open_jobs:
                results[p[0]] = (p[0], "unknown", "solver did not return within the hard limit", 0.0, "none")
            open_jobs = []
    return [results[p[0]] for p in payload]


def discharge(obligations, timeout_ms=10000, jobs=None, use_cvc5=True, stats=None):
    """Verdicts for *byte-identical* SMT-LIB queries are reused from build/vccache (several properties share
    obligations; the queries themselves are regenerated from /repo's source on every run)."""
    jobs = jobs or min(16, os.cpu_count() or 4)
    payload = []
    results = [None] * len(obligations)
    keys = {}
    use_cache = not os.environ.get("VERIF_NO_VC_CACHE")
    hits = 0
    for i, ob in enumerate(obligations):
        cover = ob.kind == "cover"
        text = to_smt2(ob.assumptions, ob.goal, cover)
        key = hashlib.sha256((z3.get_version_string() + ("C" if cover else "A") + text).encode()).hexdigest()
        keys[i] = key
        hit = _cache_get(key) if use_cache else None
        if hit is not None:
            results[i] = Result(ob, hit["status"], hit.get("info", ""), 0.0, hit["backend"] + "(cached)")
            hits += 1
            continue
        t_ob = (ob.info or {}).get("timeout_ms") or timeout_ms
        payload.append(("%d" % i, text, cover, min(t_ob, 3000) if cover else t_ob, use_cvc5 and not cover,
                        (ob.info or {}).get("prefer")))
    if stats is not None:
        stats["cache_hits"] = stats.get("cache_hits", 0) + hits
    outs = _run_pool(payload, jobs)
    for (name, r, info, dt, backend) in outs:
        i = int(name)
        ob = obligations[i]
        if ob.kind == "cover":
            # a quantified precondition usually makes the sat check 'unknown'; only a *refuted* cover
            # (unsat: contradictory precondition) is an error.  Unknown covers are reported as such.
            status = {"sat": "covered", "unsat": "vacuous"}.get(r, "cover-unknown")
        else:
            status = {"unsat": "proved", "sat": "refuted"}.get(r, "unknown")
        results[i] = Result(ob, status, info, dt, backend)
        if use_cache and status in ("proved", "refuted", "covered", "vacuous"):
            _cache_put(keys[i], {"status": status, "backend": backend, "info": info if status == "refuted" else ""})
    return results
