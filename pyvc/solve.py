"""Discharge obligations: z3 first, cvc5 on the same SMT-LIB text for whatever z3 leaves open.

Verdicts per obligation:  proved (unsat) | refuted (sat, with model text) | unknown (timeout / unknown).
Cover obligations (vacuity guards) are the other way round: they must be *satisfiable*.
Queries run in a process pool; each is shipped as SMT-LIB2 text.
"""
import os
import subprocess
import tempfile
import time
from concurrent.futures import ProcessPoolExecutor

import z3


def to_smt2(assumptions, goal, cover=False):
    s = z3.Solver()
    for a in assumptions:
        s.add(a)
    if not cover:
        s.add(z3.Not(goal))
    return s.to_smt2()


def _run_z3(text, timeout_ms, seed=0):
    t0 = time.time()
    s = z3.Solver()
    s.set("timeout", timeout_ms)
    if seed:
        s.set("random_seed", seed)
        z3.set_param("smt.random_seed", seed)
    try:
        s.from_string(text)
        r = s.check()
    except z3.Z3Exception as e:
        return ("error", str(e), time.time() - t0)
    dt = time.time() - t0
    if r == z3.unsat:
        return ("unsat", "", dt)
    if r == z3.sat:
        try:
            m = s.model()
            txt = "\n".join("%s = %s" % (d.name(), m[d]) for d in sorted(m.decls(), key=lambda d: d.name())
                            if d.arity() == 0)
        except Exception as e:  # pragma: no cover
            txt = "<model unavailable: %s>" % e
        return ("sat", txt, dt)
    return ("unknown", s.reason_unknown(), dt)


def _run_cvc5(text, timeout_ms):
    t0 = time.time()
    exe = "/usr/bin/cvc5"
    if not os.path.exists(exe):
        return ("unknown", "cvc5 missing", 0.0)
    with tempfile.NamedTemporaryFile("w", suffix=".smt2", delete=False) as f:
        f.write("(set-logic ALL)\n" + text)
        path = f.name
    try:
        p = subprocess.run([exe, "--tlimit=%d" % timeout_ms, "--strings-exp", path], capture_output=True,
                           text=True, timeout=timeout_ms / 1000 + 5)
        out = p.stdout.strip().splitlines()
        res = out[0] if out else "unknown"
    except Exception as e:
        res = "unknown"
    finally:
        os.unlink(path)
    return (res if res in ("sat", "unsat") else "unknown", "", time.time() - t0)


def _job(args):
    name, text, cover, timeout_ms, use_cvc5, prefer = args
    if prefer == "cvc5":
        r, info, dt = _run_cvc5(text, timeout_ms)
        if r in ("sat", "unsat"):
            return (name, r, info, dt, "cvc5")
    r, info, dt = _run_z3(text, timeout_ms)
    backend = "z3"
    if r in ("unknown", "error") and use_cvc5:
        r2, info2, dt2 = _run_cvc5(text, timeout_ms)
        if r2 in ("sat", "unsat"):
            r, info, backend = r2, info2, "cvc5"
        dt += dt2
    if r in ("unknown", "error") and not cover:
        # quantifier instantiation in z3 is sensitive to incidental term order: retry with other seeds
        # before giving up (a verdict must not flip because of solver luck)
        for seed in (7, 23):
            r3, info3, dt3 = _run_z3(text, timeout_ms, seed)
            dt += dt3
            if r3 in ("sat", "unsat"):
                r, info, backend = r3, info3, "z3(seed %d)" % seed
                break
    return (name, r, info, dt, backend)


class Result:
    def __init__(self, ob, status, info, secs, backend):
        self.ob = ob
        self.status = status      # proved | refuted | unknown | covered | vacuous
        self.info = info
        self.secs = secs
        self.backend = backend


def discharge(obligations, timeout_ms=10000, jobs=None, use_cvc5=True):
    jobs = jobs or min(16, os.cpu_count() or 4)
    payload = []
    for i, ob in enumerate(obligations):
        cover = ob.kind == "cover"
        payload.append(("%d" % i, to_smt2(ob.assumptions, ob.goal, cover), cover,
                        min(timeout_ms, 3000) if cover else timeout_ms, use_cvc5 and not cover,
                        (ob.info or {}).get("prefer")))
    results = [None] * len(obligations)
    if jobs == 1 or len(payload) <= 2:
        outs = map(_job, payload)
    else:
        ex = ProcessPoolExecutor(max_workers=jobs)
        outs = ex.map(_job, payload, chunksize=1)
    for (name, r, info, dt, backend) in outs:
        i = int(name)
        ob = obligations[i]
        if ob.kind == "cover":
            # a quantified precondition usually makes the sat check 'unknown'; only a *refuted* cover
            # (unsat: contradictory precondition) is an error.  Unknown covers are reported as such.
            status = {"sat": "covered", "unsat": "vacuous"}.get(r, "cover-unknown")
        else:
            status = {"unsat": "proved", "sat": "refuted"}.get(r, "unknown")
        results[i] = Result(ob, status, info, dt, backend)
    return results
