"""Assumed contract of networkx.MultiDiGraph as used by gtirb/cfg.py (trusted; exercised by the conformance run).

State of a graph object g (heap keys):
  $g_edges[g]  : set of edge ids  (s, t, key)   as nested pairs  VPair(VRef s, VPair(VRef t, VPair(VInt key, VNone)))
  $g_label[g]  : edge id -> the value of its "label" attribute
  $g_nodes[g]  : set of node values
Every edge is created by add_edge(u, v, label=l), so every attribute dict has "label".
"""
import z3
from .core import (SV, Bag, Unsupported, Val, VNone, VInt, VRef, VPair, is_VInt, is_VPair, is_VNone, fst, snd, ival,
                   SetSort, EmptySet, Card, fresh, sv_int, sv_bool, sv_none, sv_tuple, to_val, Int)

GSORTS = {"$g_edges": z3.ArraySort(Int, SetSort), "$g_label": z3.ArraySort(Int, z3.ArraySort(Val, Val)),
          "$g_nodes": z3.ArraySort(Int, SetSort), "$g_keyof": z3.ArraySort(Int, z3.ArraySort(Val, Int)), "$g_lastkey": z3.ArraySort(Int, Int)}


def eid(s, t, k):
    return VPair(s, VPair(t, VPair(k, VNone)))


def e_src(e):
    return fst(e)


def e_tgt(e):
    return fst(snd(e))


def e_key(e):
    return fst(snd(snd(e)))


def well_formed_id(e):
    return z3.And(is_VPair(e), is_VPair(snd(e)), is_VPair(snd(snd(e))), is_VNone(snd(snd(snd(e)))), is_VInt(e_key(e)))


class NxModel:
    def edges(self, eng, st, g):
        return z3.Select(eng.field_array(st, "$g_edges"), g)

    def labels(self, eng, st, g):
        return z3.Select(eng.field_array(st, "$g_label"), g)

    def nodes(self, eng, st, g):
        return z3.Select(eng.field_array(st, "$g_nodes"), g)

    def new_graph(self, eng, st):
        r = eng.fresh_object(st, "$Graph")
        st.heap["$g_edges"] = z3.Store(eng.field_array(st, "$g_edges"), r, EmptySet)
        st.heap["$g_nodes"] = z3.Store(eng.field_array(st, "$g_nodes"), r, EmptySet)
        return SV("ref", r, cls="$Graph")

    def contains(self, eng, gsv, item, st):
        g = eng.as_ref(gsv, st)
        return z3.Select(self.nodes(eng, st, g), to_val(item))

    def getitem(self, eng, gsv, idx, st):
        g = eng.as_ref(gsv, st)
        return SV("nx_adj", x=(g, to_val(idx)))

    def adj_contains(self, eng, adj, item, st):
        """t in g[s]: true whenever some edge s->t exists (assumed: only then; the converse direction is not needed)"""
        g, s = adj.x
        t = to_val(item)
        b = fresh("has_nbr", z3.BoolSort())
        e = fresh("e", Val)
        E = self.edges(eng, st, g)
        st.define(z3.ForAll([e], z3.Implies(z3.And(z3.Select(E, e), e_src(e) == s, e_tgt(e) == t), b)))
        return b

    def adj_truthy(self, eng, adj, st):
        """bool(g[s]): the successor adjacency of s is non-empty exactly when some edge leaves s"""
        g, s = adj.x
        b = fresh("has_succ", z3.BoolSort())
        e = fresh("e", Val)
        E = self.edges(eng, st, g)
        st.define(b == z3.Exists([e], z3.And(z3.Select(E, e), well_formed_id(e), e_src(e) == s)))
        return b

    def adj_getitem(self, eng, adj, idx, st):
        g, s = adj.x
        return SV("nx_keydict", x=(g, s, to_val(idx)))

    def keydict_items(self, eng, kd, st):
        g, s, t = kd.x
        E = self.edges(eng, st, g)
        k = fresh("key", Val)
        return SV("gen", x=[Bag([k], z3.And(is_VInt(k), z3.Select(E, eid(s, t, k))),
                                sv_tuple([SV("val", k), SV("nx_attr", x=(g, eid(s, t, k)))]))])

    def attr_contains(self, eng, attr, item, st):
        if item.k == "str" and z3.is_string_value(item.t) and item.t.as_string() == "label":
            return z3.BoolVal(True)
        raise Unsupported("edge attribute other than 'label'")

    def attr_getitem(self, eng, attr, idx, st):
        g, e = attr.x
        return SV("val", z3.Select(self.labels(eng, st, g), e))

    def method(self, eng, gsv, name, args, kwargs, st):
        g = eng.as_ref(gsv, st)
        E, L, N = self.edges(eng, st, g), self.labels(eng, st, g), self.nodes(eng, st, g)
        if name == "add_edge":
            s, t = to_val(args[0]), to_val(args[1])
            if set(kwargs) != {"label"}:
                raise Unsupported("add_edge without label= (the model assumes every edge has a label attribute)")
            lab = to_val(kwargs["label"])
            k = fresh("newkey", Int)
            st.define(z3.Not(z3.Select(E, eid(s, t, VInt(k)))))       # a key unused between s and t
            e = eid(s, t, VInt(k))
            eng.card_axioms_store(st, E, e, True)
            st.heap["$g_edges"] = z3.Store(eng.field_array(st, "$g_edges"), g, z3.Store(E, e, True))
            st.heap["$g_label"] = z3.Store(eng.field_array(st, "$g_label"), g, z3.Store(L, e, lab))
            st.heap["$g_nodes"] = z3.Store(eng.field_array(st, "$g_nodes"), g, z3.Store(z3.Store(N, s, True), t, True))
            st.heap["$g_lastkey"] = z3.Store(eng.field_array(st, "$g_lastkey"), g, k)     # ghost: key just issued
            return sv_int(k)
        if name == "remove_edge":
            s, t = to_val(args[0]), to_val(args[1])
            if "key" not in kwargs:
                raise Unsupported("remove_edge without key=")
            e = eid(s, t, to_val(kwargs["key"]))
            s2 = st.fork()
            s2.assume(z3.Not(z3.Select(E, e)))
            from .symex import Exc
            eng.exc_paths.append((s2, Exc("NetworkXError")))
            st.assume(z3.Select(E, e))
            eng.card_axioms_store(st, E, e, False)
            st.heap["$g_edges"] = z3.Store(eng.field_array(st, "$g_edges"), g, z3.Store(E, e, False))
            return sv_none()
        if name == "remove_node":
            # removes the node and every edge incident to it (either end); NetworkXError if it is not a node
            nd = to_val(args[0])
            s2 = st.fork()
            s2.assume(z3.Not(z3.Select(N, nd)))
            from .symex import Exc
            eng.exc_paths.append((s2, Exc("NetworkXError")))
            st.assume(z3.Select(N, nd))
            E2 = fresh("E_after_remove_node", SetSort)
            e = fresh("e", Val)
            st.define(z3.ForAll([e], z3.Select(E2, e) == z3.And(z3.Select(E, e), e_src(e) != nd, e_tgt(e) != nd)))
            st.facts.append(Card(E2) >= 0)
            st.facts.append(Card(E2) <= Card(E))
            st.heap["$g_edges"] = z3.Store(eng.field_array(st, "$g_edges"), g, E2)
            st.heap["$g_nodes"] = z3.Store(eng.field_array(st, "$g_nodes"), g, z3.Store(N, nd, False))
            return sv_none()
        if name == "clear":
            st.heap["$g_edges"] = z3.Store(eng.field_array(st, "$g_edges"), g, EmptySet)
            st.heap["$g_nodes"] = z3.Store(eng.field_array(st, "$g_nodes"), g, EmptySet)
            return sv_none()
        if name in ("edges", "out_edges", "in_edges"):
            data = kwargs.get("data")
            e = fresh("e", Val)
            cond = z3.And(z3.Select(E, e), well_formed_id(e))
            if name != "edges":
                node = to_val(args[0])
                cond = z3.And(cond, (e_src(e) if name == "out_edges" else e_tgt(e)) == node)
            if data is None:
                if name != "edges" or args:
                    raise Unsupported("%s() without data=" % name)
                return SV("nx_edgeview", x=(g,))
            if not (data.k == "str" and z3.is_string_value(data.t) and data.t.as_string() == "label"):
                raise Unsupported("edges(data=...) other than 'label'")
            return SV("gen", x=[Bag([e], cond, sv_tuple([SV("val", e_src(e)), SV("val", e_tgt(e)),
                                                          SV("val", z3.Select(L, e), cls="EdgeLabel")]))])
        if name == "number_of_edges":
            st.facts.append(Card(E) >= 0)
            return sv_int(Card(E))
        raise Unsupported("MultiDiGraph.%s" % name)
