"""Assumed contracts of the byte-level standard library pieces gtirb's load/save code uses (trusted):
immutable byte strings, io.BytesIO / BinaryIO streams, int.to_bytes / int.from_bytes, uuid.UUID(bytes=...) /
UUID.bytes, str.encode / bytes.decode (UTF-8).

An immutable byte string is a z3 sequence of integers (each 0..255).  Inside the universal value sort it is
VOpaque(blob_of(seq)); blob_of / blob_seq are mutually inverse (two byte strings are equal values iff they are
equal sequences).

A stream is a heap object of class "$Stream" with fields $stream.content (the whole byte string) and
$stream.pos (read position).  read(n) returns at most n bytes from pos and advances; write(b) appends (only
append-at-end use is modelled: position == length is an obligation at every write)."""
import z3
from .core import SV, Unsupported, Val, VNone, VInt, VOpaque, VUuid, VStr, is_VInt, is_VBool, ival, bval, fresh, sv_int, sv_bool, sv_none, to_val, Int

BSeq = z3.SeqSort(Int)
blob_of = z3.Function("blob_of", BSeq, Int)
blob_seq = z3.Function("blob_seq", Int, BSeq)
u2b = z3.Function("uuid_bytes", Int, BSeq)          # UUID(int=u).bytes
b2u = z3.Function("bytes_uuid", BSeq, Int)
utf8 = z3.Function("utf8", z3.StringSort(), BSeq)   # str.encode("utf-8")
utf8inv = z3.Function("utf8inv", BSeq, z3.StringSort())
utf8ok = z3.Function("utf8ok", BSeq, z3.BoolSort())  # the byte string is well-formed UTF-8
is_float = z3.Function("is_float", Val, z3.BoolSort())                 # the value is a Python float (floats are opaque values)
fpack = z3.Function("struct_pack", Val, Val, BSeq)                    # struct.pack(fmt, x) for a one-field format
funpack = z3.Function("struct_unpack", Val, BSeq, Val)                # struct.unpack(fmt, b)[0]
STRUCT_SIZE = {"<f": 4, "<d": 8, ">f": 4, ">d": 8, "f": 4, "d": 8, "<e": 2}
tok_items = z3.Function("findall_items", Val, Val, z3.ArraySort(Int, Val))
tok_len = z3.Function("findall_len", Val, Val, Int)
arr_seq = z3.Function("frozen_bytes", z3.ArraySort(Int, Val), Int, BSeq)
oid = Val.oid
is_VOpaque = Val.is_VOpaque


def axioms():
    s = z3.Const("bs", BSeq)
    o = z3.Const("bo", Int)
    u = z3.Const("bu", Int)
    t = z3.Const("bt", z3.StringSort())
    return [
        z3.ForAll([s], blob_seq(blob_of(s)) == s, patterns=[blob_of(s)]),
        z3.ForAll([o], blob_of(blob_seq(o)) == o, patterns=[blob_seq(o)]),
        z3.ForAll([u], z3.And(b2u(u2b(u)) == u, z3.Length(u2b(u)) == 16), patterns=[u2b(u)]),
        z3.ForAll([s], z3.Implies(z3.Length(s) == 16, u2b(b2u(s)) == s), patterns=[b2u(s)]),
        z3.ForAll([t], z3.And(utf8inv(utf8(t)) == t, utf8ok(utf8(t))), patterns=[utf8(t)]),
        z3.ForAll([s], z3.Implies(utf8ok(s), utf8(utf8inv(s)) == s), patterns=[utf8inv(s)]),
    ]


def sv_blob(seq):
    return SV("blob", seq)


def blob_val(seq):
    return VOpaque(blob_of(seq))


def const_seq(bs):
    if not bs:
        return z3.Empty(BSeq)
    units = [z3.Unit(z3.IntVal(b)) for b in bs]
    return units[0] if len(units) == 1 else z3.Concat(*units)


def as_blob(eng, sv, st, what="bytes operand"):
    """-> z3 Seq(Int) term"""
    if sv.k == "blob":
        return sv.t
    if sv.k == "bytes":
        n = z3.simplify(sv.x)
        if z3.is_int_value(n) and n.as_long() <= 64:
            parts = [z3.Unit(z3.simplify(ival(z3.Select(sv.t, i)))) for i in range(n.as_long())]
            if not parts:
                return z3.Empty(BSeq)
            return parts[0] if len(parts) == 1 else z3.Concat(*parts)
        # a mutable byte array of symbolic length, frozen: the sequence with the same length and elements
        st.define(z3.Length(arr_seq(sv.t, sv.x)) == z3.If(sv.x >= 0, sv.x, 0))
        return arr_seq(sv.t, sv.x)
    if sv.k == "val":
        # a bytes object, or an instance of gtirb's bytes subclass UnknownData (an object holding its bytes)
        ci = eng.prog.find_class("UnknownData")
        if ci is None:
            st.oblige("safety.is_bytes(%s)" % what, is_VOpaque(sv.t))
            return blob_seq(oid(sv.t))
        kd = z3.Select(eng.field_array(st, "$kind"), Val.ref(sv.t))
        isunk = z3.And(Val.is_VRef(sv.t), kd == eng.schema.class_id(ci.qual))
        st.oblige("safety.is_bytes(%s)" % what, z3.Or(is_VOpaque(sv.t), isunk))
        return z3.If(isunk, z3.Select(eng.field_array(st, "$unknown.bytes"), Val.ref(sv.t)), blob_seq(oid(sv.t)))
    if sv.k == "ref" and sv.cls == "UnknownData":
        return z3.Select(eng.field_array(st, "$unknown.bytes"), sv.t)
    raise Unsupported("as_blob of %s" % sv.k)


def byte_range(seq):
    i = fresh("bi", Int)
    return z3.ForAll([i], z3.Implies(z3.And(0 <= i, i < z3.Length(seq)), z3.And(0 <= seq[i], seq[i] <= 255)))


def le_value(seq, n):
    """little-endian unsigned value of the first n (concrete) bytes of seq"""
    tot = z3.IntVal(0)
    for i in range(n):
        tot = tot + seq[i] * (256 ** i)
    return tot


class IoModel:
    STREAM = "$Stream"

    def field_sort(self, key):
        if key == "$stream.content":
            return z3.ArraySort(Int, BSeq)
        if key == "$stream.pos":
            return z3.ArraySort(Int, Int)
        if key == "$unknown.bytes":
            return z3.ArraySort(Int, BSeq)
        return None

    def new_unknown_data(self, eng, st, b):
        r = eng.fresh_object(st, "UnknownData")
        st.heap["$unknown.bytes"] = z3.Store(eng.field_array(st, "$unknown.bytes"), r, b)
        return SV("ref", r, cls="UnknownData")

    # ---- streams
    def content(self, eng, st, r):
        return z3.Select(eng.field_array(st, "$stream.content"), r)

    def pos(self, eng, st, r):
        return z3.Select(eng.field_array(st, "$stream.pos"), r)

    def new_stream(self, eng, st, init=None):
        r = eng.fresh_object(st, self.STREAM)
        st.heap["$stream.content"] = z3.Store(eng.field_array(st, "$stream.content"), r,
                                              init if init is not None else z3.Empty(BSeq))
        st.heap["$stream.pos"] = z3.Store(eng.field_array(st, "$stream.pos"), r, 0)
        return SV("ref", r, cls=self.STREAM)

    def stream_method(self, eng, obj, name, args, kwargs, st):
        r = eng.as_ref(obj, st, "stream")
        content, pos = self.content(eng, st, r), self.pos(eng, st, r)
        if name == "read":
            rest = z3.Length(content) - pos
            if args and args[0].k != "none":
                n = eng.as_int(args[0], st, "read size")
                k = z3.If(n < 0, rest, z3.If(n < rest, n, rest))
            else:
                k = rest
            out = fresh("rd", BSeq)
            st.define(out == z3.SubSeq(content, pos, k))
            st.define(z3.Length(out) == k)
            st.heap["$stream.pos"] = z3.Store(eng.field_array(st, "$stream.pos"), r, pos + k)
            return sv_blob(out)
        if name == "write":
            b = as_blob(eng, args[0], st, "argument of write")
            st.oblige("dep.stream.append_only", pos == z3.Length(content))
            st.heap["$stream.content"] = z3.Store(eng.field_array(st, "$stream.content"), r, z3.Concat(content, b))
            st.heap["$stream.pos"] = z3.Store(eng.field_array(st, "$stream.pos"), r, pos + z3.Length(b))
            return sv_int(z3.Length(b))
        if name == "getvalue":
            return sv_blob(content)
        if name == "tell":
            return sv_int(pos)
        raise Unsupported("stream method " + name)

    # ---- builtins
    def call_builtin(self, eng, name, args, kwargs, st):
        from .symex import Exc
        if name in ("BytesIO", "io.BytesIO"):
            return self.new_stream(eng, st, as_blob(eng, args[0], st) if args else None)
        if name == "int.from_bytes":
            b = as_blob(eng, args[0], st)
            order = kwargs.get("byteorder", args[1] if len(args) > 1 else None)
            if order is None or not (order.k == "str" and z3.is_string_value(order.t) and order.t.as_string() == "little"):
                raise Unsupported("int.from_bytes with byteorder other than 'little'")
            signed = kwargs.get("signed")
            sg = z3.simplify(eng.truthy(signed, st)) if signed is not None else z3.BoolVal(False)
            if not (z3.is_true(sg) or z3.is_false(sg)):
                raise Unsupported("int.from_bytes with symbolic signedness")
            # the length must be known up to a small concrete bound on this path
            return sv_int(self.from_bytes_le(eng, st, b, z3.is_true(sg)))
        if name in ("struct.pack", "struct.unpack"):
            fmt = args[0]
            if not (fmt.k == "str" and z3.is_string_value(fmt.t) and fmt.t.as_string() in STRUCT_SIZE):
                raise Unsupported("struct format that is not a known one-field float format")
            size = STRUCT_SIZE[fmt.t.as_string()]
            fv = to_val(fmt)
            if name == "struct.pack":
                x = to_val(args[1])
                s2 = st.fork()
                s2.assume(z3.Not(is_float(x)), "struct.pack: not a float")
                eng.exc_paths.append((s2, Exc("StructError")))
                st.assume(is_float(x))
                st.define(z3.Length(fpack(fv, x)) == size)
                return sv_blob(fpack(fv, x))
            b = as_blob(eng, args[1], st, "argument of struct.unpack")
            s2 = st.fork()
            s2.assume(z3.Length(b) != size, "struct.unpack: wrong number of bytes")
            eng.exc_paths.append((s2, Exc("StructError")))
            st.assume(z3.Length(b) == size)
            st.define(is_float(funpack(fv, b)))
            from .core import sv_tuple
            return sv_tuple([SV("val", funpack(fv, b))])
        if name in ("findall", "re.findall"):
            # re.findall(pattern, string): not modelled beyond "a list of strings determined by (pattern, string)"
            pat, text = to_val(args[0]), to_val(args[1])
            n = tok_len(pat, text)
            st.define(n >= 0)
            return SV("list", tok_items(pat, text), x=n)
        if name in ("uuid4", "uuid.uuid4"):
            return SV("uuid", fresh("uuid4", Int))       # some UUID (nothing is assumed about its value)
        if name in ("UUID", "uuid.UUID"):
            if "bytes" in kwargs and not args:
                b = as_blob(eng, kwargs["bytes"], st, "UUID(bytes=...)")
                s2 = st.fork()
                s2.assume(z3.Length(b) != 16, "UUID(bytes=) with a byte string that is not 16 bytes long")
                eng.exc_paths.append((s2, Exc("ValueError")))
                st.assume(z3.Length(b) == 16)
                return SV("uuid", b2u(b))
            raise Unsupported("UUID(...) other than UUID(bytes=...)")
        return None

    MAXLEN = 8

    def from_bytes_le(self, eng, st, b, signed):
        n = z3.Length(b)
        st.oblige("dep.from_bytes.length_at_most_%d" % self.MAXLEN, n <= self.MAXLEN)
        val = z3.IntVal(0)
        # value = sum over i < n of b[i] * 256**i ; case split on the (bounded) length
        for ln in range(self.MAXLEN, 0, -1):
            u = le_value(b, ln)
            v = z3.If(u >= 2 ** (8 * ln - 1), u - 2 ** (8 * ln), u) if signed else u
            val = z3.If(n == ln, v, val)
        return val

    def to_bytes_le(self, eng, st, x, n, signed):
        """x.to_bytes(n, 'little', signed=...) for concrete n: OverflowError outside the range"""
        from .symex import Exc
        lo, hi = (-(2 ** (8 * n - 1)), 2 ** (8 * n - 1) - 1) if signed else (0, 2 ** (8 * n) - 1)
        ok = z3.And(lo <= x, x <= hi)
        s2 = st.fork()
        s2.assume(z3.Not(ok), "int.to_bytes: value does not fit")
        eng.exc_paths.append((s2, Exc("OverflowError")))
        st.assume(ok)
        u = z3.If(x < 0, x + 2 ** (8 * n), x) if signed else x
        out = fresh("tb", BSeq)
        st.define(z3.Length(out) == n)
        # bytes are the base-256 digits: stated as  value == sum digits, each digit in 0..255 (unique)
        st.define(le_value(out, n) == u)
        for i in range(n):
            st.define(z3.And(0 <= out[i], out[i] <= 255))
        return sv_blob(out)

    def int_method(self, eng, obj, name, args, kwargs, st):
        if name == "to_bytes":
            n = z3.simplify(eng.as_int(args[0], st))
            if not z3.is_int_value(n):
                raise Unsupported("to_bytes with symbolic width")
            order = kwargs.get("byteorder", args[1] if len(args) > 1 else None)
            if order is None or not (order.k == "str" and z3.is_string_value(order.t) and order.t.as_string() == "little"):
                raise Unsupported("to_bytes with byteorder other than 'little'")
            signed = kwargs.get("signed")
            sg = z3.simplify(eng.truthy(signed, st)) if signed is not None else z3.BoolVal(False)
            if not (z3.is_true(sg) or z3.is_false(sg)):
                raise Unsupported("to_bytes with symbolic signedness")
            return self.to_bytes_le(eng, st, eng.as_int(obj, st), n.as_long(), z3.is_true(sg))
        raise Unsupported("int method " + name)

    def blob_method(self, eng, obj, name, args, kwargs, st):
        from .symex import Exc
        if name == "decode":
            s2 = st.fork()
            s2.assume(z3.Not(utf8ok(obj.t)), "bytes.decode: malformed UTF-8")
            eng.exc_paths.append((s2, Exc("UnicodeDecodeError")))
            st.assume(utf8ok(obj.t))
            return SV("str", utf8inv(obj.t))
        raise Unsupported("bytes method " + name)

    def str_method(self, eng, obj, name, args, kwargs, st):
        if name == "encode":
            # (lone surrogates, which make str.encode raise, are outside the value domain)
            return sv_blob(utf8(obj.t if obj.k == "str" else Val.sval(obj.t)))
        return None


from .contracts import Contract      # noqa: E402


class IoContract(Contract):
    """contracts whose verification conditions mention byte strings get the byte-string axioms"""

    def axioms(self, eng):
        return axioms()
