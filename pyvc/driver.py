"""Build the engine, load sidecar contracts, verify, discharge."""
import importlib
import os
import pkgutil
import sys
import time
import traceback

sys.path.insert(0, os.path.dirname(os.path.dirname(os.path.abspath(__file__))))

from pyvc.extract import Program          # noqa: E402
from pyvc.schema import Schema            # noqa: E402
from pyvc.contracts import Registry       # noqa: E402
from pyvc.symex import Engine             # noqa: E402
from pyvc.core import Unsupported         # noqa: E402
from pyvc import solve                    # noqa: E402


CURRENT = {}


def build():
    prog = Program()
    schema = Schema(prog)
    CURRENT["schema"] = schema
    CURRENT["prog"] = prog
    reg = Registry(prog)
    import contracts
    for m in sorted(pkgutil.iter_modules(contracts.__path__), key=lambda m: m.name):
        mod = importlib.import_module("contracts." + m.name)
        if hasattr(mod, "register"):
            mod.register(reg)
    eng = Engine(prog, schema, reg)
    return prog, schema, reg, eng


def contract_name(c):
    return c.target + (("[" + c.variant + "]") if getattr(c, "variant", None) else "")


def generate(eng, reg, prop=None, only=None):
    """-> (list of (contract, obligations)), undecided [(contract, reason)]"""
    done, undecided = [], []
    for c in reg.contracts:
        if prop and prop not in c.props:
            continue
        name = contract_name(c)
        if only and only not in name:
            continue
        if getattr(c, "assumed", False):
            continue
        try:
            obls = c.verify(eng)
            for o in obls:
                o.name = name + "/" + o.name
            done.append((c, obls))
        except Unsupported as e:
            undecided.append((c, "outside subset: %s" % e))
        except Exception as e:  # engine crash: reported as checker error by the caller
            undecided.append((c, "CRASH %s: %s\n%s" % (type(e).__name__, e, traceback.format_exc())))
    return done, undecided


def main(argv):
    only = argv[1] if len(argv) > 1 else None
    t0 = time.time()
    prog, schema, reg, eng = build()
    done, undecided = generate(eng, reg, only=only)
    allobls = [o for (_, obls) in done for o in obls]
    print("contracts: %d verified-bodies, %d undecided, %d obligations  (gen %.1fs)" % (
        len(done), len(undecided), len(allobls), time.time() - t0))
    for c, why in undecided:
        print("UNDECIDED", contract_name(c), why)
    if os.environ.get("VC_DUMP"):
        os.makedirs(os.environ["VC_DUMP"], exist_ok=True)
        for i, o in enumerate(allobls):
            if os.environ.get("VC_DUMP_MATCH", "") in o.name:
                with open(os.path.join(os.environ["VC_DUMP"], "%04d.smt2" % i), "w") as f:
                    f.write("; " + o.name + "\n" + solve.to_smt2(o.assumptions, o.goal, o.kind == "cover"))
    res = solve.discharge(allobls, timeout_ms=int(os.environ.get("VC_TIMEOUT_MS", "10000")))
    bad = 0
    for r in res:
        if r.status not in ("proved", "covered", "cover-unknown"):
            bad += 1
            print("%-10s %s  (%.2fs %s)" % (r.status.upper(), r.ob.name, r.secs, r.backend))
            if r.status == "refuted" and os.environ.get("VC_MODEL"):
                print("   path:", r.ob.info.get("path"))
                print("   " + r.info.replace("\n", "\n   "))
    if os.environ.get("VC_SLOW"):
        for r in sorted(res, key=lambda r: -r.secs)[:int(os.environ["VC_SLOW"])]:
            print("  slow %.2fs %s %s" % (r.secs, r.status, r.ob.name))
    print("obligations %d, ok %d, not ok %d, solver time %.1fs, wall %.1fs" % (
        len(res), len(res) - bad, bad, sum(r.secs for r in res), time.time() - t0))


if __name__ == "__main__":
    main(sys.argv)
