"""Assumed contract of protobuf messages as used by gtirb (trusted; the schema itself is parsed from
/repo/proto/*.proto on every run).

A message object is a heap reference of class "pb:<Message>".  Field f of message M lives in heap key "pb.M.f":
  scalar (ints, bool, string, bytes, enum)  -> Val           (a new message has the type's default)
  message-typed field                       -> Val (VRef sub-message | VNone = absent)
  repeated                                  -> list (items, len)
  map<k, message>                           -> dict (dom, map of Val refs)
one-of groups: key "pb.M.$oneof.<group>" holds VStr(member name) or VNone.
Assignments check the field's range like the runtime does (ValueError/TypeError outside the range).
"""
import z3
from .core import (SV, Bag, Unsupported, Val, VNone, VInt, VBool, VRef, VStr, VUuid, is_VNone, is_VInt, is_VBool, is_VRef,
                   is_VStr, ival, bval, ref, sval, SetSort, EmptySet, fresh, sv_int, sv_bool, sv_none, sv_str, to_val, Int)

RANGES = {"uint64": (0, 2 ** 64 - 1), "int64": (-2 ** 63, 2 ** 63 - 1), "uint32": (0, 2 ** 32 - 1), "int32": (-2 ** 31, 2 ** 31 - 1)}


class PbModel:
    def __init__(self):
        from .overlay import schema_tables
        self.msgs, self.enums = schema_tables()

    # ---- schema helpers
    def fdef(self, msg, field):
        for f in self.msgs[msg]["fields"]:
            if f["name"] == field:
                return f
        return None

    def is_msg(self, tname):
        return tname in self.msgs

    def key(self, msg, field):
        return "pb.%s.%s" % (msg, field)

    def field_sort(self, key):
        if key in ("$pb.ser", "$pb.parsed_from", "$pb.source"):
            return z3.ArraySort(Int, Val)
        _, msg, field = key.split(".", 2)
        base = field.split("#")[0]
        if base.startswith("$oneof"):
            return z3.ArraySort(Int, Val)
        f = self.fdef(msg, base)
        if f is None:
            raise Unsupported("unknown protobuf field " + key)
        if f["map"]:
            return z3.ArraySort(Int, SetSort) if key.endswith("#dom") else z3.ArraySort(Int, z3.ArraySort(Val, Val))
        if f["label"] == "repeated":
            if key.endswith("#set"):
                return z3.ArraySort(Int, SetSort)
            return z3.ArraySort(Int, z3.ArraySort(Int, Val)) if key.endswith("#items") else z3.ArraySort(Int, Int)
        return z3.ArraySort(Int, Val)

    def keys_of(self, msg):
        out = []
        for f in self.msgs[msg]["fields"]:
            k = self.key(msg, f["name"])
            out += [k + "#dom", k + "#map"] if f["map"] else ([k + "#items", k + "#len", k + "#set"] if f["label"] == "repeated" else [k])
        return out + [self.key(msg, "$oneof." + o) for o in self.msgs[msg]["oneofs"]]

    def default(self, f):
        t = f["type"]
        if t in RANGES or t in self.enums:
            return VInt(0)
        if t == "bool":
            return VBool(False)
        if t == "string":
            return VStr(z3.StringVal(""))
        if t == "bytes":
            from .iomodel import blob_val, BSeq
            return blob_val(z3.Empty(BSeq))         # the empty byte string
        return VNone                                  # sub-message absent

    # ---- construction
    def new(self, eng, st, msg):
        r = eng.fresh_object(st, "$pb")
        for f in self.msgs[msg]["fields"]:
            k = self.key(msg, f["name"])
            if f["map"]:
                st.heap[k + "#dom"] = z3.Store(eng.field_array(st, k + "#dom"), r, EmptySet)
                st.heap[k + "#map"] = z3.Store(eng.field_array(st, k + "#map"), r, z3.K(Val, VNone))
            elif f["label"] == "repeated":
                st.heap[k + "#len"] = z3.Store(eng.field_array(st, k + "#len"), r, 0)
                st.heap[k + "#set"] = z3.Store(eng.field_array(st, k + "#set"), r, EmptySet)
            else:
                st.heap[k] = z3.Store(eng.field_array(st, k), r, self.default(f))
        for o in self.msgs[msg]["oneofs"]:
            k = self.key(msg, "$oneof." + o)
            st.heap[k] = z3.Store(eng.field_array(st, k), r, VNone)
        return SV("ref", r, cls="pb:" + msg)

    # ---- reads
    def get(self, eng, obj, attr, st):
        msg = obj.cls[3:]
        r = eng.as_ref(obj, st, "message")
        f = self.fdef(msg, attr)
        if f is None:
            if attr in ("HasField", "WhichOneof", "CopyFrom", "SerializeToString", "ParseFromString", "SetInParent", "ClearField"):
                return SV("boundbuiltin", x=(obj, attr))
            raise Unsupported("message %s has no field %s" % (msg, attr))
        k = self.key(msg, attr)
        if f["map"]:
            return SV("pbmap", x=(r, msg, attr))
        if f["label"] == "repeated":
            return SV("pbrep", x=(r, msg, attr))
        v = z3.Select(eng.field_array(st, k), r)
        t = f["type"]
        if self.is_msg(t):
            return SV("pbsub", t=v, x=(r, msg, attr, t))
        if t in RANGES or t in self.enums:
            return SV("val", v)
        if t == "bool":
            return SV("val", v)
        if t == "bytes":
            from .iomodel import sv_blob, blob_seq
            return sv_blob(blob_seq(Val.oid(v)))
        return SV("val", v)

    # ---- writes
    def set(self, eng, obj, attr, val, st):
        from .symex import Exc
        msg = obj.cls[3:]
        r = eng.as_ref(obj, st, "message")
        f = self.fdef(msg, attr)
        if f is None or f["map"] or f["label"] == "repeated" or self.is_msg(f["type"]):
            raise Unsupported("assignment to protobuf field %s.%s" % (msg, attr))
        t = f["type"]
        v = to_val(val) if t != "bytes" else None
        if t in RANGES or t in self.enums:
            lo, hi = RANGES.get(t, RANGES["int32"])
            isnum = z3.Or(is_VInt(v), is_VBool(v))
            n = z3.If(is_VBool(v), z3.If(bval(v), 1, 0), ival(v))
            ok = z3.And(isnum, lo <= n, n <= hi)
            s2 = st.fork()
            s2.assume(z3.Not(ok), "protobuf rejects the value for %s.%s" % (msg, attr))
            eng.exc_paths.append((s2, Exc("ValueError")))
            st.assume(ok)
            v = VInt(n)
        elif t == "bool":
            v = VBool(eng.truthy(val, st))
        elif t == "string":
            st.oblige("safety.pb_string(%s.%s)" % (msg, attr), is_VStr(v))
        elif t == "bytes":
            from .iomodel import as_blob, blob_val
            v = blob_val(as_blob(eng, val, st, "value for %s.%s" % (msg, attr)))
        k = self.key(msg, attr)
        st.heap[k] = z3.Store(eng.field_array(st, k), r, v)
        if f["oneof"] is not None:
            self._select_oneof(eng, st, r, msg, f)

    def _select_oneof(self, eng, st, r, msg, f):
        group = self.msgs[msg]["oneofs"][f["oneof"]]
        ko = self.key(msg, "$oneof." + group)
        st.heap[ko] = z3.Store(eng.field_array(st, ko), r, VStr(z3.StringVal(f["name"])))
        for g in self.msgs[msg]["fields"]:
            if g["oneof"] == f["oneof"] and g["name"] != f["name"]:
                k = self.key(msg, g["name"])
                st.heap[k] = z3.Store(eng.field_array(st, k), r, self.default(g))

    # ---- methods
    def method(self, eng, obj, name, args, kwargs, st):
        if obj.k == "pbrep":
            r, msg, attr = obj.x
            if name == "extend" and len(args) == 1:
                # repeated scalar field filled from an iterable: the *set* of its elements is modelled (order and
                # multiplicity are not), which is what the contracts of the writers state
                f = self.fdef(msg, attr)
                if self.is_msg(f["type"]):
                    raise Unsupported("extend of a repeated message field")
                bags = eng.bags_of(args[0], st)
                add = eng.set_of_bags(bags, st).t
                k = self.key(msg, attr) + "#set"
                old = z3.Select(eng.field_array(st, k), r)
                new = fresh("rep", SetSort)
                x = fresh("x", Val)
                st.define(z3.ForAll([x], z3.Select(new, x) == z3.Or(z3.Select(old, x), z3.Select(add, x))))
                st.heap[k] = z3.Store(eng.field_array(st, k), r, new)
                kl = self.key(msg, attr) + "#len"
                st.heap[kl] = z3.Store(eng.field_array(st, kl), r, fresh("replen", Int))
                return sv_none()
            raise Unsupported("repeated field method " + name)
        if obj.k == "pbsub":
            r, msg, attr, t = obj.x
            if name == "CopyFrom":
                src = to_val(args[0])
                k = self.key(msg, attr)
                st.heap[k] = z3.Store(eng.field_array(st, k), r, src)
                f = self.fdef(msg, attr)
                if f["oneof"] is not None:
                    self._select_oneof(eng, st, r, msg, f)
                    # _select_oneof reset the siblings only; restore our own value
                    st.heap[k] = z3.Store(eng.field_array(st, k), r, src)
                return sv_none()
            raise Unsupported("sub-message method " + name)
        msg = obj.cls[3:]
        r = eng.as_ref(obj, st, "message")
        if name == "HasField":
            fname = args[0].t.as_string() if (args[0].k == "str" and z3.is_string_value(args[0].t)) else None
            f = self.fdef(msg, fname) if fname else None
            if f is None:
                raise Unsupported("HasField(%r)" % fname)
            if f["oneof"] is not None:
                group = self.msgs[msg]["oneofs"][f["oneof"]]
                return sv_bool(z3.Select(eng.field_array(st, self.key(msg, "$oneof." + group)), r) == VStr(z3.StringVal(fname)))
            if self.is_msg(f["type"]):
                return sv_bool(z3.Not(is_VNone(z3.Select(eng.field_array(st, self.key(msg, fname)), r))))
            raise Unsupported("HasField on a plain scalar")
        if name == "SerializeToString":
            # the wire bytes are not modelled: a byte string recorded (ghost) as the serialization of this message
            from .iomodel import BSeq, sv_blob, blob_val
            out = fresh("wire", BSeq)
            st.heap["$pb.ser"] = z3.Store(eng.field_array(st, "$pb.ser"), r, blob_val(out))
            return sv_blob(out)
        if name == "ParseFromString":
            # every field of the message now comes from the parsed bytes (ghost: $pb.parsed_from); malformed wire
            # data raises google.protobuf.message.DecodeError
            from .iomodel import as_blob, blob_val
            from .symex import Exc
            b = as_blob(eng, args[0], st, "argument of ParseFromString")
            eng.exc_paths.append((st.fork(), Exc("PbDecodeError")))
            for f in self.msgs[msg]["fields"]:
                k = self.key(msg, f["name"])
                subs = [k + "#dom", k + "#map"] if f["map"] else ([k + "#items", k + "#len"] if f["label"] == "repeated" else [k])
                for sk in subs:
                    arr = eng.field_array(st, sk)
                    st.heap[sk] = z3.Store(arr, r, z3.Select(fresh("parsed", arr.sort()), r))
            st.heap["$pb.parsed_from"] = z3.Store(eng.field_array(st, "$pb.parsed_from"), r, blob_val(b))
            return sv_int(z3.Length(b))
        if name == "WhichOneof":
            group = args[0].t.as_string()
            return SV("val", z3.Select(eng.field_array(st, self.key(msg, "$oneof." + group)), r))
        raise Unsupported("message method " + name)

    def extend_map(self, eng, recv, gen, st):
        """rep.extend(callee(e) for e in S)  where the element expression is a call *by contract* to a function that only
        allocates (contract flag alloc_only: its frame is 'objects that did not exist before', and every postcondition
        clause is about fields of the result or of objects allocated by the call, in terms of the pre-state - so it stays
        true when further objects are allocated).  Map rule: there is one message msg(e) per element, pairwise distinct and
        new; each satisfies the callee's postcondition; the field's member set gains exactly those messages; objects that
        existed before are unchanged.  The callee's precondition is an obligation for an arbitrary element."""
        import ast as _ast
        from .core import serial_mark, consts_since, subst_sv
        r, msg, attr = recv.x
        f = self.fdef(msg, attr)
        if not self.is_msg(f["type"]) or len(gen.generators) != 1 or gen.generators[0].ifs or gen.generators[0].is_async:
            raise Unsupported("extend of a repeated field with this generator shape")
        g0 = gen.generators[0]
        it = eng.eval(g0.iter, st)
        bags = eng.bags_of(it, st)
        heap0 = dict(st.heap)
        alive0 = eng.field_array(st, "$alive")
        per = []
        for b in bags:
            if b.aux:
                raise Unsupported("map rule over an iterable with auxiliary state")
            mark = serial_mark()
            news, cond, elem, bdefs = b.instantiate("mp")
            s = st.fork()
            s.assume(cond)
            s.define(bdefs)
            eng.assign(g0.target, elem, s)
            pc0 = len(s.pc)
            eng.last_applied = None
            res = eng.eval(gen.elt, s)
            c = getattr(eng, "last_applied", None)
            if c is None or not getattr(c, "alloc_only", False):
                raise Unsupported("map rule: the element expression is not a call to an allocate-only contract")
            if not (res.k == "ref" and (res.cls or "").startswith("pb:")):
                raise Unsupported("map rule: element is not a message")
            if res.cls != "pb:" + f["type"]:
                # protobuf rejects a message of another type (TypeError): every element would raise
                from .symex import Exc
                eng.exc_paths.append((s, Exc("TypeError")))
                continue
            changed = {k: arr for k, arr in s.heap.items() if k not in heap0 or not z3.eq(arr, heap0[k])}
            try:
                ev = to_val(elem)
            except Unsupported:
                ev = None
            per.append((news, cond, res.t, list(s.pc[pc0:]), changed, mark, ev))
        keys = sorted({k for p_ in per for k in p_[4]})
        final = {}
        for k in keys:
            old = heap0.get(k)
            if old is None:
                old = eng.field_array(st, k)
                heap0[k] = old
            final[k] = fresh("HM_" + k.replace("#", "_").replace("$", "S").replace(".", "_"), old.sort())
        rr = fresh("r", Int)
        for k in keys:
            st.define(z3.ForAll([rr], z3.Implies(z3.Select(alive0, rr), z3.Select(final[k], rr) == z3.Select(heap0[k], rr))))
        added = []
        from .core import legal_pattern
        for (news, cond, m, F, changed, mark, ev) in per:
            sub = []
            for k, arr in changed.items():
                if not z3.is_const(arr):
                    raise Unsupported("map rule: element call writes %s directly" % k)
                sub.append((arr, final[k]))
            others = [x for x in consts_since(F + [m], mark)
                      if not any(x.eq(y) for y in news) and not any(x.eq(a_) for (a_, _) in sub)]
            for x in others:
                fx = z3.Function("sk_" + x.decl().name().replace("!", "_"), *([n_.sort() for n_ in news] + [x.sort()]))
                sub.append((x, fx(*news)))
            mt = z3.substitute(m, *sub) if sub else m
            body = z3.substitute(z3.And(F), *sub) if (sub and F) else (z3.And(F) if F else z3.BoolVal(True))
            pats = None
            if news:
                pats = [mt]
                if ev is not None and legal_pattern(ev) and all(any(n_.eq(x_) for x_ in consts_since([ev], 0)) for n_ in news) \
                        and not any(ev.eq(n_) for n_ in news):
                    pats.append(ev)         # also triggered by the element itself (e.g. items[j] of a list)
                st.define(z3.ForAll(news, z3.Implies(cond, z3.And(body, z3.Not(z3.Select(alive0, mt)))), patterns=pats))
                news2 = [fresh("mq", n_.sort()) for n_ in news]
                cond2 = z3.substitute(cond, *zip(news, news2))
                mt2 = z3.substitute(mt, *zip(news, news2))
                st.define(z3.ForAll(news + news2, z3.Implies(z3.And(cond, cond2, mt == mt2), z3.And([a_ == b_ for a_, b_ in zip(news, news2)]))))
            else:
                st.define(z3.Implies(cond, z3.And(body, z3.Not(z3.Select(alive0, mt)))))
            added.append((news, cond, mt, pats if news else None))
        # messages of different source collections are distinct as well (they are different allocations)
        for i_ in range(len(added)):
            for j_ in range(i_ + 1, len(added)):
                n1, c1, m1, _p1 = added[i_]
                n2, c2, m2, _p2 = added[j_]
                st.define(z3.ForAll(n1 + n2, z3.Implies(z3.And(c1, c2), m1 != m2)) if (n1 or n2) else z3.Implies(z3.And(c1, c2), m1 != m2))
        for k in keys:
            st.heap[k] = final[k]
        ks = self.key(msg, attr) + "#set"
        old = z3.Select(eng.field_array(st, ks), r)
        new = fresh("rep", SetSort)
        x = fresh("x", Val)
        disj = [z3.Select(old, x)]
        for (news, cond, mt, pats) in added:
            disj.append(z3.Exists(news, z3.And(cond, x == VRef(mt))) if news else z3.And(cond, x == VRef(mt)))
            # (consequence of the definition below, stated with the element as trigger)
            if news:
                st.define(z3.ForAll(news, z3.Implies(cond, z3.Select(new, VRef(mt))), patterns=pats))
            else:
                st.define(z3.Implies(cond, z3.Select(new, VRef(mt))))
        st.define(z3.ForAll([x], z3.Select(new, x) == z3.Or(*disj)))
        st.heap[ks] = z3.Store(eng.field_array(st, ks), r, new)
        kl = self.key(msg, attr) + "#len"
        st.heap[kl] = z3.Store(eng.field_array(st, kl), r, fresh("replen", Int))
        return sv_none()

    def sub_set(self, eng, sub, attr, val, st):
        """parent.field.attr = val  on a message-typed field: protobuf creates the sub-message if it is absent (and selects it
        in its one-of)"""
        r, msg, fattr, t = sub.x
        k = self.key(msg, fattr)
        cur = z3.Select(eng.field_array(st, k), r)
        present = z3.simplify(is_VRef(cur))
        if z3.is_true(present):
            m = SV("ref", z3.simplify(ref(cur)), cls="pb:" + t)
        elif z3.is_false(present) or z3.is_false(z3.simplify(z3.Not(is_VNone(cur)))):
            m = self.new(eng, st, t)
            st.heap[k] = z3.Store(eng.field_array(st, k), r, VRef(m.t))
            f = self.fdef(msg, fattr)
            if f["oneof"] is not None:
                self._select_oneof(eng, st, r, msg, f)
                st.heap[k] = z3.Store(eng.field_array(st, k), r, VRef(m.t))
        else:
            raise Unsupported("assignment through a sub-message whose presence is not known on this path")
        self.set(eng, m, attr, val, st)

    def extend_genfunc(self, eng, recv, callee, st):
        """rep.extend(obj.gen())  where gen is a generator method of the package without contract whose body is
            for <targets> in <stateless iterable>:  <statements that only allocate and fill new messages>;  yield <message>
        Same map rule as extend_map, with the loop body in the role of the callee: one new message per element (and per
        path through the body), pre-existing objects unchanged.  The body is executed on the real AST for an arbitrary
        element; anything that is not an allocation or a write to an object allocated in that iteration is outside the rule."""
        import ast as _ast
        from .core import serial_mark, consts_since, legal_pattern
        from .extract import strip_docstring
        r, msg, attr = recv.x
        obj, m, ci = callee.x
        body = strip_docstring(m.node.body)
        if len(body) != 1 or not isinstance(body[0], _ast.For) or body[0].orelse:
            raise Unsupported("extend(generator method): body is not a single for loop")
        loop = body[0]
        last = loop.body[-1]
        if not (isinstance(last, _ast.Expr) and isinstance(last.value, _ast.Yield) and last.value.value is not None):
            raise Unsupported("extend(generator method): loop body does not end with a yield")
        for n_ in _ast.walk(_ast.Module(body=loop.body[:-1], type_ignores=[])):
            if isinstance(n_, (_ast.Yield, _ast.YieldFrom, _ast.Return)):
                raise Unsupported("extend(generator method): yield/return inside the body")
        env = eng.bind_params(m, [obj], {}, st, None)
        saved = (eng.cur_fn, st.env)
        eng.cur_fn = m
        try:
            st.env = env
            it = eng.eval(loop.iter, st)
            bags = eng.bags_of(it, st)
            heap0 = dict(st.heap)
            alive0 = eng.field_array(st, "$alive")
            per = []
            for b in bags:
                if b.aux:
                    raise Unsupported("map rule over an iterable with auxiliary state")
                mark = serial_mark()
                news, cond, elem, bdefs = b.instantiate("mp")
                s = st.fork()
                s.env = dict(env)
                s.assume(cond)
                s.define(bdefs)
                eng.assign(loop.target, elem, s)
                pc0 = len(s.pc)
                for (s2, ctrl) in eng.exec_stmts(loop.body[:-1], s):
                    if ctrl is not None and ctrl[0] == "raise":
                        s2.env = saved[1]
                        eng.exc_paths.append((s2, ctrl[1]))
                        continue
                    if ctrl is not None:
                        raise Unsupported("extend(generator method): control flow leaves the loop body")
                    res = eng.eval(last.value.value, s2)
                    if not (res.k == "ref" and (res.cls or "").startswith("pb:")):
                        raise Unsupported("map rule: element is not a message")
                    if res.cls != "pb:" + self.fdef(msg, attr)["type"]:
                        from .symex import Exc
                        s2.env = saved[1]
                        eng.exc_paths.append((s2, Exc("TypeError")))
                        continue
                    try:
                        ev = to_val(elem)
                    except Unsupported:
                        ev = None
                    per.append((news, cond, res.t, s2, pc0, mark, ev))
        finally:
            eng.cur_fn, st.env = saved
        # heap fields written by the iterations
        keys = sorted({k for p_ in per for k, arr in p_[3].heap.items() if k not in heap0 or not z3.eq(arr, heap0[k])})
        final = {}
        rr = fresh("r", Int)
        for k in keys:
            if k not in heap0:
                heap0[k] = eng.field_array(st, k)
            final[k] = fresh("HM_" + k.replace("#", "_").replace("$", "S").replace(".", "_"), heap0[k].sort())
            st.define(z3.ForAll([rr], z3.Implies(z3.Select(alive0, rr), z3.Select(final[k], rr) == z3.Select(heap0[k], rr))))
        added = []
        from .symex import local_cond
        ks = self.key(msg, attr) + "#set"
        old = z3.Select(eng.field_array(st, ks), r)
        new = fresh("rep", SetSort)
        x = fresh("x", Val)
        disj = [z3.Select(old, x)]
        for (news, cond, mref, s2, pc0, mark, ev) in per:
            # branch decisions of this path through the body vs. definitional facts (allocation, callee postconditions)
            decs, facts0 = [], []
            for i_ in range(pc0, len(s2.pc)):
                f_ = s2.pc[i_]
                created = [c_ for c_ in consts_since([f_], mark) if not any(c_.eq(y) for y in news)]
                if i_ in s2.nondec:
                    facts0.append(f_)
                elif not created:
                    decs.append(f_)
                elif z3.is_not(f_) and z3.is_select(f_.arg(0)) and z3.is_const(f_.arg(0).arg(1)):
                    facts0.append(f_)           # "the newly allocated object was not alive before"
                else:
                    raise Unsupported("map rule: a branch of the loop body depends on a value created in the body")
            dec = z3.And(decs) if decs else z3.BoolVal(True)
            defs = z3.And(facts0) if facts0 else z3.BoolVal(True)
            writes = []
            for k in keys:
                arr = s2.heap.get(k, heap0[k])
                seen_idx = []
                while z3.is_store(arr):
                    idx, val = arr.arg(1), arr.arg(2)
                    if not any(idx.eq(j_) for j_ in seen_idx):
                        seen_idx.append(idx)
                        writes.append((k, idx, val))
                    arr = arr.arg(0)
                if not arr.eq(heap0[k]):
                    raise Unsupported("map rule: field %s is not written by plain stores in the loop body" % k)
            terms = [dec, defs, mref] + [w[1] for w in writes] + [w[2] for w in writes]
            others = [x_ for x_ in consts_since(terms, mark) if not any(x_.eq(y) for y in news)]
            objs = [x_ for x_ in others if x_.sort() == Int]
            for (k, idx, val) in writes:
                if not any(idx.eq(o_) for o_ in objs):
                    raise Unsupported("map rule: the loop body writes %s of an object it did not allocate" % k)
            sub = []
            for x_ in others:
                fx = z3.Function("sk_" + x_.decl().name().replace("!", "_"), *([n_.sort() for n_ in news] + [x_.sort()]))
                sub.append((x_, fx(*news) if news else fx()))
            S_ = lambda t_: z3.substitute(t_, *sub) if sub else t_
            mt = S_(mref)
            facts = [S_(defs), z3.Not(z3.Select(alive0, mt)), z3.Select(new, VRef(mt))]
            for (k, idx, val) in writes:
                facts.append(z3.Select(final[k], S_(idx)) == S_(val))
                facts.append(z3.Not(z3.Select(alive0, S_(idx))))
            guard = z3.And(cond, dec)
            pats = None
            if news:
                pats = [mt]
                if ev is not None and legal_pattern(ev) and all(any(n_.eq(x_) for x_ in consts_since([ev], 0)) for n_ in news) \
                        and not any(ev.eq(n_) for n_ in news):
                    pats.append(ev)
                st.define(z3.ForAll(news, z3.Implies(guard, z3.And(facts)), patterns=pats))
                news2 = [fresh("mq", n_.sort()) for n_ in news]
                g2 = z3.substitute(guard, *zip(news, news2))
                mt2 = z3.substitute(mt, *zip(news, news2))
                st.define(z3.ForAll(news + news2, z3.Implies(z3.And(guard, g2, mt == mt2), z3.And([a_ == b_ for a_, b_ in zip(news, news2)]))))
                disj.append(z3.Exists(news, z3.And(guard, x == VRef(mt))))
            else:
                st.define(z3.Implies(guard, z3.And(facts)))
                disj.append(z3.And(guard, x == VRef(mt)))
        st.define(z3.ForAll([x], z3.Select(new, x) == z3.Or(*disj)))
        for k in keys:
            st.heap[k] = final[k]
        st.heap[ks] = z3.Store(eng.field_array(st, ks), r, new)
        kl = self.key(msg, attr) + "#len"
        st.heap[kl] = z3.Store(eng.field_array(st, kl), r, fresh("replen", Int))
        return sv_none()

    def sub_get(self, eng, sub, attr, st):
        """attribute of a message-typed field handle (proto_symbol.foo.bar)"""
        r, msg, fattr, t = sub.x
        if attr in ("CopyFrom",):
            return SV("boundbuiltin", x=(sub, attr))
        st.oblige("safety.submessage_present(%s.%s)" % (msg, fattr), is_VRef(sub.t))
        return self.get(eng, SV("ref", ref(sub.t), cls="pb:" + t), attr, st)

    # ---- typing of a message received as a parameter (schema-valid message)
    def typed(self, c, m, msg):
        """m (z3 Int ref) is a schema-valid message of type msg: scalar fields hold values of their declared types
        and ranges (the protobuf runtime guarantees this for every message object)."""
        out = []
        for f in self.msgs[msg]["fields"]:
            if f["map"] or f["label"] == "repeated":
                continue
            v = z3.Select(c.arr(self.key(msg, f["name"])), m)
            t = f["type"]
            if t in RANGES or t in self.enums:
                lo, hi = RANGES.get(t, RANGES["int32"])
                out.append(z3.And(is_VInt(v), lo <= ival(v), ival(v) <= hi))
            elif t == "bool":
                out.append(is_VBool(v))
            elif t == "string":
                out.append(is_VStr(v))
            elif t == "bytes":
                out.append(Val.is_VOpaque(v))
            else:
                out.append(z3.Or(is_VNone(v), is_VRef(v)))
        for i, o in enumerate(self.msgs[msg]["oneofs"]):
            w = z3.Select(c.arr(self.key(msg, "$oneof." + o)), m)
            members = [f for f in self.msgs[msg]["fields"] if f["oneof"] == i]
            out.append(z3.Or([is_VNone(w)] + [w == VStr(z3.StringVal(f["name"])) for f in members]))
            for f in members:
                # a member that is not the selected one reads as its default
                v = z3.Select(c.arr(self.key(msg, f["name"])), m)
                out.append(z3.Implies(w != VStr(z3.StringVal(f["name"])), v == self.default(f)))
        return z3.And(out) if out else z3.BoolVal(True)
