"""Overlay builder: make /repo's *working tree* importable as ``gtirb``.

The pinned test-suite imports the PyPI copy of gtirb from site-packages, and
/repo/python/gtirb lacks the CMake-generated files (version.py, proto/*_pb2.py;
no protoc in the sandbox).  Every check therefore builds, on every run, an overlay
directory

    <dir>/gtirb/*.py            copied from /repo/python/gtirb (working tree)
    <dir>/gtirb/version.py      synthesised from /repo/version.txt + version.py.in
    <dir>/gtirb/proto/*_pb2.py  thin loaders; the descriptors are built at import
                                time from /repo/proto/*.proto by the proto3 parser
                                below (FileDescriptorProto -> descriptor pool)

The overlay is what replays / bounded stand-ins / conformance runs *execute*;
what is verified deductively is the text of /repo/python/gtirb/*.py itself.
"""
import os
import re
import shutil
import tempfile

REPO = os.environ.get("VERIF_REPO", "/repo")

# --------------------------------------------------------------------------- proto3 parser

_SCALARS = {
    "double": 1, "float": 2, "int64": 3, "uint64": 4, "int32": 5, "fixed64": 6,
    "fixed32": 7, "bool": 8, "string": 9, "bytes": 12, "uint32": 13,
    "sfixed32": 15, "sfixed64": 16, "sint32": 17, "sint64": 18,
}


def _strip_comments(text):
    text = re.sub(r"/\*.*?\*/", "", text, flags=re.S)
    return re.sub(r"//[^\n]*", "", text)


def _tokens(text):
    return re.findall(r'"[^"]*"|[A-Za-z_][A-Za-z0-9_.]*|\d+|[{}<>=;,\[\]()]', text)


def parse_proto(text):
    """Parse the subset of proto3 used by /repo/proto into a plain dict:
    {package, imports, enums: {name: [(const, number)]},
     messages: {name: {fields: [...], oneofs: [...], reserved...}}}
    Field = dict(name, number, type, label('optional'|'repeated'), oneof(index|None),
                 map=(ktype, vtype)|None)
    """
    toks = _tokens(_strip_comments(text))
    pos = 0
    out = {"package": "", "imports": [], "enums": {}, "messages": {}, "order": []}

    def peek():
        return toks[pos] if pos < len(toks) else None

    def take(expect=None):
        nonlocal pos
        t = toks[pos]
        if expect is not None and t != expect:
            raise ValueError("proto parse: expected %r got %r at %d" % (expect, t, pos))
        pos += 1
        return t

    def skip_stmt():
        while take() != ";":
            pass

    def parse_enum():
        name = take()
        take("{")
        vals = []
        while peek() != "}":
            if peek() in ("option", "reserved"):
                skip_stmt()
                continue
            cname = take()
            take("=")
            num = int(take())
            take(";")
            vals.append((cname, num))
        take("}")
        if peek() == ";":
            take()
        out["enums"][name] = vals
        out["order"].append(("enum", name))

    def parse_field(msg, oneof_index):
        label = "optional"
        if peek() == "repeated":
            take()
            label = "repeated"
        elif peek() == "optional":
            take()
        mp = None
        if peek() == "map":
            take()
            take("<")
            kt = take()
            take(",")
            vt = take()
            take(">")
            ftype = "map"
            mp = (kt, vt)
        else:
            ftype = take()
        fname = take()
        take("=")
        num = int(take())
        if peek() == "[":
            while take() != "]":
                pass
        take(";")
        msg["fields"].append(dict(name=fname, number=num, type=ftype, label=label,
                                  oneof=oneof_index, map=mp))

    def parse_message():
        name = take()
        take("{")
        msg = {"fields": [], "oneofs": [], "reserved": []}
        while peek() != "}":
            t = peek()
            if t == "reserved":
                take()
                items = []
                while peek() != ";":
                    x = take()
                    if x != ",":
                        items.append(x.strip('"'))
                take(";")
                msg["reserved"].extend(items)
            elif t == "option":
                skip_stmt()
            elif t == "oneof":
                take()
                oname = take()
                take("{")
                idx = len(msg["oneofs"])
                msg["oneofs"].append(oname)
                while peek() != "}":
                    parse_field(msg, idx)
                take("}")
            elif t in ("message", "enum"):
                raise ValueError("nested definitions are not used by /repo/proto")
            else:
                parse_field(msg, None)
        take("}")
        if peek() == ";":
            take()
        out["messages"][name] = msg
        out["order"].append(("message", name))

    while pos < len(toks):
        t = take()
        if t == "syntax":
            take("=")
            if take().strip('"') != "proto3":
                raise ValueError("only proto3 supported")
            take(";")
        elif t == "package":
            out["package"] = take()
            take(";")
        elif t == "option":
            skip_stmt()
        elif t == "import":
            if peek() in ("public", "weak"):
                take()
            out["imports"].append(take().strip('"'))
            take(";")
        elif t == "enum":
            parse_enum()
        elif t == "message":
            parse_message()
        elif t == ";":
            pass
        else:
            raise ValueError("proto parse: unexpected token %r" % t)
    return out


def load_schema(proto_dir=None):
    """Parse every *.proto directly under /repo/proto -> {filename: parsed}."""
    proto_dir = proto_dir or os.path.join(REPO, "proto")
    res = {}
    for fn in sorted(os.listdir(proto_dir)):
        if fn.endswith(".proto"):
            with open(os.path.join(proto_dir, fn)) as f:
                res[fn] = parse_proto(f.read())
    return res


def schema_tables(schema=None):
    """Flatten into ({message: msgdict}, {enum: [(const, num)]})."""
    schema = schema or load_schema()
    msgs, enums = {}, {}
    for p in schema.values():
        msgs.update(p["messages"])
        enums.update(p["enums"])
    return msgs, enums


def _camel(s):
    return "".join(x.capitalize() for x in s.split("_"))


def file_descriptor_proto(fname, parsed, all_parsed, prefix="gtirb/proto/"):
    from google.protobuf import descriptor_pb2 as d

    pkg = parsed["package"]
    known_msgs, known_enums = {}, {}
    for p in all_parsed.values():
        for m in p["messages"]:
            known_msgs[m] = p["package"]
        for e in p["enums"]:
            known_enums[e] = p["package"]
    fdp = d.FileDescriptorProto(name=prefix + fname, package=pkg, syntax="proto3")
    for imp in parsed["imports"]:
        fdp.dependency.append(prefix + imp)
    for kind, name in parsed["order"]:
        if kind == "enum":
            e = fdp.enum_type.add(name=name)
            for cname, num in parsed["enums"][name]:
                e.value.add(name=cname, number=num)
            continue
        msg = parsed["messages"][name]
        m = fdp.message_type.add(name=name)
        for o in msg["oneofs"]:
            m.oneof_decl.add(name=o)
        for fld in msg["fields"]:
            f = m.field.add(name=fld["name"], number=fld["number"])
            f.json_name = fld["name"]
            f.label = (d.FieldDescriptorProto.LABEL_REPEATED
                       if fld["label"] == "repeated" or fld["map"]
                       else d.FieldDescriptorProto.LABEL_OPTIONAL)
            if fld["oneof"] is not None:
                f.oneof_index = fld["oneof"]

            def set_type(fd, tname):
                if tname in _SCALARS:
                    fd.type = _SCALARS[tname]
                elif tname in known_msgs:
                    fd.type = d.FieldDescriptorProto.TYPE_MESSAGE
                    fd.type_name = "." + known_msgs[tname] + "." + tname
                elif tname in known_enums:
                    fd.type = d.FieldDescriptorProto.TYPE_ENUM
                    fd.type_name = "." + known_enums[tname] + "." + tname
                else:
                    raise ValueError("unknown proto type %s" % tname)

            if fld["map"]:
                ename = _camel(fld["name"]) + "Entry"
                nested = m.nested_type.add(name=ename)
                nested.options.map_entry = True
                kf = nested.field.add(name="key", number=1, json_name="key",
                                      label=d.FieldDescriptorProto.LABEL_OPTIONAL)
                set_type(kf, fld["map"][0])
                vf = nested.field.add(name="value", number=2, json_name="value",
                                      label=d.FieldDescriptorProto.LABEL_OPTIONAL)
                set_type(vf, fld["map"][1])
                f.type = d.FieldDescriptorProto.TYPE_MESSAGE
                f.type_name = "." + pkg + "." + name + "." + ename
            else:
                set_type(f, fld["type"])
        for r in msg["reserved"]:
            if r.isdigit():
                rr = m.reserved_range.add()
                rr.start = int(r)
                rr.end = int(r) + 1
            else:
                m.reserved_name.append(r)
    return fdp


_PB2_TEMPLATE = '''# generated by /verif/pyvc/overlay.py from {src}
from google.protobuf import descriptor_pool as _pool
from google.protobuf.internal import builder as _builder
{imports}
_SER = {ser!r}
try:
    DESCRIPTOR = _pool.Default().AddSerializedFile(_SER)
except TypeError:
    DESCRIPTOR = _pool.Default().FindFileByName({fname!r})
_g = globals()
_builder.BuildMessageAndEnumDescriptors(DESCRIPTOR, _g)
_builder.BuildTopDescriptorsAndMessages(DESCRIPTOR, {modname!r}, _g)
'''


def build_overlay(dest=None, repo=None):
    """Build the overlay; returns the directory to put first on sys.path."""
    repo = repo or REPO
    if dest is None:
        os.makedirs("/verif/build", exist_ok=True)
        dest = tempfile.mkdtemp(prefix="overlay-", dir="/verif/build")
    pkg = os.path.join(dest, "gtirb")
    if os.path.exists(pkg):
        shutil.rmtree(pkg)
    shutil.copytree(os.path.join(repo, "python", "gtirb"), pkg,
                    ignore=shutil.ignore_patterns("__pycache__", "*.pyc"))
    # version.py
    vers = {}
    with open(os.path.join(repo, "version.txt")) as f:
        for line in f:
            parts = line.split()
            if len(parts) == 2:
                vers[parts[0]] = parts[1]
    with open(os.path.join(repo, "python", "version.py.in")) as f:
        tmpl = f.read()
    tmpl = (tmpl.replace("@PROJECT_VERSION_MAJOR@", vers["VERSION_MAJOR"])
            .replace("@PROJECT_VERSION_MINOR@", vers["VERSION_MINOR"])
            .replace("@PROJECT_VERSION_PATCH@", vers["VERSION_PATCH"])
            .replace("@GTIRB_PYTHON_DEV_SUFFIX@", "")
            .replace("@GTIRB_PROTOBUF_VERSION@", vers["VERSION_PROTOBUF"]))
    with open(os.path.join(pkg, "version.py"), "w") as f:
        f.write(tmpl)
    # proto package
    pdir = os.path.join(pkg, "proto")
    os.makedirs(pdir, exist_ok=True)
    with open(os.path.join(pdir, "__init__.py"), "w") as f:
        f.write("")
    schema = load_schema(os.path.join(repo, "proto"))
    for fname, parsed in schema.items():
        fdp = file_descriptor_proto(fname, parsed, schema, prefix="gtirb/proto/")
        base = fname[:-len(".proto")]
        imports = "\n".join(
            "from . import %s_pb2 as _%s" % (i[:-len(".proto")], i[:-len(".proto")])
            for i in parsed["imports"])
        with open(os.path.join(pdir, base + "_pb2.py"), "w") as f:
            f.write(_PB2_TEMPLATE.format(src="proto/" + fname, imports=imports,
                                         ser=fdp.SerializeToString(),
                                         fname=fdp.name,
                                         modname="gtirb.proto.%s_pb2" % base))
    return dest


def protobuf_version(repo=None):
    repo = repo or REPO
    with open(os.path.join(repo, "version.txt")) as f:
        for line in f:
            parts = line.split()
            if len(parts) == 2 and parts[0] == "VERSION_PROTOBUF":
                return int(parts[1])
    raise ValueError("VERSION_PROTOBUF missing")


if __name__ == "__main__":
    import sys
    d = build_overlay(sys.argv[1] if len(sys.argv) > 1 else None)
    print(d)
