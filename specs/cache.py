"""UUID table specification (DESIGN 3.2) and subtree vocabulary.

subtree(n) is defined from the *parent pointers* by kind, with fixed depth (no transitive closure):
  Module   : itself, its sections / symbols / proxies, their intervals, their blocks
  Section  : itself, its intervals, their blocks
  ByteInterval : itself, its blocks
  leaf (ByteBlock, ProxyBlock, Symbol): itself
"""
import z3
from pyvc.core import (Val, VNone, VRef, VUuid, is_VNone, is_VRef, is_VUuid, ref, uval, SetSort, fresh, Int)
from specs import forest


def uuid_of(c, n):
    return c.get("uuid", n)            # Val (VUuid)


def parent_val(c, n):
    """Val: the parent pointer of node n according to its kind (None for IRs and unknown kinds)."""
    return z3.If(c.isinst(n, "ByteBlock"), c.get("_byte_interval", n),
                 z3.If(c.isinst(n, "ByteInterval"), c.get("_section", n),
                       z3.If(z3.Or(c.isinst(n, "Section"), c.isinst(n, "Symbol"), c.isinst(n, "ProxyBlock")),
                             c.get("_module", n),
                             z3.If(c.isinst(n, "Module"), c.get("_ir", n), VNone))))


def is_node(c, n):
    return c.isinst(n, "Node")


def parent_kinds(c):
    """parent pointers are None or objects of the right class (holds at every program point: the only
    assignments to _byte_interval/_section/_module/_ir store None or an owner of that class)"""
    n = fresh("n", Int)

    def ok(field, child, parent):
        v = c.get(field, n)
        return z3.Implies(c.isinst(n, child), z3.Or(is_VNone(v), z3.And(is_VRef(v), c.isinst(ref(v), parent))))
    return z3.ForAll([n], z3.And(ok("_byte_interval", "ByteBlock", "ByteInterval"),
                                 ok("_section", "ByteInterval", "Section"),
                                 ok("_module", "Section", "Module"), ok("_module", "Symbol", "Module"),
                                 ok("_module", "ProxyBlock", "Module"), ok("_ir", "Module", "IR")))


def chain(c, n):
    """kind-directed ancestors of n: returns dict of (condition, ancestor Val) for each level"""
    bi_of_block = c.get("_byte_interval", n)
    sec_of_block = c.get("_section", ref(bi_of_block))
    mod_of_block = c.get("_module", ref(sec_of_block))
    sec_of_bi = c.get("_section", n)
    mod_of_bi = c.get("_module", ref(sec_of_bi))
    mod_of_child = c.get("_module", n)
    return dict(bi_of_block=bi_of_block, sec_of_block=sec_of_block, mod_of_block=mod_of_block,
                sec_of_bi=sec_of_bi, mod_of_bi=mod_of_bi, mod_of_child=mod_of_child)


def in_subtree(c, root, n, cls=None):
    """transparent (the per-class definitions are small); an opaque variant is available as in_subtree_opaque"""
    return in_subtree_def(c, root, n, cls)


def in_subtree_opaque(c, root, n, cls=None):
    f = c.fun("in_subtree_%s" % cls, [Int, Int], z3.BoolSort(), lambda r, m: in_subtree_def(c, r, m, cls),
              deps={"ByteInterval": ("$kind", "_byte_interval"), "Section": ("$kind", "_byte_interval", "_section"),
                    "Module": ("$kind", "_byte_interval", "_section", "_module"),
                    None: ("$kind", "_byte_interval", "_section", "_module")}.get(cls, ("$kind",)))
    return f(root, n)


def in_subtree_def(c, root, n, cls=None):
    """n is root or a containment descendant of root, by parent pointers; cls: static class of root
    (Block/Symbol: leaves; ByteInterval; Section; Module).  Kind-directed, fixed depth."""
    if cls is None:
        return z3.Or(z3.And(c.isinst(root, "Module"), in_subtree_def(c, root, n, "Module")),
                     z3.And(c.isinst(root, "Section"), in_subtree_def(c, root, n, "Section")),
                     z3.And(c.isinst(root, "ByteInterval"), in_subtree_def(c, root, n, "ByteInterval")),
                     z3.And(z3.Not(z3.Or(c.isinst(root, "Module"), c.isinst(root, "Section"),
                                         c.isinst(root, "ByteInterval"))), is_node(c, n), n == root))
    k = chain(c, n)
    R = VRef(root)
    if cls in ("Block", "Symbol", "ByteBlock", "ProxyBlock", "CodeBlock", "DataBlock"):
        return z3.And(is_node(c, n), n == root)
    blk, bi = c.isinst(n, "ByteBlock"), c.isinst(n, "ByteInterval")
    if cls == "ByteInterval":
        return z3.And(is_node(c, n), z3.Or(n == root, z3.And(blk, k["bi_of_block"] == R)))
    if cls == "Section":
        return z3.And(is_node(c, n), z3.Or(n == root, z3.And(bi, k["sec_of_bi"] == R),
                                           z3.And(blk, is_VRef(k["bi_of_block"]), k["sec_of_block"] == R)))
    if cls == "Module":
        child = z3.Or(c.isinst(n, "Section"), c.isinst(n, "Symbol"), c.isinst(n, "ProxyBlock"))
        return z3.And(is_node(c, n), z3.Or(
            n == root, z3.And(child, k["mod_of_child"] == R),
            z3.And(bi, is_VRef(k["sec_of_bi"]), k["mod_of_bi"] == R),
            z3.And(blk, is_VRef(k["bi_of_block"]), is_VRef(k["sec_of_block"]), k["mod_of_block"] == R)))
    raise ValueError(cls)


def ir_of(c, n):
    f = c.fun("ir_of", [Int], Val, lambda m: ir_of_def(c, m),
              deps=("$kind", "_byte_interval", "_section", "_module", "_ir"))
    return f(n)


def ir_of_def(c, n):
    """Val: the IR node n is attached to (None if detached), by the parent chain."""
    def up(v):
        return z3.If(is_VRef(v), parent_val(c, ref(v)), VNone)
    p1 = parent_val(c, n)
    p2, p3, p4 = up(p1), up(up(p1)), up(up(up(p1)))
    top = z3.If(c.isinst(n, "IR"), VRef(n),
                z3.If(c.isinst(n, "Module"), p1,
                      z3.If(z3.Or(c.isinst(n, "Section"), c.isinst(n, "Symbol"), c.isinst(n, "ProxyBlock")), p2,
                            z3.If(c.isinst(n, "ByteInterval"), p3,
                                  z3.If(c.isinst(n, "ByteBlock"), p4, VNone)))))
    return top


def cache_dom(c, ir):
    return z3.Select(c.arr("_local_uuid_cache#dom"), ir)


def cache_map(c, ir):
    return z3.Select(c.arr("_local_uuid_cache#map"), ir)


def wf_cache(c):
    return z3.And(wf_cache_I1(c), wf_cache_I2(c))


def wf_cache_I1(c):
    ir = fresh("ir", Int)
    n = fresh("n", Int)
    return z3.ForAll([ir, n], z3.Implies(z3.And(c.isinst(ir, "IR"), is_node(c, n), ir_of(c, n) == VRef(ir)),
                                         z3.And(z3.Select(cache_dom(c, ir), uuid_of(c, n)),
                                                z3.Select(cache_map(c, ir), uuid_of(c, n)) == VRef(n))))


def wf_cache_I2(c):
    ir = fresh("ir", Int)
    u = fresh("u", Val)
    e = z3.Select(cache_map(c, ir), u)
    return z3.ForAll([ir, u], z3.Implies(z3.And(c.isinst(ir, "IR"), z3.Select(cache_dom(c, ir), u)),
                                         z3.And(is_VRef(e), is_node(c, ref(e)), ir_of(c, ref(e)) == VRef(ir),
                                                uuid_of(c, ref(e)) == u)))


def wf_cache_old(c):
    """For every IR: (I1) every node attached to it is found under its uuid; (I2) every entry is a node
    attached to it whose uuid is the key.  Together: get_by_uuid(u) is n  <=>  n attached to ir and uuid(n)==u."""
    ir = fresh("ir", Int)
    n = fresh("n", Int)
    u = fresh("u", Val)
    e = z3.Select(cache_map(c, ir), u)
    return z3.And(
        z3.ForAll([ir, n], z3.Implies(z3.And(c.isinst(ir, "IR"), is_node(c, n), ir_of(c, n) == VRef(ir)),
                                      z3.And(z3.Select(cache_dom(c, ir), uuid_of(c, n)),
                                             z3.Select(cache_map(c, ir), uuid_of(c, n)) == VRef(n)))),
        z3.ForAll([ir, u], z3.Implies(z3.And(c.isinst(ir, "IR"), z3.Select(cache_dom(c, ir), u)),
                                      z3.And(is_VRef(e), is_node(c, ref(e)), ir_of(c, ref(e)) == VRef(ir),
                                             uuid_of(c, ref(e)) == u))),
    )


def uuids_typed(c):
    n = fresh("n", Int)
    return z3.ForAll([n], z3.Implies(is_node(c, n), is_VUuid(uuid_of(c, n))))


def distinct_in_subtree(c, root, cls=None):
    """uuids of the nodes of subtree(root) are pairwise distinct"""
    n1 = fresh("n1", Int)
    n2 = fresh("n2", Int)
    return z3.ForAll([n1, n2], z3.Implies(z3.And(in_subtree(c, root, n1, cls), in_subtree(c, root, n2, cls),
                                                  uuid_of(c, n1) == uuid_of(c, n2)), n1 == n2))


# ---- effect of registering / unregistering a subtree in a table given as (dom, map) -----------------
def added(c, root, dom0, map0, dom1, map1, cls=None):
    n = fresh("n", Int)
    u = fresh("u", Val)
    e1 = z3.Select(map1, u)
    return {
        "subtree_registered": z3.ForAll([n], z3.Implies(
            in_subtree(c, root, n, cls), z3.And(z3.Select(dom1, uuid_of(c, n)), z3.Select(map1, uuid_of(c, n)) == VRef(n)))),
        "old_entries_kept_or_overwritten_by_subtree": z3.ForAll([u], z3.Implies(
            z3.Select(dom0, u), z3.And(z3.Select(dom1, u), z3.Or(e1 == z3.Select(map0, u), z3.And(
                is_VRef(e1), in_subtree(c, root, ref(e1), cls), uuid_of(c, ref(e1)) == u))))),
        "new_entries_are_subtree": z3.ForAll([u], z3.Implies(
            z3.And(z3.Select(dom1, u), z3.Not(z3.Select(dom0, u))),
            z3.And(is_VRef(e1), in_subtree(c, root, ref(e1), cls), uuid_of(c, ref(e1)) == u))),
    }


def registered(c, root, dom, mp, cls=None):
    """every node of subtree(root) is in the table under its own uuid"""
    n = fresh("n", Int)
    return z3.ForAll([n], z3.Implies(in_subtree(c, root, n, cls),
                                     z3.And(z3.Select(dom, uuid_of(c, n)), z3.Select(mp, uuid_of(c, n)) == VRef(n))))


def removed(c, root, dom0, map0, dom1, map1, cls=None):
    u = fresh("u", Val)
    e0 = z3.Select(map0, u)
    return {
        "exactly_subtree_removed": z3.ForAll([u], z3.Select(dom1, u) == z3.And(
            z3.Select(dom0, u), z3.Not(z3.And(is_VRef(e0), in_subtree(c, root, ref(e0), cls), uuid_of(c, ref(e0)) == u)))),
        "other_entries_unchanged": z3.ForAll([u], z3.Implies(z3.Select(dom1, u), z3.Select(map1, u) == e0)),
    }
