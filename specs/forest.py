"""Containment forest, container wiring, typing and index-region invariants (DESIGN 3.1-3.4).

All invariants are universally quantified only (no forall-exists), so that proofs stay within what
E-matching handles; array contents act as witnesses.
"""
import z3
from pyvc.core import (Val, VNone, VInt, VRef, VIv, is_VNone, is_VInt, is_VRef, is_VIv, is_VStr, ival, ref, ivd,
                       SetSort, EmptySet, fresh, Int, Bool)
from specs.common import block_typed, interval_typed
from specs import lazy


def data(c, w):
    """contents of a SetWrapper (w: Val holding the wrapper reference)"""
    return z3.Select(c.arr("SetWrapper._data"), ref(w))


def kind_is(c, r, qual):
    return c.kind(r) == c.eng.schema.class_id(qual)


# ------------------------------------------------------------------------------------------------ wiring
def wf_wiring(c):
    """Immutable wiring between owners, their owning collections and their lazy trees (set up by the
    constructors and never reassigned - checked syntactically by Schema.shape_checks)."""
    bi = fresh("bi", Int)
    s = fresh("s", Int)
    w_bi = c.get("blocks", bi)
    L_bi = c.get("_interval_tree", bi)
    w_s = c.get("byte_intervals", s)
    L_s = c.get("_interval_index", s)
    return z3.And(
        z3.ForAll([bi], z3.Implies(c.isinst(bi, "ByteInterval"), z3.And(
            is_VRef(w_bi), kind_is(c, ref(w_bi), "ByteInterval._BlockSet"), c.get("_node", ref(w_bi)) == VRef(bi),
            is_VRef(L_bi), kind_is(c, ref(L_bi), "LazyIntervalTree"),
            c.get("_value_collection", ref(L_bi)) == w_bi))),
        z3.ForAll([s], z3.Implies(c.isinst(s, "Section"), z3.And(
            is_VRef(w_s), kind_is(c, ref(w_s), "Section._ByteIntervalSet"), c.get("_node", ref(w_s)) == VRef(s),
            is_VRef(L_s), kind_is(c, ref(L_s), "LazyIntervalTree"),
            c.get("_value_collection", ref(L_s)) == w_s))),
    )


def wf_lit_owner(c):
    """every lazy tree is built over a block set or an interval set whose owner is a byte interval / section"""
    L = fresh("L", Int)
    w = c.get("_value_collection", L)
    own = c.get("_node", ref(w))
    return z3.ForAll([L], z3.Implies(kind_is(c, L, "LazyIntervalTree"), z3.And(
        is_VRef(w), is_VRef(own),
        z3.Or(z3.And(kind_is(c, ref(w), "ByteInterval._BlockSet"), c.isinst(ref(own), "ByteInterval"),
                     c.get("blocks", ref(own)) == w, c.get("_interval_tree", ref(own)) == VRef(L)),
              z3.And(kind_is(c, ref(w), "Section._ByteIntervalSet"), c.isinst(ref(own), "Section"),
                     c.get("byte_intervals", ref(own)) == w, c.get("_interval_index", ref(own)) == VRef(L))))))


# ------------------------------------------------------------------------------------------------ membership
def wf_members(c):
    """children -> parent direction of the forest for the two indexed relations, with kinds and typing:
    every member of a block set is a typed ByteBlock whose parent is the owner; likewise intervals."""
    w = fresh("w", Int)
    v = fresh("v", Val)
    return z3.And(
        z3.ForAll([w, v], z3.Implies(
            z3.And(kind_is(c, w, "ByteInterval._BlockSet"), z3.Select(z3.Select(c.arr("SetWrapper._data"), w), v)),
            z3.And(is_VRef(v), c.isinst(ref(v), "ByteBlock"), block_typed(c, ref(v)),
                   c.get("_byte_interval", ref(v)) == c.get("_node", w)))),
        z3.ForAll([w, v], z3.Implies(
            z3.And(kind_is(c, w, "Section._ByteIntervalSet"), z3.Select(z3.Select(c.arr("SetWrapper._data"), w), v)),
            z3.And(is_VRef(v), c.isinst(ref(v), "ByteInterval"), interval_typed(c, ref(v)),
                   c.get("_section", ref(v)) == c.get("_node", w)))),
    )


def wf_parents(c):
    """parent -> children direction: a block whose parent is bi is in bi.blocks; same for intervals.
    Together with wf_members:  c in children(p)  <=>  parent(c) is p."""
    b = fresh("b", Int)
    bi = fresh("bi", Int)
    pb = c.get("_byte_interval", b)
    ps = c.get("_section", bi)
    return z3.And(
        z3.ForAll([b], z3.Implies(z3.And(c.isinst(b, "ByteBlock"), is_VRef(pb)),
                                  z3.And(c.isinst(ref(pb), "ByteInterval"),
                                         z3.Select(data(c, c.get("blocks", ref(pb))), VRef(b))))),
        z3.ForAll([bi], z3.Implies(z3.And(c.isinst(bi, "ByteInterval"), is_VRef(ps)),
                                   z3.And(c.isinst(ref(ps), "Section"),
                                          z3.Select(data(c, c.get("byte_intervals", ref(ps))), VRef(bi))))),
        z3.ForAll([b], z3.Implies(c.isinst(b, "ByteBlock"), z3.Or(is_VNone(pb), is_VRef(pb)))),
        z3.ForAll([bi], z3.Implies(c.isinst(bi, "ByteInterval"), z3.Or(is_VNone(ps), is_VRef(ps)))),
    )


def wf_typed(c):
    b = fresh("b", Int)
    bi = fresh("bi", Int)
    return z3.And(z3.ForAll([b], z3.Implies(c.isinst(b, "ByteBlock"), block_typed(c, b))),
                  z3.ForAll([bi], z3.Implies(c.isinst(bi, "ByteInterval"), interval_typed(c, bi))))


# ------------------------------------------------------------------------------------------------ region R
def lit_elem_is_block(c, L):
    return kind_is(c, ref(c.get("_value_collection", L)), "ByteInterval._BlockSet")


def wf_lazy_any(c, L):
    return z3.If(lit_elem_is_block(c, L), lazy.wf_lazy(c, "ByteBlock", L), lazy.wf_lazy(c, "ByteInterval", L))


def inv_region(c):
    return z3.And(*inv_region_parts(c).values())


def mk_any(c, L, n):
    """the interval the lazy tree L builds for element n (block trees: by offset; section trees: by address)"""
    return z3.If(lit_elem_is_block(c, L), lazy.mk_spec(c, "ByteBlock", n), lazy.mk_spec(c, "ByteInterval", n))


def inv_region_parts(c):
    """Region invariant over the internals of *all* lazy trees (flat, universally quantified):
    denote   - a built index, with the pending events replayed over it, holds exactly the intervals of the
               current members of its collection (WF_lazy);
    alive    - built index trees are allocated objects;
    unshared - no two lazy trees share an index tree."""
    L = fresh("L", Int)
    L2 = fresh("L2", Int)
    idx = c.get("LIT._interval_index", L)
    idx2 = c.get("LIT._interval_index", L2)
    is_lit = kind_is(c, L, "LazyIntervalTree")
    return {
        "region_denote": z3.ForAll([L], z3.Implies(is_lit, wf_lazy_any(c, L))),
        "region_alive": z3.ForAll([L], z3.Implies(z3.And(is_lit, is_VRef(idx)), z3.Select(c.arr("$alive"), ref(idx)))),
        "region_unshared": z3.ForAll([L, L2], z3.Implies(
            z3.And(is_lit, kind_is(c, L2, "LazyIntervalTree"), L != L2, is_VRef(idx), is_VRef(idx2)), idx != idx2)),
    }


def wf_static(c):
    """The R-free structural invariants lookups rely on."""
    return z3.And(wf_wiring(c), wf_lit_owner(c), wf_members(c), wf_typed(c))


# ------------------------------------------------------------------------------------------------ upper levels
def section_of_block(c, n):
    return c.get("_section", ref(c.get("_byte_interval", n)))


def wf_upper(c):
    """module <-> section and IR <-> module relations (both directions), as far as lookups need them.
    IR.modules is a list without repetitions; $modpos is the (ghost) position of an attached module."""
    m = fresh("m", Int)
    s = fresh("s", Int)
    ir = fresh("ir", Int)
    v = fresh("v", Val)
    i = fresh("i", Int)
    j = fresh("j", Int)
    w_m = c.get("sections", m)
    ml = c.get("modules", ir)
    items = z3.Select(c.arr("ListWrapper._data#items"), ref(ml))
    n = z3.Select(c.arr("ListWrapper._data#len"), ref(ml))
    pm = c.get("_module", s)
    pi = c.get("_ir", m)
    pos = z3.Select(c.arr("$modpos"), m)
    ml2 = c.get("modules", ref(pi))
    items2 = z3.Select(c.arr("ListWrapper._data#items"), ref(ml2))
    n2 = z3.Select(c.arr("ListWrapper._data#len"), ref(ml2))
    return z3.And(
        z3.ForAll([m], z3.Implies(c.isinst(m, "Module"), z3.And(
            is_VRef(w_m), kind_is(c, ref(w_m), "Module._NodeSet"), c.get("_node", ref(w_m)) == VRef(m),
            z3.Or(is_VNone(pi), z3.And(is_VRef(pi), c.isinst(ref(pi), "IR")))))),
        z3.ForAll([m, v], z3.Implies(z3.And(c.isinst(m, "Module"), z3.Select(data(c, w_m), v)),
                                     z3.And(is_VRef(v), c.isinst(ref(v), "Section"),
                                            c.get("_module", ref(v)) == VRef(m)))),
        z3.ForAll([s], z3.Implies(c.isinst(s, "Section"),
                                  z3.Or(is_VNone(pm), z3.And(is_VRef(pm), c.isinst(ref(pm), "Module"),
                                                             z3.Select(data(c, c.get("sections", ref(pm))), VRef(s)))))),
        z3.ForAll([ir], z3.Implies(c.isinst(ir, "IR"), z3.And(
            is_VRef(ml), kind_is(c, ref(ml), "IR._ModuleList"), n >= 0))),
        z3.ForAll([ir, i], z3.Implies(z3.And(c.isinst(ir, "IR"), 0 <= i, i < n),
                                      z3.And(is_VRef(z3.Select(items, i)), c.isinst(ref(z3.Select(items, i)), "Module"),
                                             c.get("_ir", ref(z3.Select(items, i))) == VRef(ir)))),
        z3.ForAll([ir, i, j], z3.Implies(z3.And(c.isinst(ir, "IR"), 0 <= i, i < j, j < n),
                                         z3.Select(items, i) != z3.Select(items, j))),
        z3.ForAll([m], z3.Implies(z3.And(c.isinst(m, "Module"), is_VRef(pi)),
                                  z3.And(0 <= pos, pos < n2, z3.Select(items2, pos) == VRef(m)))),
    )


def in_scope(c, level, node_kind, n, owner):
    """n (a block or an interval) is contained in owner (a section, module or IR) per the parent chain"""
    if node_kind == "block":
        bi = c.get("_byte_interval", n)
        sec = c.get("_section", ref(bi))
        base = z3.And(c.isinst(n, "ByteBlock"), is_VRef(bi))
    else:
        sec = c.get("_section", n)
        base = c.isinst(n, "ByteInterval")
    if level == "section":
        return z3.And(base, sec == VRef(owner))
    mod = c.get("_module", ref(sec))
    if level == "module":
        return z3.And(base, is_VRef(sec), mod == VRef(owner))
    ir = c.get("_ir", ref(mod))
    return z3.And(base, is_VRef(sec), is_VRef(mod), ir == VRef(owner))


# ------------------------------------------------------------------------------------------------ per-relation forms
def pending(c):
    """(P, owner): ghost description of a bulk insertion in progress (ByteInterval._BlockSet.update): the
    blocks in P already point to `owner` but are not yet in its block set.  Empty outside that loop."""
    g = getattr(c.eng, "ghost", None) or {}
    return g.get("P", EmptySet), g.get("P_owner", z3.IntVal(-1))


def _rel(c, parent_cls, child_cls, coll_field, wrapper_cls, parent_field, pend=None):
    """parent/child relation kept from both ends:  child in parent.<coll_field>  <=>  child.<parent_field> is parent
    (modulo the pending set of a bulk insertion, see pending())."""
    p = fresh("p", Int)
    ch = fresh("ch", Int)
    v = fresh("v", Val)
    w = c.get(coll_field, p)
    pv = c.get(parent_field, ch)
    from pyvc.core import VStr
    named = c.get("_field", ref(w)) == VStr(z3.StringVal(coll_field)) if wrapper_cls == "Module._NodeSet" \
        else z3.BoolVal(True)
    return z3.And(
        z3.ForAll([p], z3.Implies(c.isinst(p, parent_cls), z3.And(
            is_VRef(w), kind_is(c, ref(w), wrapper_cls), c.get("_node", ref(w)) == VRef(p), named))),
        z3.ForAll([p, v], z3.Implies(z3.And(c.isinst(p, parent_cls), z3.Select(data(c, w), v)),
                                     z3.And(is_VRef(v), c.isinst(ref(v), child_cls),
                                            c.get(parent_field, ref(v)) == VRef(p)))),
        z3.ForAll([ch], z3.Implies(c.isinst(ch, child_cls), z3.Or(is_VNone(pv), z3.And(
            is_VRef(pv), c.isinst(ref(pv), parent_cls),
            z3.Or(z3.Select(data(c, c.get(coll_field, ref(pv))), VRef(ch)),
                  z3.And(ref(pv) == pend[1], z3.Select(pend[0], VRef(ch)),
                         z3.Not(z3.Select(data(c, c.get(coll_field, ref(pv))), VRef(ch)))) if pend is not None
                  else z3.BoolVal(False)))))),
    )


def rel_block(c):
    return _rel(c, "ByteInterval", "ByteBlock", "blocks", "ByteInterval._BlockSet", "_byte_interval",
                pend=pending(c))


def rel_interval(c):
    return _rel(c, "Section", "ByteInterval", "byte_intervals", "Section._ByteIntervalSet", "_section")


def rel_section(c):
    return _rel(c, "Module", "Section", "sections", "Module._NodeSet", "_module")


def rel_symbol(c):
    return _rel(c, "Module", "Symbol", "symbols", "Module._NodeSet", "_module")


def rel_proxy(c):
    return _rel(c, "Module", "ProxyBlock", "proxies", "Module._NodeSet", "_module")


def wrappers_owned(c):
    """every owning-set object is the collection of exactly one owner (they are created only by the owners'
    constructors - Schema.shape_checks verifies that syntactically)"""
    w = fresh("w", Int)
    own = c.get("_node", w)

    def owned(wcls, pcls, fields):
        return z3.Implies(kind_is(c, w, wcls), z3.And(is_VRef(own), c.isinst(ref(own), pcls),
                                                      z3.Or([c.get(f, ref(own)) == VRef(w) for f in fields])))
    return z3.ForAll([w], z3.And(owned("ByteInterval._BlockSet", "ByteInterval", ["blocks"]),
                                 owned("Section._ByteIntervalSet", "Section", ["byte_intervals"]),
                                 owned("Module._NodeSet", "Module", ["sections", "symbols", "proxies"])))


def rel_module(c):
    return z3.And(*rel_module_parts(c).values())


def rel_module_parts(c):
    """IR.modules is a list without repetitions whose items are exactly the modules whose _ir is that IR
    ($modpos: ghost position of an attached module)."""
    m = fresh("m", Int)
    ir = fresh("ir", Int)
    i = fresh("i", Int)
    j = fresh("j", Int)
    ml = c.get("modules", ir)
    items = z3.Select(c.arr("ListWrapper._data#items"), ref(ml))
    n = z3.Select(c.arr("ListWrapper._data#len"), ref(ml))
    pi = c.get("_ir", m)
    pos = z3.Select(c.arr("$modpos"), m)
    ml2 = c.get("modules", ref(pi))
    items2 = z3.Select(c.arr("ListWrapper._data#items"), ref(ml2))
    n2 = z3.Select(c.arr("ListWrapper._data#len"), ref(ml2))
    wl = fresh("wl", Int)
    it_w = lambda k: z3.Select(z3.Select(c.arr("ListWrapper._data#items"), wl), k)
    own_w = c.get("_node", wl)
    return {
        "rel_module_wiring": z3.And(
            z3.ForAll([ir], z3.Implies(c.isinst(ir, "IR"), z3.And(
                is_VRef(ml), kind_is(c, ref(ml), "IR._ModuleList"), c.get("_node", ref(ml)) == VRef(ir), n >= 0))),
            # every module-list object belongs to exactly one IR
            z3.ForAll([wl], z3.Implies(kind_is(c, wl, "IR._ModuleList"), z3.And(
                is_VRef(own_w), c.isinst(ref(own_w), "IR"), c.get("modules", ref(own_w)) == VRef(wl))))),
        # (quantified over the list object itself, so that terms about a given list trigger the facts directly)
        "rel_module_items": z3.ForAll([wl, i], z3.Implies(
            z3.And(kind_is(c, wl, "IR._ModuleList"), 0 <= i, i < z3.Select(c.arr("ListWrapper._data#len"), wl)),
            z3.And(is_VRef(it_w(i)), c.isinst(ref(it_w(i)), "Module"), c.get("_ir", ref(it_w(i))) == c.get("_node", wl)))),
        "rel_module_nodup": z3.ForAll([wl, i, j], z3.Implies(
            z3.And(kind_is(c, wl, "IR._ModuleList"), 0 <= i, i < j, j < z3.Select(c.arr("ListWrapper._data#len"), wl)),
            it_w(i) != it_w(j))),
        "rel_module_pos": z3.ForAll([m], z3.Implies(c.isinst(m, "Module"), z3.Or(is_VNone(pi), z3.And(
            is_VRef(pi), c.isinst(ref(pi), "IR"),
            z3.Or(z3.And(0 <= pos, pos < n2, z3.Select(items2, pos) == VRef(m)),
                  (m == pending_module(c)) if pending_module(c) is not None else z3.BoolVal(False)))))),
    }


def pending_module(c):
    """ghost: a module whose _ir already points to its new IR but which is not yet in that IR's list
    (between IR._ModuleList._add and the list insertion); -1 outside that window"""
    g = getattr(c.eng, "ghost", None) or {}
    return g.get("M_pending")
