"""Shared specification vocabulary (z3 level).  See DESIGN.md section 3.

All functions take a spec context ``c`` (pyvc.contracts.Ctx: a view of the heap at one state) and
z3 terms; object references are z3 Ints, dynamically typed values are ``Val`` terms.
"""
import z3
from pyvc.core import (Val, VNone, VInt, VBool, VRef, VStr, VIv, VPair, VEnum, is_VNone, is_VInt, is_VBool,
                       is_VRef, is_VStr, is_VIv, is_VPair, ival, bval, ref, sval, ivb, ive, ivd, fst, snd,
                       SetSort, EmptySet, Card, fresh, Int, Bool)
from pyvc.schema import InRange


def And(*xs):
    xs = [x for x in xs if x is not None]
    return z3.And(*xs) if xs else z3.BoolVal(True)


# ----------------------------------------------------------------------------- typing invariants
def block_typed(c, b):
    """Type invariant of one ByteBlock: offset and size are non-negative ints (schema: uint64)."""
    off, sz = c.get("_offset", b), c.get("_size", b)
    return z3.And(is_VInt(off), is_VInt(sz), ival(off) >= 0, ival(sz) >= 0)


def interval_typed(c, bi):
    a, sz = c.get("_address", bi), c.get("_size", bi)
    return z3.And(z3.Or(is_VNone(a), z3.And(is_VInt(a), ival(a) >= 0)), is_VInt(sz), ival(sz) >= 0)


def all_blocks_typed(c):
    b = fresh("b", Int)
    return z3.ForAll([b], z3.Implies(c.isinst(b, "ByteBlock"), block_typed(c, b)))


def all_intervals_typed(c):
    b = fresh("bi", Int)
    return z3.ForAll([b], z3.Implies(c.isinst(b, "ByteInterval"), interval_typed(c, b)))


# ----------------------------------------------------------------------------- query predicates
def on_q(addr, size, start, stop):
    """'on': the node's byte range [addr, addr+size) meets the query hull [start, stop)."""
    lo = z3.If(addr > start, addr, start)
    hi = z3.If(addr + size < stop, addr + size, stop)
    return lo < hi


def at_q(addr, start, stop, step):
    """'at': the node's first address is a member of range(start, stop, step)."""
    return InRange(addr, start, stop, step)


def range_of(addrs):
    """(start, stop, step) z3 ints of an SV that is an int or a range."""
    if addrs.k == "int":
        return addrs.t, addrs.t + 1, z3.IntVal(1)
    if addrs.k == "range":
        return addrs.x[0].t, addrs.x[1].t, addrs.x[2].t
    raise ValueError(addrs.k)


# ----------------------------------------------------------------------------- containment
def blocks_of(c, bi):
    """children set of a byte interval: contents of bi.blocks._data (SetSort)."""
    w = c.get("blocks", bi)
    return z3.Select(c.arr("SetWrapper._data"), ref(w))


def intervals_of(c, s):
    w = c.get("byte_intervals", s)
    return z3.Select(c.arr("SetWrapper._data"), ref(w))


def block_addr(c, b):
    """Val: address of block b per the forest: interval address + offset, None if either is missing."""
    bi = c.get("_byte_interval", b)
    a = c.get("_address", ref(bi))
    return z3.If(z3.Or(is_VNone(bi), is_VNone(a)), VNone, VInt(ival(a) + ival(c.get("_offset", b))))
