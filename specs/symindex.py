"""Specification of the per-module symbol indexes (C10): by name and by referent (DESIGN 3.3)."""
import z3
from pyvc.core import (Val, VNone, VRef, VStr, is_VNone, is_VRef, is_VStr, is_VInt, ref, SetSort, EmptySet, fresh, Int)


def _idx_def(c, field, m, k):
    dom = z3.Select(c.arr(field + "#dom"), m)
    mp = z3.Select(c.arr(field + "#map"), m)
    return z3.If(z3.Select(dom, k), z3.Select(mp, k), EmptySet)


class _Idx:
    """entry of a module's index under key k, as a set one can Select from; backed by an opaque
    function of the state (clean triggers; missing and empty entries are indistinguishable)"""

    def __init__(self, c, field, m, k):
        self.c, self.field, self.m, self.k = c, field, m, k

    def has(self, v):
        f = self.c.fun("idx_" + field_short(self.field), [Int, Val, Val], z3.BoolSort(),
                       lambda m, k, v: z3.Select(_idx_def(self.c, self.field, m, k), v),
                       deps=(self.field + "#dom", self.field + "#map"),
                       extra_patterns=lambda m, k, v: [z3.Select(z3.Select(z3.Select(
                           self.c.arr(self.field + "#map"), m), k), v)])
        return f(self.m, self.k, v)


def field_short(f):
    return f.strip("_")


def idx_name(c, m, k):
    return _Idx(c, "_symbol_name_index", m, k)


def idx_ref(c, m, k):
    return _Idx(c, "_symbol_referent_index", m, k)


def referent_of(c, s):
    """Val: the payload if it is a Block, else None (Symbol.referent)"""
    p = c.get("__payload", s)
    return z3.If(z3.And(is_VRef(p), c.isinst(ref(p), "Block")), p, VNone)


def symbol_typed(c, s):
    p = c.get("__payload", s)
    return z3.And(is_VStr(c.get("_name", s)),
                  z3.Or(is_VNone(p), is_VInt(p), z3.And(is_VRef(p), c.isinst(ref(p), "Block"))))


def symbols_typed(c):
    s = fresh("s", Int)
    return z3.ForAll([s], z3.Implies(c.isinst(s, "Symbol"), symbol_typed(c, s)))


def in_module(c, s, m):
    return z3.And(c.isinst(s, "Symbol"), c.get("_module", s) == VRef(m))


def wf_symindex(c):
    """both indexes of every module hold exactly the symbols whose _module is that module, under their
    current name / current referent"""
    m = fresh("m", Int)
    k = fresh("k", Val)
    v = fresh("v", Val)
    return z3.And(
        z3.ForAll([m, k, v], z3.Implies(c.isinst(m, "Module"), idx_name(c, m, k).has(v) == z3.And(
            is_VRef(v), in_module(c, ref(v), m), c.get("_name", ref(v)) == k))),
        z3.ForAll([m, k, v], z3.Implies(c.isinst(m, "Module"), idx_ref(c, m, k).has(v) == z3.And(
            is_VRef(v), in_module(c, ref(v), m), is_VRef(k), referent_of(c, ref(v)) == k))),
    )
