"""The global data-structure invariant every public mutator is proved to preserve (DESIGN 3.1-3.4),
as a dictionary of named conjuncts (one proof obligation each)."""
import z3
from pyvc.core import Val, VNone, VRef, is_VNone, is_VRef, ref, fresh, Int
from specs import forest, cache as K, symindex as X


def WF(c, skip=()):
    out = {
        "parent_kinds": K.parent_kinds(c),
        "uuids_typed": K.uuids_typed(c),
        "rel_block": forest.rel_block(c),
        "rel_interval": forest.rel_interval(c),
        "rel_section": forest.rel_section(c),
        "rel_symbol": forest.rel_symbol(c),
        "rel_proxy": forest.rel_proxy(c),
        **forest.rel_module_parts(c),
        "wrappers_owned": forest.wrappers_owned(c),
        "lit_wiring": z3.And(forest.wf_wiring(c), forest.wf_lit_owner(c)),
        "typed": forest.wf_typed(c),
        **forest.inv_region_parts(c),
        "symbols_typed": X.symbols_typed(c),
        "wf_symindex": X.wf_symindex(c),
        "wf_cache_I1": K.wf_cache_I1(c),
        "wf_cache_I2": K.wf_cache_I2(c),
    }
    for k in skip:
        out.pop(k, None)
    return out


def WF_all(c, skip=()):
    return z3.And(*WF(c, skip).values())


def attach_ok(c, ir_val, v, cls):
    """The property's hypothesis for attaching subtree(v) under an owner whose IR is ir_val (Val, may be None):
    uuids inside the subtree are pairwise distinct and differ from every node attached to that IR elsewhere."""
    n1 = fresh("n1", Int)
    n2 = fresh("n2", Int)
    return z3.And(
        K.distinct_in_subtree(c, v, cls),
        z3.ForAll([n1, n2], z3.Implies(
            z3.And(is_VRef(ir_val), K.in_subtree(c, v, n1, cls), K.is_node(c, n2), z3.Not(K.in_subtree(c, v, n2, cls)),
                   K.ir_of(c, n2) == ir_val),
            K.uuid_of(c, n1) != K.uuid_of(c, n2))))


# --- assumption slicing for the conjuncts of WF (which facts the proof of each conjunct may use) -------------
_RELM = ["rel_module_wiring", "rel_module_items", "rel_module_nodup", "rel_module_pos"]
_EFFECT = ["view", "parent", "other_collections", "other_parents", "is_wrapper", "is_child", "parent_kinds",
           "subtree_shape_unchanged", "ir_of_unchanged_outside", "ir_of_subtree", "is_node", "stored",
           "subtree_same_ir", "root_ir", "parents", "target_ir_fixed", "elements_are_blocks", "not_pending",
           "events_add_all", "field_name", "value_kind", "unlinked", "linked", "is_list", "other_lists",
           "is_module", "list_effect", "ir_of_moved", "ir_of_unmoved", "card",
           "returned_a_member", "shrinks", "empty", "index_is_pos"]
_CACHE = ["wf_cache_I1", "wf_cache_I2", "uuids_typed", "uuids_distinct_where_attached", "subtree_registered",
          "old_entries_kept_or_overwritten_by_subtree", "new_entries_are_subtree", "exactly_subtree_removed",
          "other_entries_unchanged", *_RELM, "rel_interval", "rel_block", "rel_section", "rel_symbol",
          "rel_proxy"]
_RGN = ["region_denote", "region_alive", "region_unshared"]
_REGION = ["inv_region", *_RGN, "lit_wiring", "typed", "rel_block", "rel_interval", "queued", "denote_step"]
FOCUS = {
    "parent_kinds": _EFFECT,
    "uuids_typed": _EFFECT + ["uuids_typed"],
    "rel_block": _EFFECT + ["rel_block"],
    "rel_interval": _EFFECT + ["rel_interval"],
    "rel_section": _EFFECT + ["rel_section", "rel_symbol", "rel_proxy"],
    "rel_symbol": _EFFECT + ["rel_section", "rel_symbol", "rel_proxy"],
    "rel_proxy": _EFFECT + ["rel_section", "rel_symbol", "rel_proxy"],
    **{k: _EFFECT + _RELM for k in _RELM},
    "wrappers_owned": _EFFECT + ["wrappers_owned"],
    "lit_wiring": _EFFECT + ["lit_wiring"],
    "typed": _EFFECT + ["typed"],
    "inv_region": _EFFECT + _REGION,
    **{k: _EFFECT + _REGION for k in _RGN},
    "symbols_typed": _EFFECT + ["symbols_typed"],
    "wf_symindex": _EFFECT + ["wf_symindex", "symbols_typed", "name_index", "referent_index", "rel_symbol",
                                "other_modules"],
    "wf_cache_I1": _EFFECT + _CACHE,
    "wf_cache_I2": _EFFECT + _CACHE,
}


def focus(clause):
    if clause in FOCUS:
        return FOCUS[clause]
    if clause.startswith("raises.") or clause == "index_is_pos":
        return _EFFECT + _RELM
    if clause in ("callpre.distinct_uuids_in_subtree", "callpre.subtree_registered"):
        return _EFFECT + _CACHE
    if clause == "callpre.uuids_distinct_where_attached":
        return _EFFECT + ["uuids_distinct_where_attached", "uuids_typed", "rel_block", "rel_interval", "rel_section",
                          "rel_symbol", "rel_proxy", *_RELM]
    if clause in ("subtree_shape_unchanged", "ir_of_unchanged_outside", "ir_of_subtree", "ir_of_moved",
                  "ir_of_unmoved"):
        return _EFFECT + ["rel_block"]
    if clause in ("view", "parents", "parent", "other_collections", "other_parents", "target_ir_fixed"):
        return _EFFECT + ["rel_block", "rel_interval", "rel_section", "rel_symbol", "rel_proxy", *_RELM,
                          "wrappers_owned"]
    if clause.startswith("lemma."):
        return _EFFECT + ["rel_block", "rel_interval", "rel_section", "rel_symbol", "rel_proxy", *_RELM,
                          "wrappers_owned"]
    return None
