"""deep_eq specification (C18).

DEQ(x, y): the result of x.deep_eq(y), as an uninterpreted relation; each class's contract pins it down exactly
for receivers of that class (proved against the real body), and the property-level obligations (same-kind iff,
reflexive, symmetric) are lemmas over those characterisations (props/C18.py)."""
import z3
from pyvc.core import Val, VNone, VRef, is_VNone, is_VRef, ref, fresh, Int, Bool

DEQ = z3.Function("DEQ", Int, Val, Bool)


def fields_eq(c, x, y, fields):
    return z3.And([c.get(f, x) == c.get(f, y) for f in fields]) if fields else z3.BoolVal(True)


def same_byteblock(c, x, y):
    return fields_eq(c, x, y, ["_offset", "uuid", "_size"])


def same_codeblock(c, x, y):
    return z3.And(same_byteblock(c, x, y), c.get("decode_mode", x) == c.get("decode_mode", y))


def payload_parts(c, s):
    """(value Val, referent Val) of a symbol per Symbol.value / Symbol.referent"""
    p = c.get("__payload", s)
    is_blk = z3.And(is_VRef(p), c.isinst(ref(p), "Block"))
    return z3.If(is_blk, VNone, p), z3.If(is_blk, p, VNone)
