"""Specification of the lazily maintained interval index (DESIGN 3.4)."""
import z3
from pyvc.core import (Val, VNone, VInt, VRef, VIv, VPair, VEnum, is_VNone, is_VInt, is_VRef, is_VIv, is_VPair, is_VEnum,
                       ival, ref, ivb, ive, ivd, fst, snd, enum_, SetSort, EmptySet, fresh, Int, Bool)
from specs.common import block_typed, interval_typed

SeqVal = z3.SeqSort(Val)
ADDED, DISCARDED = 1, 2          # _EventType members are numbered by enum.auto(), in order (checked by extractor)

# Denote(events, base): replay the event list, oldest first, over the set ``base``.
# Defined by recursion from the right end, so that appending one event is definitional.
Denote = z3.Function("Denote", SeqVal, SetSort, SetSort)


def ev_iv(e):
    return fst(snd(e))


def step(S, e, ecls):
    """one event applied to a set of intervals: exactly the test `event == _EventType.ADDED` of the code"""
    return z3.If(fst(e) == VEnum(z3.IntVal(ecls), z3.IntVal(ADDED)), z3.Store(S, ev_iv(e), True),
                 z3.Store(S, ev_iv(e), False))


def denote_axioms(ecls):
    es = z3.Const("es", SeqVal)
    e = z3.Const("e", Val)
    b = z3.Const("b", SetSort)
    return [
        z3.ForAll([b], Denote(z3.Empty(SeqVal), b) == b),
        z3.ForAll([es, e, b], Denote(z3.Concat(es, z3.Unit(e)), b) == step(Denote(es, b), e, ecls),
                  patterns=[Denote(z3.Concat(es, z3.Unit(e)), b)]),
    ]


def mk_spec(c, elem, n):
    """Val: the interval LazyIntervalTree._make_interval builds for element n (None if it has no address)."""
    if elem == "ByteBlock":
        off, sz = c.get("_offset", n), c.get("_size", n)
        return VIv(ival(off), ival(off) + ival(sz) + 1, n)
    a, sz = c.get("_address", n), c.get("_size", n)
    return z3.If(is_VNone(a), VNone, VIv(ival(a), ival(a) + ival(sz) + 1, n))


def elem_typed(c, elem, n):
    if elem == "ByteBlock":
        return z3.And(c.isinst(n, "ByteBlock"), block_typed(c, n))
    return z3.And(c.isinst(n, "ByteInterval"), interval_typed(c, n))


def coll_data(c, L):
    """contents (SetSort) of the wrapper the lazy tree was built over"""
    w = c.get("_value_collection", L)
    return z3.Select(c.arr("SetWrapper._data"), ref(w))


def cur_has(c, elem, L, iv):
    """iv is the interval of a current member of the collection"""
    return z3.And(is_VIv(iv), z3.Select(coll_data(c, L), VRef(ivd(iv))), mk_spec(c, elem, ivd(iv)) == iv)


def events(c, L):
    return z3.Select(c.arr("_interval_events"), L)


def index_content(c, L):
    idx = c.get("LIT._interval_index", L)
    return z3.Select(c.arr("$tree_content"), ref(idx))


def coll_typed(c, elem, L):
    v = fresh("v", Val)
    return z3.And(is_VRef(c.get("_value_collection", L)),
                  z3.ForAll([v], z3.Implies(z3.Select(coll_data(c, L), v),
                                            z3.And(is_VRef(v), elem_typed(c, elem, ref(v))))))


def wf_lazy(c, elem, L):
    """index is None, or replaying the pending events over the index gives exactly the current intervals"""
    idx = c.get("LIT._interval_index", L)
    iv = fresh("iv", Val)
    return z3.Or(is_VNone(idx),
                 z3.And(is_VRef(idx),
                        z3.ForAll([iv], z3.Select(Denote(events(c, L), index_content(c, L)), iv) == cur_has(c, elem, L, iv))))


def index_set(c, elem, L):
    """The abstract index idx(container) of DESIGN 3.3 as a predicate on intervals."""
    idx = c.get("LIT._interval_index", L)
    return lambda iv: z3.If(is_VNone(idx), cur_has(c, elem, L, iv),
                            z3.Select(Denote(events(c, L), index_content(c, L)), iv))
