"""Contracts for deep_eq of the leaf classes (C18)."""
import z3
from pyvc.contracts import Contract
from pyvc.core import SV, Val, VNone, VRef, is_VNone, is_VRef, ref, fresh, Int, to_val
from specs import deepeq as D

PROPS = ("C18",)


class DeepEqLeaf(Contract):
    """<cls>.deep_eq(self, other) for receivers whose dynamic class is `recv` (the method may be inherited)."""
    props = PROPS
    result = "bool"

    def __init__(self, file, owner, recv, as_super=False):
        self.recv = recv
        self.as_super = as_super          # the ByteBlock body reached through super() from CodeBlock.deep_eq
        self.target = "%s::%s.deep_eq" % (file, owner)
        self.variant = recv + ("/super" if as_super else "")
        self.params = {"self": "ref:" + recv, "other": "val"}
        super().__init__()

    def selects(self, self_cls, args, kwargs=None):
        return self_cls == self.recv

    def pre(self, c, a):
        from specs import cache as K
        from specs.forest import wf_typed
        from pyvc.core import is_VEnum
        n = fresh("n", Int)
        return {"receiver_kind": c.kind(a.self.t) == c.eng.schema.class_id(self.recv),
                # typing invariants of node fields (uuids are UUIDs, offsets/sizes ints, decode modes enum members)
                "uuids_typed": K.uuids_typed(c), "blocks_typed": wf_typed(c),
                "decode_modes_typed": z3.ForAll([n], z3.Implies(c.isinst(n, "CodeBlock"), is_VEnum(c.get("decode_mode", n))))}

    # --- what the result must be when `other` is of the same kind (from the property text)
    def same(self, c, x, y):
        if self.recv in ("ByteBlock", "DataBlock"):
            return D.same_byteblock(c, x, y)
        if self.recv == "CodeBlock":
            return D.same_codeblock(c, x, y)
        if self.recv == "ProxyBlock":
            return c.get("uuid", x) == c.get("uuid", y)
        raise ValueError(self.recv)

    # --- exact characterisation of the body's result (what the code computes; proved, used by the lemmas)
    def exact(self, c, x, o):
        y = ref(o)
        same_type = c.kind(y) == c.kind(x)
        if self.recv in ("ByteBlock", "DataBlock") or self.as_super:
            return z3.And(is_VRef(o), c.isinst(y, "ByteBlock"), same_type, D.same_byteblock(c, x, y))
        if self.recv == "CodeBlock":
            return z3.And(is_VRef(o), c.isinst(y, "CodeBlock"), same_type, D.same_codeblock(c, x, y))
        if self.recv == "ProxyBlock":
            return z3.And(is_VRef(o), c.isinst(y, "ProxyBlock"), c.get("uuid", x) == c.get("uuid", y))
        raise ValueError(self.recv)

    def post(self, c0, c1, a, res):
        x, o = a.self.t, to_val(a.other)
        same_kind = z3.And(is_VRef(o), c0.kind(ref(o)) == c0.kind(x))
        out = {"exact": res.t == self.exact(c0, x, o)}
        if not self.as_super:
            out["same_kind_iff_fields_equal"] = z3.Implies(same_kind, res.t == self.same(c0, x, ref(o)))
        return out

    def result_term(self, c0, a):
        if self.as_super:
            return None
        from pyvc.core import sv_bool
        return sv_bool(D.DEQ(a.self.t, to_val(a.other)))


def register(reg):
    reg.add(DeepEqLeaf("block.py", "ByteBlock", "ByteBlock"))
    reg.add(DeepEqLeaf("block.py", "ByteBlock", "DataBlock"))
    reg.add(DeepEqLeaf("block.py", "ByteBlock", "CodeBlock", as_super=True))
    reg.add(DeepEqLeaf("block.py", "CodeBlock", "CodeBlock"))
    reg.add(DeepEqLeaf("block.py", "ProxyBlock", "ProxyBlock"))
