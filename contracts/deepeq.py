"""Contracts for deep_eq of the leaf classes (C18)."""
import z3
from pyvc.contracts import Contract
from pyvc.core import SV, Val, VNone, VRef, is_VNone, is_VRef, ref, fresh, Int, to_val
from specs import deepeq as D

PROPS = ("C18",)


class DeepEqLeaf(Contract):
    """<cls>.deep_eq(self, other) for receivers whose dynamic class is `recv` (the method may be inherited)."""
    props = PROPS
    result = "bool"

    def __init__(self, file, owner, recv, as_super=False):
        self.recv = recv
        self.as_super = as_super          # the ByteBlock body reached through super() from CodeBlock.deep_eq
        self.target = "%s::%s.deep_eq" % (file, owner)
        self.variant = recv + ("/super" if as_super else "")
        self.params = {"self": "ref:" + recv, "other": "val"}
        super().__init__()

    def selects(self, self_cls, args, kwargs=None):
        return self_cls == self.recv

    def pre(self, c, a):
        from specs import cache as K
        from specs.forest import wf_typed
        from pyvc.core import is_VEnum
        n = fresh("n", Int)
        return {"receiver_kind": c.kind(a.self.t) == c.eng.schema.class_id(self.recv),
                # typing invariants of node fields (uuids are UUIDs, offsets/sizes ints, decode modes enum members)
                "uuids_typed": K.uuids_typed(c), "blocks_typed": wf_typed(c),
                "decode_modes_typed": z3.ForAll([n], z3.Implies(c.isinst(n, "CodeBlock"), is_VEnum(c.get("decode_mode", n))))}

    # --- what the result must be when `other` is of the same kind (from the property text)
    def same(self, c, x, y):
        if self.recv in ("ByteBlock", "DataBlock"):
            return D.same_byteblock(c, x, y)
        if self.recv == "CodeBlock":
            return D.same_codeblock(c, x, y)
        if self.recv == "ProxyBlock":
            return c.get("uuid", x) == c.get("uuid", y)
        raise ValueError(self.recv)

    # --- exact characterisation of the body's result (what the code computes; proved, used by the lemmas)
    def exact(self, c, x, o):
        y = ref(o)
        same_type = c.kind(y) == c.kind(x)
        if self.recv in ("ByteBlock", "DataBlock") or self.as_super:
            return z3.And(is_VRef(o), c.isinst(y, "ByteBlock"), same_type, D.same_byteblock(c, x, y))
        if self.recv == "CodeBlock":
            return z3.And(is_VRef(o), c.isinst(y, "CodeBlock"), same_type, D.same_codeblock(c, x, y))
        if self.recv == "ProxyBlock":
            return z3.And(is_VRef(o), c.isinst(y, "ProxyBlock"), c.get("uuid", x) == c.get("uuid", y))
        raise ValueError(self.recv)

    def post(self, c0, c1, a, res):
        x, o = a.self.t, to_val(a.other)
        same_kind = z3.And(is_VRef(o), c0.kind(ref(o)) == c0.kind(x))
        out = {"exact": res.t == self.exact(c0, x, o)}
        if not self.as_super:
            out["same_kind_iff_fields_equal"] = z3.Implies(same_kind, res.t == self.same(c0, x, ref(o)))
        return out

    def result_term(self, c0, a):
        if self.as_super:
            return None
        from pyvc.core import sv_bool
        return sv_bool(D.DEQ(a.self.t, to_val(a.other)))


def register(reg):
    reg.add(DeepEqLeaf("block.py", "ByteBlock", "ByteBlock"))
    reg.add(DeepEqLeaf("block.py", "ByteBlock", "DataBlock"))
    reg.add(DeepEqLeaf("block.py", "ByteBlock", "CodeBlock", as_super=True))
    reg.add(DeepEqLeaf("block.py", "CodeBlock", "CodeBlock"))
    reg.add(DeepEqLeaf("block.py", "ProxyBlock", "ProxyBlock"))


# ------------------------------------------------------------------------------------------- Symbol and symbolic expressions
from pyvc.core import is_VInt, is_VBool, is_VStr, is_VUuid      # noqa: E402


def sym_typed(c, s):
    p = c.get("__payload", s)
    return z3.And(is_VStr(c.get("_name", s)), is_VBool(c.get("at_end", s)), is_VUuid(c.get("uuid", s)),
                  z3.Or(is_VNone(p), is_VInt(p), z3.And(is_VRef(p), c.isinst(ref(p), "Block"))))


def symbol_exact(c, x, o):
    """Symbol.deep_eq(x, o): same value, referents deep_eq (or both absent), same name, at_end and UUID"""
    y = ref(o)
    vx, rx = D.payload_parts(c, x)
    vy, ry = D.payload_parts(c, y)
    refs = z3.If(is_VNone(rx), is_VNone(ry), D.DEQ(ref(rx), ry))
    return z3.And(is_VRef(o), c.isinst(y, "Symbol"), vx == vy, refs, c.get("_name", x) == c.get("_name", y),
                  c.get("at_end", x) == c.get("at_end", y), c.get("uuid", x) == c.get("uuid", y))


class SymbolDeepEq(Contract):
    target = "symbol.py::Symbol.deep_eq"
    props = PROPS
    params = {"self": "ref:Symbol", "other": "val"}
    result = "bool"

    def pre(self, c, a):
        n = fresh("n", Int)
        return {"symbols_typed": z3.ForAll([n], z3.Implies(c.isinst(n, "Symbol"), sym_typed(c, n))),
                "is_symbol": c.isinst(a.self.t, "Symbol")}

    def post(self, c0, c1, a, res):
        return {"exact": res.t == symbol_exact(c0, a.self.t, to_val(a.other))}

    def result_term(self, c0, a):
        from pyvc.core import sv_bool
        return sv_bool(D.DEQ(a.self.t, to_val(a.other)))


def symexpr_exact(c, cls, x, o):
    y = ref(o)
    attrs = z3.Select(c.arr("SymExpr.attributes"), x) == z3.Select(c.arr("SymExpr.attributes"), y)
    if cls == "SymAddrConst":
        return z3.And(is_VRef(o), c.isinst(y, "SymAddrConst"), c.get("offset", x) == c.get("offset", y),
                      D.DEQ(ref(c.get("symbol", x)), c.get("symbol", y)), attrs)
    return z3.And(is_VRef(o), c.isinst(y, "SymAddrAddr"), c.get("scale", x) == c.get("scale", y),
                  c.get("offset", x) == c.get("offset", y), D.DEQ(ref(c.get("symbol1", x)), c.get("symbol1", y)),
                  D.DEQ(ref(c.get("symbol2", x)), c.get("symbol2", y)), attrs)


class SymExprDeepEq(Contract):
    props = PROPS
    result = "bool"

    def __init__(self, cls):
        self.cls = cls
        self.target = "symbolicexpression.py::%s.deep_eq" % cls
        self.params = {"self": "ref:" + cls, "other": "val"}
        super().__init__()

    def pre(self, c, a):
        n = fresh("n", Int)
        isint = lambda v: z3.Or(is_VInt(v))
        flds = ["symbol"] if self.cls == "SymAddrConst" else ["symbol1", "symbol2"]
        nums = ["offset"] if self.cls == "SymAddrConst" else ["offset", "scale"]
        return {"expressions_typed": z3.ForAll([n], z3.Implies(c.isinst(n, self.cls), z3.And(
            [z3.And(is_VRef(c.get(f, n)), c.isinst(ref(c.get(f, n)), "Symbol")) for f in flds] + [isint(c.get(f, n)) for f in nums]))),
                "symbols_typed": z3.ForAll([n], z3.Implies(c.isinst(n, "Symbol"), sym_typed(c, n))),
                "is_expression": c.kind(a.self.t) == c.eng.schema.class_id(self.cls)}

    def post(self, c0, c1, a, res):
        return {"exact": res.t == symexpr_exact(c0, self.cls, a.self.t, to_val(a.other))}


_reg_leaf = register


def register(reg):      # noqa: F811
    _reg_leaf(reg)
    reg.add(SymbolDeepEq())
    reg.add(SymExprDeepEq("SymAddrConst"))
    reg.add(SymExprDeepEq("SymAddrAddr"))
