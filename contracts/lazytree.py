"""Contracts for lazyintervaltree.py (C12 core; C05/C06 depend on it)."""
import z3
from pyvc.contracts import Contract, LoopSpec
from pyvc.core import (SV, Val, VNone, VRef, VPair, VEnum, is_VNone, is_VRef, is_VIv, ref, fresh, Int, to_val, SetSort,
                       EmptySet)
from specs import lazy

PROPS = ("C12", "C05", "C06", "C13")


def _lit_param(elem):
    def mk(eng, st, name):
        return SV("ref", fresh(name, Int), cls="LazyIntervalTree", x=elem)
    return mk


class LitBase(Contract):
    props = PROPS

    def __init__(self, elem):
        self.elem = elem
        self.variant = elem
        self.params = {"self": _lit_param(elem), "value": "ref:" + elem}
        super().__init__()

    def selects(self, self_cls, args):
        return bool(args) and args[0].x == self.elem

    def axioms(self, eng):
        return lazy.denote_axioms(eng.schema.class_id("_EventType"))


class LitEvent(LitBase):
    """LazyIntervalTree.add / .discard: queue one event (nothing if the value has no interval)."""

    def __init__(self, which, elem):
        self.which = which
        self.target = "lazyintervaltree.py::LazyIntervalTree." + which
        self.modifies = {"_interval_events": lambda c0, a, r: r == a.self.t}
        super().__init__(elem)

    def pre(self, c, a):
        return {"typed": lazy.elem_typed(c, self.elem, a.value.t)}

    def post(self, c0, c1, a, res):
        L, v = a.self.t, a.value.t
        iv = lazy.mk_spec(c0, self.elem, v)
        tag = lazy.ADDED if self.which == "add" else lazy.DISCARDED
        ecls = c0.eng.schema.class_id("_EventType")
        ev = VPair(VEnum(z3.IntVal(ecls), z3.IntVal(tag)), VPair(iv, VNone))
        b = fresh("b", SetSort)
        body = lazy.Denote(lazy.events(c1, L), b) == z3.If(
            is_VNone(iv), lazy.Denote(lazy.events(c0, L), b),
            z3.Store(lazy.Denote(lazy.events(c0, L), b), iv, z3.BoolVal(self.which == "add")))
        from pyvc.core import legal_pattern
        pat = lazy.Denote(lazy.events(c1, L), b)
        # (an explicit post-state term may contain an if-then-else: not a legal trigger)
        dstep = z3.ForAll([b], body, patterns=[pat]) if legal_pattern(pat) else z3.ForAll([b], body)
        return {"queued": lazy.events(c1, L) == z3.If(is_VNone(iv), lazy.events(c0, L),
                                                       z3.Concat(lazy.events(c0, L), z3.Unit(ev))),
                # consequence of the definition of Denote, stated here so that callers need not unfold it
                "denote_step": dstep}


class LitGet(LitBase):
    """LazyIntervalTree.get: whatever the number of pending events, the returned tree holds exactly the
    intervals of the current members and no event stays pending (the three branches: first build, rebuild,
    incremental replay).  This single postcondition, stated over the current structure only, is C12."""
    target = "lazyintervaltree.py::LazyIntervalTree.get"
    result = "ref:$IntervalTree"

    def __init__(self, elem):
        super().__init__(elem)
        self.params = {"self": _lit_param(elem)}

    def modifies_spec(self, c0, a):
        L = a.self.t
        old_idx = c0.get("LIT._interval_index", L)
        alive0 = c0.arr("$alive")
        return {
            "LIT._interval_index": lambda c0, a, r: r == L,
            "_interval_events": lambda c0, a, r: r == L,
            "$tree_content": lambda c0, a, r: z3.Or(z3.And(is_VRef(old_idx), r == ref(old_idx)),
                                                    z3.Not(z3.Select(alive0, r))),
            "$alive": lambda c0, a, r: z3.Not(z3.Select(alive0, r)),
        }

    modifies = property(lambda self: self.modifies_spec)

    def pre(self, c, a):
        from specs import forest
        L = a.self.t
        return {"is_lazy_tree": forest.kind_is(c, L, "LazyIntervalTree"),
                "elem_kind": forest.lit_elem_is_block(c, L) == z3.BoolVal(self.elem == "ByteBlock"),
                "wf_static": forest.wf_static(c),
                "inv_region": forest.inv_region(c)}

    def post(self, c0, c1, a, res):
        L = a.self.t
        iv = fresh("iv", Val)
        r = res.t
        return {
            "returns_index": c1.get("LIT._interval_index", L) == VRef(r),
            "content_is_current": z3.ForAll([iv], z3.Select(z3.Select(c1.arr("$tree_content"), r), iv)
                                            == lazy.cur_has(c0, self.elem, L, iv)),
            "no_pending_events": lazy.events(c1, L) == z3.Empty(lazy.SeqVal),
            "index_alive": z3.Select(c1.arr("$alive"), r),
            **__import__("specs.forest", fromlist=["x"]).inv_region_parts(c1),
        }

    def apply(self, eng, args, kwargs, st):
        res = super().apply(eng, args, kwargs, st)
        a = self.bind(eng, args, kwargs, st)
        return SV("ref", res.t, cls="$IntervalTree", x=a["self"].x)


def _replay_inv(elem):
    def inv(L):
        self_ = L.a.self.t
        idx0 = L.cL.get("LIT._interval_index", self_)
        base = z3.Select(L.cL.arr("$tree_content"), ref(idx0))
        cur = z3.Select(L.c.arr("$tree_content"), ref(idx0))
        alive0 = L.cL.arr("$alive")
        r = fresh("r", Int)
        return {
            "content_is_prefix_replay": cur == lazy.Denote(z3.Extract(L.seq, 0, L.k), base),
            "other_trees_unchanged": z3.ForAll([r], z3.Implies(r != ref(idx0),
                                                               z3.Select(L.c.arr("$tree_content"), r)
                                                               == z3.Select(L.cL.arr("$tree_content"), r))),
        }
    return inv


def register(reg):
    reg.allow_inline("util.py::SetWrapper.__len__", "util.py::SetWrapper.__iter__", "util.py::SetWrapper.__contains__")
    for elem in ("ByteBlock", "ByteInterval"):
        reg.add(LitEvent("add", elem))
        reg.add(LitEvent("discard", elem))
        reg.add(LitGet(elem))
        reg.add_loop("lazyintervaltree.py::LazyIntervalTree.get[%s]" % elem, 0,
                     LoopSpec(_replay_inv(elem), modifies=("$tree_content",)))
