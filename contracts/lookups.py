"""Contracts for the address/offset lookups at byte-interval and section scope (C05, C06, C12)."""
import z3
from pyvc.contracts import Contract
from pyvc.core import (SV, Val, VNone, VInt, VRef, is_VNone, is_VInt, is_VRef, ival, ref, fresh, Int)
from pyvc.schema import REGION_KEYS
from specs.common import on_q, at_q, range_of
from specs import forest

PROPS = ("C05", "C06", "C12")


def kind_filter(c, n, which):
    if which == "code":
        return c.isinst(n, "CodeBlock")
    if which == "data":
        return c.isinst(n, "DataBlock")
    return z3.BoolVal(True)


class LookupBase(Contract):
    props = PROPS
    modifies = REGION_KEYS          # only the internals of lazy indexes may change (and stay well-formed)

    def region_invariant(self, c):
        return forest.inv_region(c)

    def base_pre(self, c, a, addrs):
        out = {"wf_static": forest.wf_static(c), "wf_parents": forest.wf_parents(c),
               "inv_region": forest.inv_region(c)}
        if addrs.k == "range":
            out["positive_step"] = addrs.x[2].t >= 1
        return out

    def post(self, c0, c1, a, res):
        return {**forest.inv_region_parts(c1)}

    def selects(self, self_cls, args):
        return len(args) > 1 and args[1].k == self.addr_kind


class BILookup(LookupBase):
    """ByteInterval.{byte,code,data}_blocks_{on,at}[_offset]"""
    yield_cls = "ByteBlock"

    def __init__(self, which, mode, offset, addr_kind):
        self.which, self.mode, self.offset, self.addr_kind = which, mode, offset, addr_kind
        name = "%s_blocks_%s%s" % (which, mode, "_offset" if offset else "")
        self.target = "byteinterval.py::ByteInterval." + name
        self.variant = addr_kind
        self.pname = "offsets" if offset else "addrs"
        self.params = {"self": "ref:ByteInterval", self.pname: addr_kind}
        if which == "code":
            self.yield_cls = "CodeBlock"
        elif which == "data":
            self.yield_cls = "DataBlock"
        super().__init__()

    def pre(self, c, a):
        out = self.base_pre(c, a, a[self.pname])
        out["is_interval"] = c.isinst(a.self.t, "ByteInterval")
        return out

    def yields(self, c0, a, v):
        bi = a.self.t
        n = ref(v)
        s, e, st = range_of(a[self.pname])
        off, sz = ival(c0.get("_offset", n)), ival(c0.get("_size", n))
        member = z3.And(is_VRef(v), z3.Select(forest.data(c0, c0.get("blocks", bi)), v), kind_filter(c0, n, self.which))
        if self.offset:
            q = on_q(off, sz, s, e) if self.mode == "on" else at_q(off, s, e, st)
            return z3.And(member, q)
        A = c0.get("_address", bi)
        q = on_q(ival(A) + off, sz, s, e) if self.mode == "on" else at_q(ival(A) + off, s, e, st)
        return z3.And(member, is_VInt(A), q)

    def witness(self, c0, a, v):
        from specs.lazy import mk_spec
        return {}


class SectionIntervals(LookupBase):
    """Section.byte_intervals_{on,at}"""
    yield_cls = "ByteInterval"

    def __init__(self, mode, addr_kind):
        self.mode, self.addr_kind = mode, addr_kind
        self.target = "section.py::Section.byte_intervals_" + mode
        self.variant = addr_kind
        self.params = {"self": "ref:Section", "addrs": addr_kind}
        super().__init__()

    def pre(self, c, a):
        out = self.base_pre(c, a, a.addrs)
        out["is_section"] = c.isinst(a.self.t, "Section")
        return out

    def yields(self, c0, a, v):
        s_ = a.self.t
        n = ref(v)
        s, e, st = range_of(a.addrs)
        A, sz = c0.get("_address", n), ival(c0.get("_size", n))
        q = on_q(ival(A), sz, s, e) if self.mode == "on" else at_q(ival(A), s, e, st)
        return z3.And(is_VRef(v), z3.Select(forest.data(c0, c0.get("byte_intervals", s_)), v), is_VInt(A), q)


def block_in_section(c, n, s_):
    bi = c.get("_byte_interval", n)
    return z3.And(c.isinst(n, "ByteBlock"), is_VRef(bi), c.get("_section", ref(bi)) == VRef(s_))


class SectionBlocks(LookupBase):
    """Section.{byte,code,data}_blocks_{on,at}: MUST <= yielded <= MAY, no repeats (DESIGN 4, C05):
    a block (or the part of it) outside its interval's declared extent may or may not be reported."""

    def __init__(self, which, mode, addr_kind):
        self.which, self.mode, self.addr_kind = which, mode, addr_kind
        self.target = "section.py::Section.%s_blocks_%s" % (which, mode)
        self.variant = addr_kind
        self.params = {"self": "ref:Section", "addrs": addr_kind}
        self.yield_cls = {"code": "CodeBlock", "data": "DataBlock"}.get(which, "ByteBlock")
        super().__init__()

    def pre(self, c, a):
        out = self.base_pre(c, a, a.addrs)
        out["is_section"] = c.isinst(a.self.t, "Section")
        return out

    def _parts(self, c0, a, v):
        n = ref(v)
        bi = ref(c0.get("_byte_interval", n))
        A, S = c0.get("_address", bi), ival(c0.get("_size", bi))
        off, sz = ival(c0.get("_offset", n)), ival(c0.get("_size", n))
        s, e, st = range_of(a.addrs)
        scope = z3.And(is_VRef(v), block_in_section(c0, n, a.self.t), kind_filter(c0, n, self.which), is_VInt(A))
        addr = ival(A) + off
        return scope, addr, sz, ival(A), S, s, e, st

    def yields(self, c0, a, v):            # MAY
        scope, addr, sz, A, S, s, e, st = self._parts(c0, a, v)
        q = on_q(addr, sz, s, e) if self.mode == "on" else at_q(addr, s, e, st)
        return z3.And(scope, q)

    def yields_must(self, c0, a, v):       # MUST
        scope, addr, sz, A, S, s, e, st = self._parts(c0, a, v)
        if self.mode == "on":
            lo = z3.If(addr > s, addr, s)
            lo = z3.If(A > lo, A, lo)
            hi = z3.If(addr + sz < e, addr + sz, e)
            hi = z3.If(A + S < hi, A + S, hi)
            q = lo < hi
        else:
            q = z3.And(at_q(addr, s, e, st), A <= addr, addr < A + S)
        return z3.And(scope, q)

    def witness(self, c0, a, v):
        if self.which != "byte":
            return {}        # a filter over byte_blocks_*: the single binder is the value itself
        # outer binder: the interval; inner binder: the block itself
        return {"": [c0.get("_byte_interval", ref(v)), v]}


class UpperLookup(LookupBase):
    """Module / IR scope: byte_intervals_{on,at} (exact) and {byte,code,data}_blocks_{on,at} (sandwich)."""

    def __init__(self, level, what, which, mode, addr_kind):
        self.level, self.what, self.which, self.mode, self.addr_kind = level, what, which, mode, addr_kind
        cls = {"module": "Module", "ir": "IR"}[level]
        fn = "byte_intervals_%s" % mode if what == "intervals" else "%s_blocks_%s" % (which, mode)
        self.target = "%s.py::%s.%s" % (level, cls, fn)
        self.variant = addr_kind
        self.cls = cls
        self.params = {"self": "ref:" + cls, "addrs": addr_kind}
        self.yield_cls = "ByteInterval" if what == "intervals" else \
            {"code": "CodeBlock", "data": "DataBlock"}.get(which, "ByteBlock")
        super().__init__()

    def pre(self, c, a):
        out = self.base_pre(c, a, a.addrs)
        out["is_owner"] = c.isinst(a.self.t, self.cls)
        out["wf_upper"] = forest.wf_upper(c)
        return out

    def yields(self, c0, a, v):
        n = ref(v)
        s, e, st = range_of(a.addrs)
        if self.what == "intervals":
            A, sz = c0.get("_address", n), ival(c0.get("_size", n))
            q = on_q(ival(A), sz, s, e) if self.mode == "on" else at_q(ival(A), s, e, st)
            return z3.And(is_VRef(v), forest.in_scope(c0, self.level, "interval", n, a.self.t), is_VInt(A), q)
        scope, addr, sz, A, S = self._parts(c0, a, v)
        q = on_q(addr, sz, s, e) if self.mode == "on" else at_q(addr, s, e, st)
        return z3.And(scope, q)

    def _parts(self, c0, a, v):
        n = ref(v)
        bi = ref(c0.get("_byte_interval", n))
        A, S = c0.get("_address", bi), ival(c0.get("_size", bi))
        off, sz = ival(c0.get("_offset", n)), ival(c0.get("_size", n))
        scope = z3.And(is_VRef(v), forest.in_scope(c0, self.level, "block", n, a.self.t),
                       kind_filter(c0, n, self.which), is_VInt(A))
        return scope, ival(A) + off, sz, ival(A), S

    def yields_must(self, c0, a, v):
        if self.what == "intervals":
            return None
        s, e, st = range_of(a.addrs)
        scope, addr, sz, A, S = self._parts(c0, a, v)
        if self.mode == "on":
            lo = z3.If(addr > s, addr, s)
            lo = z3.If(A > lo, A, lo)
            hi = z3.If(addr + sz < e, addr + sz, e)
            hi = z3.If(A + S < hi, A + S, hi)
            q = lo < hi
        else:
            q = z3.And(at_q(addr, s, e, st), A <= addr, addr < A + S)
        return z3.And(scope, q)

    def witness(self, c0, a, v):
        n = ref(v)
        if self.what == "intervals":
            sec = c0.get("_section", n)
        else:
            sec = forest.section_of_block(c0, n)
        if self.level == "module":
            return {"": [sec, v]}
        mod = c0.get("_module", ref(sec))
        return {"": [z3.Select(c0.arr("$modpos"), ref(mod)), v]}


def register(reg):
    reg.allow_inline("util.py::_nodes_on_interval_tree", "util.py::_nodes_at_interval_tree",
                     "util.py::_nodes_on_interval_tree_offset", "util.py::_nodes_at_interval_tree_offset")
    for kind in ("int", "range"):
        for mode in ("on", "at"):
            for offset in (False, True):
                for which in ("byte", "code", "data"):
                    reg.add(BILookup(which, mode, offset, kind))
            reg.add(SectionIntervals(mode, kind))
            for which in ("byte", "code", "data"):
                reg.add(SectionBlocks(which, mode, kind))
            for level in ("module", "ir"):
                reg.add(UpperLookup(level, "intervals", None, mode, kind))
                for which in ("byte", "code", "data"):
                    reg.add(UpperLookup(level, "blocks", which, mode, kind))
