"""Contracts for the AuxData cell (C14; also C08/C01: what bytes a table is saved as) and for the top level of
Serialization.encode / Serialization.decode.

Spec vocabulary (uninterpreted; their relation to the real codecs is what C07/C08 are about):
  pvalid(tn)              the type name parses                   (Serialization._parse_type, assumed here)
  ptree(tn)               its parse tree
  enc_exc(v, tree)        0: _encode_tree succeeds, 1: UnknownCodecError, 2: another exception
  enc_tree(v, tree)       the bytes _encode_tree appends
  dec_exc(b, tree, g)     0 / 1 / 2 likewise for _decode_tree on a stream holding b
  dec_tree(b, tree, g)    the value it returns
"""
import z3
from pyvc.contracts import Contract
from pyvc.core import SV, Val, VNone, VInt, VRef, VStr, is_VNone, is_VInt, is_VRef, is_VStr, ival, ref, fresh, Int, to_val
from pyvc.iomodel import IoContract, BSeq, blob_of, blob_seq, blob_val, oid, is_VOpaque

PROPS = ("C14", "C08")

Str = z3.StringSort()
pvalid = z3.Function("pvalid", Val, z3.BoolSort())
ptree = z3.Function("ptree", Val, Val)
enc_exc = z3.Function("enc_exc", Val, Val, Int)
enc_tree = z3.Function("enc_tree", Val, Val, BSeq)
dec_exc = z3.Function("dec_exc", BSeq, Val, Val, Int)
dec_tree = z3.Function("dec_tree", BSeq, Val, Val, Val)
dec_len = z3.Function("dec_len", BSeq, Val, Val, Int)         # how many bytes _decode_tree consumes


def unknown_cls(c):
    return c.eng.schema.class_id("UnknownData")


def is_unknown(c, v):
    return z3.And(is_VRef(v), c.kind(ref(v)) == unknown_cls(c))


def ubytes(c, r):
    return z3.Select(c.arr("$unknown.bytes"), r)


def NEW(c0, a, r):
    """frame: only objects allocated during the call may differ"""
    return z3.Not(z3.Select(c0.arr("$alive"), r))


FRESH = {"$alive": NEW, "$kind": NEW, "$unknown.bytes": NEW, "$stream.content": NEW, "$stream.pos": NEW}

# ------------------------------------------------------------------------------------------- assumed leaves

class ParseType(IoContract):
    """assumed here (C15 is about it): raises TypeNameError exactly on names outside the grammar"""
    target = "serialization.py::Serialization._parse_type"
    props = ()
    assumed = True
    params = {"type_name": "val"}
    result = "val"
    selects = staticmethod(lambda self_cls, args, kwargs=None: True)

    def raises(self, c0, a):
        return {"TypeNameError": z3.Not(pvalid(to_val(a.type_name)))}

    def result_term(self, c0, a):
        return SV("val", ptree(to_val(a.type_name)))


class EncodeTree(IoContract):
    """assumed (the codec dispatch and the container codecs behind it are covered by the codec contracts and the bounded
    stand-in): _encode_tree appends enc_tree(value, tree) or raises according to enc_exc(value, tree)"""
    target = "serialization.py::Serialization._encode_tree"
    props = ()
    assumed = True
    params = {"self": "ref:Serialization", "out": "stream", "val": "val", "type_tree": "val"}
    modifies = {"$stream.content": lambda c0, a, r: r == a.out.t, "$stream.pos": lambda c0, a, r: r == a.out.t}

    def raises(self, c0, a):
        e = enc_exc(to_val(a.val), to_val(a.type_tree))
        return {"UnknownCodecError": e == 1, "Exception": z3.And(e != 0, e != 1)}

    def post(self, c0, c1, a, res):
        s = a.out.t
        b = enc_tree(to_val(a.val), to_val(a.type_tree))
        return {"appends": z3.Select(c1.arr("$stream.content"), s) == z3.Concat(z3.Select(c0.arr("$stream.content"), s), b),
                "pos": z3.Select(c1.arr("$stream.pos"), s) == z3.Select(c0.arr("$stream.pos"), s) + z3.Length(b)}


class DecodeTree(IoContract):
    """assumed likewise: _decode_tree returns dec_tree(remaining bytes, tree, resolver), consumes dec_len(...) bytes, or raises
    according to dec_exc(...); it never returns an UnknownData"""
    target = "serialization.py::Serialization._decode_tree"
    props = ()
    assumed = True
    params = {"self": "ref:Serialization", "raw_bytes": "stream", "type_tree": "val", "get_by_uuid": "val"}
    modifies = {"$stream.pos": lambda c0, a, r: r == a.raw_bytes.t}
    result = "val"

    def _b(self, c0, a):
        s = a.raw_bytes.t
        content, pos = z3.Select(c0.arr("$stream.content"), s), z3.Select(c0.arr("$stream.pos"), s)
        return z3.SubSeq(content, pos, z3.Length(content) - pos)

    def raises(self, c0, a):
        e = dec_exc(self._b(c0, a), to_val(a.type_tree), to_val(a.get_by_uuid))
        return {"UnknownCodecError": e == 1, "Exception": z3.And(e != 0, e != 1)}

    def post(self, c0, c1, a, res):
        s = a.raw_bytes.t
        n = dec_len(self._b(c0, a), to_val(a.type_tree), to_val(a.get_by_uuid))
        return {"consumes": z3.And(n >= 0, z3.Select(c1.arr("$stream.pos"), s) == z3.Select(c0.arr("$stream.pos"), s) + n),
                "value": to_val(res) == dec_tree(self._b(c0, a), to_val(a.type_tree), to_val(a.get_by_uuid)),
                "codecs_never_produce_UnknownData": z3.Not(is_unknown(c0, to_val(res)))}


# ------------------------------------------------------------------------------------------- Serialization top level

class SerEncode(IoContract):
    """UnknownData is written back verbatim whatever the type name; anything else is the tree encoding under the
    parsed type name; an unknown codec name met while encoding a real value is an EncodeError."""
    target = "serialization.py::Serialization.encode"
    props = PROPS + ("C07",)
    params = {"self": "ref:Serialization", "out": "stream", "val": "val", "type_name": "val"}
    modifies = {"$stream.content": lambda c0, a, r: r == a.out.t, "$stream.pos": lambda c0, a, r: r == a.out.t}

    def pre(self, c, a):
        s = a.out.t
        return {"append_position": z3.Select(c.arr("$stream.pos"), s) == z3.Length(z3.Select(c.arr("$stream.content"), s)),
                "type_name_is_str": is_VStr(to_val(a.type_name))}

    def _cases(self, c0, a):
        v, tn = to_val(a.val), to_val(a.type_name)
        unk = is_unknown(c0, v)
        e = enc_exc(v, ptree(tn))
        return v, tn, unk, e

    def raises(self, c0, a):
        v, tn, unk, e = self._cases(c0, a)
        return {"TypeNameError": z3.And(z3.Not(unk), z3.Not(pvalid(tn))),
                "EncodeError": z3.And(z3.Not(unk), pvalid(tn), e == 1),
                "Exception": z3.And(z3.Not(unk), pvalid(tn), e != 0, e != 1)}

    def written(self, c0, a):
        v, tn, unk, e = self._cases(c0, a)
        return z3.If(unk, ubytes(c0, ref(v)), enc_tree(v, ptree(tn)))

    def post(self, c0, c1, a, res):
        s = a.out.t
        return {"appends_exactly": z3.Select(c1.arr("$stream.content"), s) ==
                z3.Concat(z3.Select(c0.arr("$stream.content"), s), self.written(c0, a))}


class SerDecode(IoContract):
    """decode(bytes, type_name, resolver): the tree decoding; if the type involves a name without codec the result is an
    UnknownData holding exactly the input bytes"""
    target = "serialization.py::Serialization.decode"
    props = PROPS + ("C07",)
    params = {"self": "ref:Serialization", "raw_bytes": "blob", "type_name": "val", "get_by_uuid": "val"}
    modifies = FRESH
    result = "val"

    def pre(self, c, a):
        return {"type_name_is_str": is_VStr(to_val(a.type_name))}

    def _e(self, a):
        return dec_exc(a.raw_bytes.t, ptree(to_val(a.type_name)), to_val(a.get_by_uuid))

    def raises(self, c0, a):
        e = self._e(a)
        return {"TypeNameError": z3.Not(pvalid(to_val(a.type_name))),
                "Exception": z3.And(pvalid(to_val(a.type_name)), e != 0, e != 1)}

    def post(self, c0, c1, a, res):
        e = self._e(a)
        v = to_val(res)
        r = fresh("r", Int)
        alive0, alive1 = c0.arr("$alive"), c1.arr("$alive")
        return {
            "known_type_gives_tree_value": z3.Implies(e == 0, z3.And(
                v == dec_tree(a.raw_bytes.t, ptree(to_val(a.type_name)), to_val(a.get_by_uuid)), z3.Not(is_unknown(c1, v)))),
            "unknown_codec_gives_the_input_bytes_back": z3.Implies(
                e == 1, z3.And(is_unknown(c1, v), ubytes(c1, ref(v)) == a.raw_bytes.t,
                               z3.Not(z3.Select(alive0, ref(v))))),
        }


# ------------------------------------------------------------------------------------------- the AuxData cell

def lazy(c, s):
    return c.get("_lazy_container", s)


def cell_wf(c, s):
    """representation invariant of an AuxData: no container, or a container still holding its bytes"""
    l = lazy(c, s)
    lr = ref(l)
    d = c.get("_data", s)
    return z3.And(is_VStr(c.get("type_name", s)),
                  z3.Implies(is_VRef(d), z3.Select(c.arr("$alive"), ref(d))),
                  z3.Or(is_VNone(l),
                        z3.And(is_VRef(l), c.kind(lr) == c.eng.schema.class_id("_LazyDataContainer"),
                               z3.Select(c.arr("$alive"), lr),
                               is_VOpaque(c.get("raw_data", lr)), is_VStr(c.get("type_name", lr)))))


def raw_of(c, s):
    return blob_seq(oid(c.get("raw_data", ref(lazy(c, s)))))


def pending_exc(c, s):
    lr = ref(lazy(c, s))
    return dec_exc(raw_of(c, s), ptree(c.get("type_name", lr)), c.get("get_by_uuid", lr))


def pending_value(c, s):
    lr = ref(lazy(c, s))
    return dec_tree(raw_of(c, s), ptree(c.get("type_name", lr)), c.get("get_by_uuid", lr))


CELL_MOD = {"_data": lambda c0, a, r: r == a.self.t, "_lazy_container": lambda c0, a, r: r == a.self.t,
            "raw_data": lambda c0, a, r: r == ref(lazy(c0, a.self.t))}
CELL_MOD.update(FRESH)


class DataGet(IoContract):
    """first read decodes the held bytes under the type name they were loaded with and releases them; later reads
    return the stored value"""
    target = "auxdata.py::AuxData.data"
    props = PROPS + ("C01",)
    params = {"self": "ref:AuxData"}
    modifies = CELL_MOD
    result = "val"

    def pre(self, c, a):
        return {"wf": cell_wf(c, a.self.t)}

    def raises(self, c0, a):
        s = a.self.t
        l = lazy(c0, s)
        e = pending_exc(c0, s)
        return {"TypeNameError": z3.And(is_VRef(l), z3.Not(pvalid(c0.get("type_name", ref(l))))),
                "Exception": z3.And(is_VRef(l), pvalid(c0.get("type_name", ref(l))), e != 0, e != 1)}

    def on_raise(self, c0, c1, a, exc_name):
        s = a.self.t
        return {"failed_decode_keeps_the_bytes": z3.And(lazy(c1, s) == lazy(c0, s),
                                                        c1.get("raw_data", ref(lazy(c0, s))) == c0.get("raw_data", ref(lazy(c0, s))))}

    def post(self, c0, c1, a, res):
        s = a.self.t
        l = lazy(c0, s)
        v = to_val(res)
        e = pending_exc(c0, s)
        return {
            "no_container_returns_stored_value": z3.Implies(is_VNone(l), z3.And(v == c0.get("_data", s),
                                                                                 c1.get("_data", s) == c0.get("_data", s))),
            "first_read_decodes_held_bytes": z3.Implies(z3.And(is_VRef(l), e == 0),
                                                        z3.And(v == pending_value(c0, s), z3.Not(is_unknown(c1, v)))),
            "unknown_type_reads_as_its_bytes": z3.Implies(z3.And(is_VRef(l), e == 1),
                                                          z3.And(is_unknown(c1, v), ubytes(c1, ref(v)) == raw_of(c0, s),
                                                                 z3.Not(z3.Select(c0.arr("$alive"), ref(v))))),
            "value_is_stored": c1.get("_data", s) == v,
            "container_released": is_VNone(lazy(c1, s)),
            "type_name_unchanged": c1.get("type_name", s) == c0.get("type_name", s),
        }


class DataSet(IoContract):
    target = "auxdata.py::AuxData.data.setter"
    props = PROPS + ("C01",)
    params = {"self": "ref:AuxData", "value": "val"}
    modifies = {"_data": lambda c0, a, r: r == a.self.t, "_lazy_container": lambda c0, a, r: r == a.self.t}

    def post(self, c0, c1, a, res):
        s = a.self.t
        return {"value_stored": c1.get("_data", s) == to_val(a.value),
                "loaded_bytes_dropped": is_VNone(lazy(c1, s))}


class AuxToProtobuf(IoContract):
    """what a table is saved as: its type name, and either the bytes it was loaded with (never read, type name
    unchanged) or the encoding of its current value under its current type name"""
    target = "auxdata.py::AuxData._to_protobuf"
    props = PROPS + ("C02", "C01")
    params = {"self": "ref:AuxData"}
    modifies = dict(CELL_MOD, **{"pb.AuxData.type_name": NEW, "pb.AuxData.data": NEW})
    result = "pb:AuxData"

    def pre(self, c, a):
        return {"wf": cell_wf(c, a.self.t)}

    def _split(self, c0, a):
        s = a.self.t
        l = lazy(c0, s)
        tn = c0.get("type_name", s)
        reuse = z3.And(is_VRef(l), tn == c0.get("type_name", ref(l)))
        return s, l, tn, reuse

    def _decode_fails(self, c0, a):
        s, l, tn, reuse = self._split(c0, a)
        return z3.And(is_VRef(l), z3.Not(reuse))

    def raises(self, c0, a):
        s, l, tn, reuse = self._split(c0, a)
        held_bad = z3.And(is_VRef(l), z3.Not(reuse), z3.Not(pvalid(c0.get("type_name", ref(l)))))
        return {"TypeNameError": z3.Or(held_bad, z3.And(z3.Not(reuse), z3.Not(held_bad), z3.Not(self._cur_unknown(c0, a)),
                                                       z3.Not(pvalid(tn))))}

    def _cur_unknown(self, c0, a):
        """the current value is an UnknownData blob"""
        s, l, tn, reuse = self._split(c0, a)
        return z3.If(is_VRef(l), pending_exc(c0, s) == 1, is_unknown(c0, c0.get("_data", s)))

    def _cur_value(self, c0, a):
        s, l, tn, reuse = self._split(c0, a)
        return z3.If(is_VRef(l), pending_value(c0, s), c0.get("_data", s))

    def may_raise(self, c0, a):
        # (one direction only: which of several failing steps comes first is not part of the property)
        s, l, tn, reuse = self._split(c0, a)
        de = pending_exc(c0, s)
        dec_other = z3.And(is_VRef(l), z3.Not(reuse), de != 0, de != 1)
        ee = enc_exc(self._cur_value(c0, a), ptree(tn))
        return {"Exception": z3.And(z3.Not(reuse), z3.Or(dec_other, z3.And(z3.Not(self._cur_unknown(c0, a)), ee != 0)))}

    def post(self, c0, c1, a, res):
        s, l, tn, reuse = self._split(c0, a)
        m = res.t
        data = blob_seq(oid(c1.get("pb.AuxData.data", m)))
        unk_bytes = z3.If(is_VRef(l), raw_of(c0, s), ubytes(c0, ref(c0.get("_data", s))))
        return {
            "type_name_field": c1.get("pb.AuxData.type_name", m) == tn,
            "never_read_and_same_type_name_reuses_loaded_bytes": z3.Implies(reuse, data == raw_of(c0, s)),
            "otherwise_encoding_of_current_value_under_current_type_name": z3.Implies(
                z3.And(z3.Not(reuse), z3.Not(self._cur_unknown(c0, a))),
                data == enc_tree(self._cur_value(c0, a), ptree(tn))),
            "unknown_type_keeps_its_bytes": z3.Implies(z3.And(z3.Not(reuse), self._cur_unknown(c0, a)), data == unk_bytes),
            "message_is_new": z3.Not(z3.Select(c0.arr("$alive"), m)),
            "type_name_unchanged": c1.get("type_name", s) == tn,
        }


class AuxFromProtobuf(IoContract):
    """loading is lazy: the table holds the message's bytes and type name, nothing is decoded"""
    target = "auxdata.py::AuxData._from_protobuf"
    props = PROPS + ("C02", "C01")
    params = {"aux_data": "pb:AuxData", "ir": "ref:IR"}
    modifies = {"_data": NEW, "_lazy_container": NEW, "raw_data": NEW, "type_name": NEW, "get_by_uuid": NEW,
                "$alive": NEW, "$kind": NEW}
    result = "ref:AuxData"

    def pre(self, c, a):
        return {"message_typed": c.eng.schema.pb.typed(c, a.aux_data.t, "AuxData")}

    def post(self, c0, c1, a, res):
        s = res.t
        m = a.aux_data.t
        l = lazy(c1, s)
        alive0 = c0.arr("$alive")
        return {
            "new_table": z3.Not(z3.Select(alive0, s)),
            "well_formed": cell_wf(c1, s),
            "holds_the_message_bytes": z3.And(is_VRef(l), c1.get("raw_data", ref(l)) == c0.get("pb.AuxData.data", m)),
            "resolver_is_the_live_table_of_the_loading_ir": c1.get("get_by_uuid", ref(l)) == Val.VPair(
                Val.VOpaque(z3.IntVal(__import__("zlib").crc32(b"IR.get_by_uuid"))), VRef(a.ir.t)),
            "type_name_from_message": z3.And(c1.get("type_name", s) == c0.get("pb.AuxData.type_name", m),
                                             c1.get("type_name", ref(l)) == c0.get("pb.AuxData.type_name", m)),
        }


def register(reg):
    for c in (ParseType(), EncodeTree(), DecodeTree(), SerEncode(), SerDecode(), DataGet(), DataSet(), AuxToProtobuf(),
              AuxFromProtobuf()):
        reg.add(c)


# ------------------------------------------------------------------------------------------- _parse_type (C15, wrapper only)
from pyvc.iomodel import tok_items, tok_len       # noqa: E402
from pyvc.core import VPair                        # noqa: E402

sib_ok = z3.Function("siblings_ok", z3.ArraySort(Int, Val), Int, z3.BoolSort())      # token list parses as a sibling list
sib_n = z3.Function("siblings_count", z3.ArraySort(Int, Val), Int, Int)
sib_tree = z3.Function("siblings_tree", z3.ArraySort(Int, Val), Int, Int, Val)       # i-th tree of the sibling list
TOKEN_RE = "[^<>,]+|<|>|,"


class ParseSiblings(Contract):
    """assumed (the recursive sibling-list parser is covered by the exhaustive bounded stand-in): parse(tokens, [])
    returns (tuple of trees, remaining) or raises TypeNameError"""
    target = "serialization.py::Serialization._parse_type/parse"
    props = ()
    assumed = True
    params = {"tokens": "val", "tree": "val"}

    def bind(self, eng, args, kwargs, st):
        a = super().bind(eng, args, kwargs, st)
        return a

    def raises(self, c0, a):
        return {"TypeNameError": z3.Not(sib_ok(a.tokens.t, a.tokens.x))}

    def result_term(self, c0, a):
        n = sib_n(a.tokens.t, a.tokens.x)
        items = fresh("trees", z3.ArraySort(Int, Val))
        self._items, self._n = items, n
        return SV("tuple", x=[SV("list", items, x=n), SV("list", fresh("rem", z3.ArraySort(Int, Val)), x=z3.IntVal(0))])

    def post(self, c0, c1, a, res):
        i = fresh("i", Int)
        return {"count": self._n >= 0,
                "trees": z3.ForAll([i], z3.Select(self._items, i) == sib_tree(a.tokens.t, a.tokens.x, i))}


class ParseTypeTop(IoContract):
    """Serialization._parse_type, wrapper level: the name is tokenised with the documented token expression, the sibling
    parser runs on all tokens, and the name is accepted iff that yields exactly one root; every rejection is a
    TypeNameError (never the ValueError of the failed unpacking)"""
    target = "serialization.py::Serialization._parse_type"
    props = ("C15",)
    params = {"type_name": "val"}
    result = "val"
    variant = "wrapper"

    def selects(self, self_cls, args, kwargs=None):
        return False        # call sites use the abstract ParseType contract above

    def _t(self, a):
        pat, text = VStr(z3.StringVal(TOKEN_RE)), to_val(a.type_name)
        return tok_items(pat, text), tok_len(pat, text)

    def raises(self, c0, a):
        items, n = self._t(a)
        return {"TypeNameError": z3.Or(z3.Not(sib_ok(items, n)), sib_n(items, n) != 1)}

    def post(self, c0, c1, a, res):
        items, n = self._t(a)
        return {"the_single_root": to_val(res) == sib_tree(items, n, 0)}


_reg_aux = register


def register(reg):      # noqa: F811
    _reg_aux(reg)
    reg.add(ParseSiblings())
    reg.add(ParseTypeTop())


# ------------------------------------------------------------------------------------------- the sibling parser: exception discipline
from pyvc.contracts import LoopSpec      # noqa: E402

_SAFETY_ACTIVE = [False]


class ParseSafety(Contract):
    """Serialization._parse_type/parse (the recursive sibling-list parser), exception discipline only: whatever the token
    list, the parser returns a pair or raises TypeNameError - never IndexError (empty stack / empty token list), ValueError
    (failed unpacking) or anything else.  (That it accepts exactly the grammar is covered by the bounded stand-in.)"""
    target = "serialization.py::Serialization._parse_type/parse"
    props = ("C15",)
    variant = "exceptions"
    params = {"tokens": "list", "tree": "list"}
    closure = {"type_name": "val"}
    modifies = lambda self, c0, a: {k: NEW for k in ("$alive", "$kind", "name", "subtypes")}

    def selects(self, self_cls, args, kwargs=None):
        return _SAFETY_ACTIVE[0]

    def verify(self, eng):
        _SAFETY_ACTIVE[0] = True
        try:
            return super().verify(eng)
        finally:
            _SAFETY_ACTIVE[0] = False

    def pre(self, c, a):
        i = fresh("i", Int)
        return {"tokens_are_strings": z3.ForAll([i], z3.Implies(z3.And(0 <= i, i < a.tokens.x), is_VStr(z3.Select(a.tokens.t, i))))}

    def may_raise(self, c0, a):
        return {"TypeNameError": z3.BoolVal(True)}

    def result_term(self, c0, a):
        n = fresh("ntrees", Int)
        return SV("tuple", x=[SV("list", fresh("trees", z3.ArraySort(Int, Val)), x=n, cls="tuple"),
                              SV("list", fresh("rem", z3.ArraySort(Int, Val)), x=fresh("nrem", Int))])

    def post(self, c0, c1, a, res):
        if res.k != "tuple" or len(res.x) != 2 or res.x[0].k != "list" or res.x[1].k != "list":
            return {"returns_a_pair_of_sequences": z3.BoolVal(False)}
        return {"lengths_nonnegative": z3.And(res.x[0].x >= 0, res.x[1].x >= 0)}


def _parse_loop_inv(L):
    stack, sub = L.env["stack"], L.env["subtype_tokens"]
    rem = L.env["remaining_tokens"]
    i = fresh("i", Int)
    return {"lengths": z3.And(stack.x >= 0, sub.x >= 0, rem.x >= 0),
            "closed_bracket_seen": z3.Implies(stack.x == 0, sub.x >= 1),
            "tokens_are_strings": z3.ForAll([i], z3.Implies(z3.And(0 <= i, i < sub.x), is_VStr(z3.Select(sub.t, i)))),
            "remaining_are_strings": z3.ForAll([i], z3.Implies(z3.And(0 <= i, i < rem.x), is_VStr(z3.Select(rem.t, i))))}


_ParseSiblings_selects = ParseSiblings.selects if hasattr(ParseSiblings, "selects") else None
ParseSiblings.selects = lambda self, self_cls, args, kwargs=None: not _SAFETY_ACTIVE[0]

_reg_parse = register


def register(reg):      # noqa: F811
    _reg_parse(reg)
    reg.add(ParseSafety())
    reg.add_loop("serialization.py::Serialization._parse_type/parse[exceptions]", 0,
                 LoopSpec(_parse_loop_inv, carried={"stack": "list", "subtype_tokens": "list", "remaining_tokens": "list"}))
