"""Contracts for attribute writes through util._IndexedAttribute.Descriptor.__set__ (C05, C06, C12, C10).

The real __set__ of util.py is verified once per instantiation (parent_getter := the class-body lambda,
attribute_name := '_' + name): it must keep every lazy index denoting the current structure.
"""
import z3
from pyvc.contracts import Contract
from pyvc.core import SV, Val, VNone, VInt, VRef, is_VNone, is_VInt, is_VRef, ival, ref, fresh, Int, to_val
from specs import forest

PROPS = ("C05", "C06", "C12")


def _descriptor_param(cls, attr):
    def mk(eng, st, name):
        ci = eng.prog.classes[cls]
        return SV("descriptor", x=dict(parent_getter=SV("func", x=(ci.lookup_descriptor(attr), {})),
                                       attribute_name="_" + attr, name=attr))
    return mk


class IndexedSet(Contract):
    target = "util.py::_IndexedAttribute.Descriptor.__set__"
    props = PROPS

    def __init__(self, cls, attr, vkind):
        self.cls, self.attr, self.vkind = cls, attr, vkind
        self.variant = "%s.%s" % (cls, attr)
        self.params = {"self": _descriptor_param(cls, attr), "instance": "ref:" + cls, "value": vkind}
        self.key = "_size" if attr == "_indexed_size" else "_" + attr      # logical heap field (schema alias)
        self.modifies = {self.key: lambda c0, a, r: r == a.instance.t, "_interval_events": None}
        super().__init__()

    def region_invariant(self, c):
        return forest.inv_region(c)

    def value_ok(self, a):
        v = to_val(a.value)
        if self.vkind == "int":
            return a.value.t >= 0
        return z3.Or(is_VNone(v), z3.And(is_VInt(v), ival(v) >= 0))       # optional address

    def pre(self, c, a):
        return {"is_instance": c.isinst(a.instance.t, self.cls),
                "value_in_schema_range": self.value_ok(a),
                "wf_static": forest.wf_static(c), "wf_parents": forest.wf_parents(c),
                "inv_region": forest.inv_region(c)}

    def post(self, c0, c1, a, res):
        return {"stored": c1.get(self.key, a.instance.t) == to_val(a.value),
                "wf_static": forest.wf_static(c1), "wf_parents": forest.wf_parents(c1),
                **forest.inv_region_parts(c1)}


def register(reg):
    reg.allow_inline("byteinterval.py::ByteInterval._index_add", "byteinterval.py::ByteInterval._index_discard",
                     "section.py::Section._index_add", "section.py::Section._index_discard")
    bi_size = "size" if reg.prog.classes["ByteInterval"].lookup_descriptor("size") else "_indexed_size"
    for (cls, attr, vk) in (("ByteBlock", "size", "int"), ("ByteBlock", "offset", "int"),
                            ("ByteInterval", bi_size, "int"), ("ByteInterval", "address", "optint")):
        c = reg.add(IndexedSet(cls, attr, vk))
        reg.descriptor_contracts[(cls, attr)] = c
