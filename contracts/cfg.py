"""Contracts for cfg.CFG (C11): the CFG is a mathematical set of (source, target, label) edges."""
import z3
from pyvc.contracts import Contract
from pyvc.core import (SV, Val, VNone, VInt, VRef, VPair, is_VNone, is_VInt, is_VRef, is_VPair, ival, ref, fst, snd, fresh,
                       Int, to_val, sv_tuple, SetSort, EmptySet, Card)
from pyvc.nxmodel import eid, e_src, e_tgt, e_key, well_formed_id

PROPS = ("C11",)


def graph(c, cfg):
    return ref(c.get("_nxg", cfg))


def E(c, cfg):
    return z3.Select(c.arr("$g_edges"), graph(c, cfg))


def LAB(c, cfg):
    return z3.Select(c.arr("$g_label"), graph(c, cfg))


def KEYOF(c, cfg):
    """ghost: key of the edge carrying a given (source, target, label) - Skolem function of 'some key has this label'"""
    return z3.Select(c.arr("$g_keyof"), graph(c, cfg))


def triple(s, t, l):
    return VPair(s, VPair(t, VPair(l, VNone)))


def in_view(c, cfg, s, t, l):
    """(s, t, l) is an edge of the set: the key recorded for it exists and carries that label"""
    k = z3.Select(KEYOF(c, cfg), triple(s, t, l))
    e = eid(s, t, VInt(k))
    return z3.And(z3.Select(E(c, cfg), e), z3.Select(LAB(c, cfg), e) == l)


def label_typed(l):
    """a label is None or an EdgeLabel tuple (never a bare number: Python would conflate 0/False/1/True)"""
    return z3.Or(is_VNone(l), is_VPair(l))


def wf_cfg(c, cfg):
    """every edge of the graph is the recorded one for its (source, target, label): hence no two parallel edges
    carry equal labels (the CFG is a set), and edge ids are well-formed"""
    e = fresh("e", Val)
    g = c.get("_nxg", cfg)
    N = z3.Select(c.arr("$g_nodes"), graph(c, cfg))
    return z3.And(is_VRef(g), z3.ForAll([e], z3.Implies(z3.Select(E(c, cfg), e), z3.And(
        well_formed_id(e), z3.Select(N, e_src(e)), z3.Select(N, e_tgt(e)),        # endpoints are nodes of the graph
        label_typed(z3.Select(LAB(c, cfg), e)),
        VInt(z3.Select(KEYOF(c, cfg), triple(e_src(e), e_tgt(e), z3.Select(LAB(c, cfg), e)))) == e_key(e)))))


def edge_param(eng, st, name):
    return SV("tuple", x=[SV("val", fresh(name + "_src", Val), cls="CfgNode"), SV("val", fresh(name + "_tgt", Val), cls="CfgNode"),
                          SV("val", fresh(name + "_label", Val), cls="EdgeLabel")], cls="Edge")


def parts(edge):
    if edge.k == "tuple":
        return to_val(edge.x[0]), to_val(edge.x[1]), to_val(edge.x[2])
    v = to_val(edge)
    return fst(v), fst(snd(v)), fst(snd(snd(v)))


def is_edge_value(v):
    return z3.And(is_VPair(v), is_VPair(snd(v)), is_VPair(snd(snd(v))), is_VNone(snd(snd(snd(v)))),
                  label_typed(fst(snd(snd(v)))))


class CfgBase(Contract):
    props = PROPS
    params = {"self": "ref:CFG"}

    def pre(self, c, a):
        out = {"wf_cfg": wf_cfg(c, a.self.t)}
        if "edge" in a:
            out["edge_typed"] = label_typed(parts(a.edge)[2])
        return out

    def others_untouched(self, c0, c1, a):
        g2 = fresh("g", Int)
        me = graph(c0, a.self.t)
        return z3.ForAll([g2], z3.Implies(g2 != me, z3.And(
            z3.Select(c1.arr("$g_edges"), g2) == z3.Select(c0.arr("$g_edges"), g2),
            z3.Select(c1.arr("$g_label"), g2) == z3.Select(c0.arr("$g_label"), g2))))


class EdgeKey(CfgBase):
    target = "cfg.py::CFG._edge_key"
    params = {"self": "ref:CFG", "edge": edge_param}
    result = "val"

    def post(self, c0, c1, a, res):
        s, t, l = parts(a.edge)
        r = to_val(res)
        e = eid(s, t, r)
        present = in_view(c0, a.self.t, s, t, l)
        return {"none_iff_absent": is_VNone(r) == z3.Not(present),
                "key_of_the_edge": z3.Implies(z3.Not(is_VNone(r)), z3.And(
                    is_VInt(r), z3.Select(E(c0, a.self.t), e), z3.Select(LAB(c0, a.self.t), e) == l))}


class Contains(CfgBase):
    target = "cfg.py::CFG.__contains__"
    params = {"self": "ref:CFG", "edge": edge_param}
    result = "bool"

    def post(self, c0, c1, a, res):
        s, t, l = parts(a.edge)
        return {"membership": res.t == in_view(c0, a.self.t, s, t, l)}


class Add(CfgBase):
    target = "cfg.py::CFG.add"
    params = {"self": "ref:CFG", "edge": edge_param}
    modifies = ("$g_edges", "$g_label", "$g_nodes", "$g_keyof", "$g_lastkey")

    def ghost_witness(self, c0, c1, a, res):
        # $g_keyof is ghost (the Skolem function of "some key carries this label"): when the edge was absent, the
        # key just issued by add_edge is recorded for it
        s, t, l = parts(a.edge)
        cfg = a.self.t
        g = graph(c0, cfg)
        keyof0 = c0.arr("$g_keyof")
        k0 = z3.Select(keyof0, g)
        newkey = z3.Select(c1.arr("$g_lastkey"), g)
        k1 = z3.If(in_view(c0, cfg, s, t, l), k0, z3.Store(k0, triple(s, t, l), newkey))
        return {"$g_keyof": z3.Store(keyof0, g, k1)}

    def post(self, c0, c1, a, res):
        s, t, l = parts(a.edge)
        cfg = a.self.t
        x, y, z = fresh("s", Val), fresh("t", Val), fresh("l", Val)
        return {"wf_cfg": wf_cfg(c1, cfg),
                "view": z3.ForAll([x, y, z], in_view(c1, cfg, x, y, z) == z3.Or(
                    in_view(c0, cfg, x, y, z), z3.And(x == s, y == t, z == l))),
                "others_untouched": self.others_untouched(c0, c1, a)}


class Discard(CfgBase):
    target = "cfg.py::CFG.discard"
    params = {"self": "ref:CFG", "edge": edge_param}
    modifies = ("$g_edges", "$g_label", "$g_nodes", "$g_keyof")

    def post(self, c0, c1, a, res):
        s, t, l = parts(a.edge)
        cfg = a.self.t
        x, y, z = fresh("s", Val), fresh("t", Val), fresh("l", Val)
        return {"wf_cfg": wf_cfg(c1, cfg),
                "view": z3.ForAll([x, y, z], in_view(c1, cfg, x, y, z) == z3.And(
                    in_view(c0, cfg, x, y, z), z3.Not(z3.And(x == s, y == t, z == l)))),
                "others_untouched": self.others_untouched(c0, c1, a)}


class Clear(CfgBase):
    target = "cfg.py::CFG.clear"
    modifies = ("$g_edges", "$g_label", "$g_nodes", "$g_keyof")

    def post(self, c0, c1, a, res):
        cfg = a.self.t
        x, y, z = fresh("s", Val), fresh("t", Val), fresh("l", Val)
        return {"wf_cfg": wf_cfg(c1, cfg),
                "empty": z3.ForAll([x, y, z], z3.Not(in_view(c1, cfg, x, y, z))),
                "others_untouched": self.others_untouched(c0, c1, a)}


class Length(CfgBase):
    target = "cfg.py::CFG.__len__"
    result = "int"

    def post(self, c0, c1, a, res):
        # with wf_cfg the graph's edge ids are in bijection with the (s,t,l) triples of the set
        return {"number_of_edge_ids": res.t == Card(E(c0, a.self.t))}


class Edges(CfgBase):
    """__iter__ / out_edges / in_edges: each edge of the set (with that source / target) exactly once"""

    def __init__(self, which):
        self.which = which
        self.target = "cfg.py::CFG." + which
        self.variant = None
        self.params = {"self": "ref:CFG"} if which == "__iter__" else {"self": "ref:CFG", "node": "val"}
        super().__init__()

    def yields(self, c0, a, v):
        s, t, l = fst(v), fst(snd(v)), fst(snd(snd(v)))
        shape = z3.And(is_VPair(v), is_VPair(snd(v)), is_VPair(snd(snd(v))), is_VNone(snd(snd(snd(v)))))
        m = z3.And(shape, in_view(c0, a.self.t, s, t, l))
        if self.which == "out_edges":
            m = z3.And(m, s == to_val(a.node))
        elif self.which == "in_edges":
            m = z3.And(m, t == to_val(a.node))
        return m

    def witness(self, c0, a, v):
        s, t, l = fst(v), fst(snd(v)), fst(snd(snd(v)))
        k = z3.Select(KEYOF(c0, a.self.t), triple(s, t, l))
        return {"": [eid(s, t, VInt(k))]}


class Update(CfgBase):
    """CFG.update(edges): the set union with the given edges"""
    target = "cfg.py::CFG.update"
    modifies = ("$g_edges", "$g_label", "$g_nodes", "$g_keyof", "$g_lastkey")

    def __init__(self):
        def mk(eng, st, name):
            return SV("set", fresh(name, SetSort), cls="Edge")
        self.params = {"self": "ref:CFG", "edges": mk}
        super().__init__()

    def bind(self, eng, args, kwargs, st):
        a = super().bind(eng, args, kwargs, st)
        if a["edges"].k in ("gen", "list", "tuple"):
            s_ = eng.as_set(a["edges"], st)
            a["edges"] = SV("set", s_.t, cls="Edge")
        return a

    def pre(self, c, a):
        v = fresh("v", Val)
        return {"wf_cfg": wf_cfg(c, a.self.t),
                "edges_typed": z3.ForAll([v], z3.Implies(z3.Select(a.edges.t, v), is_edge_value(v)))}

    @staticmethod
    def effect(c0, c1, cfg, added):
        x, y, z = fresh("s", Val), fresh("t", Val), fresh("l", Val)
        return z3.ForAll([x, y, z], in_view(c1, cfg, x, y, z) == z3.Or(in_view(c0, cfg, x, y, z),
                                                                      z3.Select(added, triple(x, y, z))))

    def post(self, c0, c1, a, res):
        return {"wf_cfg": wf_cfg(c1, a.self.t), "view": self.effect(c0, c1, a.self.t, a.edges.t),
                "others_untouched": self.others_untouched(c0, c1, a)}


def _update_inv(L):
    cfg = L.a.self.t
    g2 = fresh("g", Int)
    me = graph(L.c0, cfg)
    return {"wf_cfg": wf_cfg(L.c, cfg), "view": Update.effect(L.c0, L.c, cfg, L.seen),
            "graph_fixed": L.c.get("_nxg", cfg) == L.c0.get("_nxg", cfg),
            "others_untouched": z3.ForAll([g2], z3.Implies(g2 != me, z3.And(
                z3.Select(L.c.arr("$g_edges"), g2) == z3.Select(L.c0.arr("$g_edges"), g2),
                z3.Select(L.c.arr("$g_label"), g2) == z3.Select(L.c0.arr("$g_label"), g2))))}


class BlockEdges(Contract):
    """CodeBlock / ProxyBlock .incoming_edges / .outgoing_edges: the edges of the IR's CFG whose target / source is
    this block; nothing for a block that is not attached to an IR"""
    props = PROPS

    def __init__(self, cls, which):
        self.cls, self.which = cls, which
        self.target = "block.py::%s.%s" % (cls, which)
        self.params = {"self": "ref:" + cls}
        super().__init__()

    def ir_val(self, c, b):
        from specs import cache as K
        return K.ir_of_def(c, b)

    def pre(self, c, a):
        from specs import cache as K
        ir = fresh("ir", Int)
        return {"is_block": c.kind(a.self.t) == c.eng.schema.class_id(self.cls), "parent_kinds": K.parent_kinds(c),
                "cfgs": z3.ForAll([ir], z3.Implies(c.isinst(ir, "IR"), z3.And(
                    is_VRef(c.get("cfg", ir)), wf_cfg(c, ref(c.get("cfg", ir))))))}

    def yields(self, c0, a, v):
        irv = self.ir_val(c0, a.self.t)
        cfg = ref(c0.get("cfg", ref(irv)))
        s, t, l = fst(v), fst(snd(v)), fst(snd(snd(v)))
        shape = z3.And(is_VPair(v), is_VPair(snd(v)), is_VPair(snd(snd(v))), is_VNone(snd(snd(snd(v)))))
        end = t if self.which == "incoming_edges" else s
        return z3.And(is_VRef(irv), shape, in_view(c0, cfg, s, t, l), end == VRef(a.self.t))


def register(reg):
    from pyvc.contracts import LoopSpec
    for c in (EdgeKey(), Contains(), Add(), Discard(), Clear(), Length(), Edges("__iter__"), Edges("out_edges"),
              Edges("in_edges")):
        reg.add(c)
    u = reg.add(Update())
    reg.add_loop(u.target, 0, LoopSpec(_update_inv, modifies=Update.modifies))
    for cls in ("CodeBlock", "ProxyBlock"):
        for which in ("incoming_edges", "outgoing_edges"):
            reg.add(BlockEdges(cls, which))
