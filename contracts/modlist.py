"""Contracts for ir.modules (IR._ModuleList over util.ListWrapper): C03, C04, C16 for the IR<->module relation."""
import z3
from pyvc.contracts import Contract
from pyvc.core import SV, Val, VNone, VRef, is_VNone, is_VRef, ref, fresh, Int, SetSort, to_val
from specs import forest, cache as K
from specs.wf import WF, attach_ok, focus as wf_focus

PROPS = ("C03", "C04", "C16")
ML = "IR._ModuleList"


def items(c, w):
    return z3.Select(c.arr("ListWrapper._data#items"), w)


def length(c, w):
    return z3.Select(c.arr("ListWrapper._data#len"), w)


def owner(c, w):
    return c.get("_node", w)


def is_modlist(c, w):
    own = owner(c, w)
    return z3.And(forest.kind_is(c, w, ML), is_VRef(own), c.isinst(ref(own), "IR"), c.get("modules", ref(own)) == VRef(w))


class ModRemoveHook(Contract):
    """IR._ModuleList._remove(v): unlink v from the IR and unregister its subtree (list untouched)."""
    target = "ir.py::IR._ModuleList._remove"
    props = PROPS
    params = {"self": "ref:" + ML, "v": "ref:Module"}
    modifies = {"_ir": lambda c0, a, r: r == a.v.t,
                "_local_uuid_cache": lambda c0, a, r: r == ref(c0.get("_node", a.self.t))}

    def pre(self, c, a):
        w, v = a.self.t, a.v.t
        ir = ref(owner(c, w))
        from contracts.cache import below
        return {"is_list": is_modlist(c, w), "is_module": c.isinst(v, "Module"), "uuids_typed": K.uuids_typed(c),
                "parent_kinds": K.parent_kinds(c), "below_consistent": below(c, "Module"),
                "distinct_uuids_in_subtree": K.distinct_in_subtree(c, v, "Module"),
                "subtree_registered": K.registered(c, v, K.cache_dom(c, ir), K.cache_map(c, ir), "Module")}

    def post(self, c0, c1, a, res):
        w, v = a.self.t, a.v.t
        ir = ref(owner(c0, w))
        out = {"unlinked": is_VNone(c1.get("_ir", v))}
        out.update(K.removed(c0, v, K.cache_dom(c0, ir), K.cache_map(c0, ir), K.cache_dom(c1, ir), K.cache_map(c1, ir),
                             "Module"))
        return out


class ListOp(Contract):
    props = PROPS
    modifies = ("ListWrapper._data", "_ir", "_local_uuid_cache", "$modpos")

    def focus(self, clause):
        return wf_focus(clause)

    def region_invariant(self, c):
        return forest.inv_region(c)

    def base_pre(self, c, a):
        out = dict(WF(c))
        out["is_list"] = is_modlist(c, a.self.t)
        return out

    def before_call(self, callee, c, callee_args):
        if callee.endswith("._remove") or callee.endswith("._add"):
            # a module in the list is attached with its whole subtree: all its nodes have the module's IR
            c0 = c.eng.cur_c0
            v = callee_args.v.t
            n = fresh("n", Int)
            return {"subtree_same_ir": z3.ForAll([n], z3.Implies(
                K.in_subtree(c0, v, n, "Module"), K.ir_of(c0, n) == K.ir_of(c0, v)),
                patterns=[K.ir_of(c0, n), K.uuid_of(c0, n)])}
        return {}


def _list_without(c0, w, v, L1_items, L1_len):
    """(items, len) of list w with the (unique) occurrence of module v removed, as a definitional formula"""
    it0, n0 = items(c0, w), length(c0, w)
    pos = z3.Select(c0.arr("$modpos"), v)
    j = fresh("j", Int)
    return z3.And(L1_len == n0 - 1,
                  z3.ForAll([j], z3.Select(L1_items, j) == z3.If(j < pos, z3.Select(it0, j), z3.Select(it0, j + 1))))


class ModDelItem(ListOp):
    """del ir.modules[i]  (int index)"""
    target = "util.py::ListWrapper.__delitem__"
    variant = ML + ",int"

    def __init__(self):
        self.params = {"self": "ref:" + ML, "i": "int"}
        super().__init__()

    def selects(self, self_cls, args, kwargs=None):
        return self_cls == ML and len(args) > 1 and args[1].k in ("int", "bool")

    def pre(self, c, a):
        return self.base_pre(c, a)

    def idx(self, c0, a):
        n = length(c0, a.self.t)
        return z3.If(a.i.t < 0, a.i.t + n, a.i.t)

    def raises(self, c0, a):
        n = length(c0, a.self.t)
        i = self.idx(c0, a)
        return {"IndexError": z3.Not(z3.And(0 <= i, i < n))}

    def on_raise(self, c0, c1, a, exc):
        return {"state_unchanged:" + k: c1.arr(k) == c0.arr(k)
                for k in ("ListWrapper._data#items", "ListWrapper._data#len", "_ir", "_local_uuid_cache#dom",
                          "_local_uuid_cache#map")}

    def ghost_witness(self, c0, c1, a, res):
        w = a.self.t
        i = self.idx(c0, a)
        pos0 = c0.arr("$modpos")
        return {"$modpos": lambda m: z3.If(z3.And(c0.get("_ir", m) == owner(c0, w), z3.Select(pos0, m) > i),
                                           z3.Select(pos0, m) - 1, z3.Select(pos0, m))}

    def post(self, c0, c1, a, res):
        w = a.self.t
        i = self.idx(c0, a)
        v = ref(z3.Select(items(c0, w), i))
        j = fresh("j", Int)
        out = dict(WF(c1))
        out["view"] = z3.And(length(c1, w) == length(c0, w) - 1,
                             z3.ForAll([j], z3.Select(items(c1, w), j) == z3.If(
                                 j < i, z3.Select(items(c0, w), j), z3.Select(items(c0, w), j + 1))))
        out["parent"] = is_VNone(c1.get("_ir", v))
        w2 = fresh("w2", Int)
        out["other_lists"] = z3.ForAll([w2], z3.Implies(w2 != w, z3.And(items(c1, w2) == items(c0, w2),
                                                                        length(c1, w2) == length(c0, w2))))
        n = fresh("n", Int)
        out["other_parents"] = z3.ForAll([n], z3.Implies(n != v, c1.get("_ir", n) == c0.get("_ir", n)))
        out.update(self.lemmas(c0, c1, a, res))     # exported for callers: how attachment changed
        return out

    def lemmas(self, c0, c1, a, res):
        w = a.self.t
        i = self.idx(c0, a) if "i" in a else z3.Select(c0.arr("$modpos"), a.v.t)
        v = ref(z3.Select(items(c0, w), i))
        n = fresh("n", Int)
        return {
            "subtree_shape_unchanged": z3.ForAll([n], K.in_subtree(c1, v, n, "Module") == K.in_subtree(c0, v, n, "Module")),
            "ir_of_unchanged_outside": z3.ForAll([n], z3.Implies(
                z3.And(K.is_node(c0, n), z3.Not(K.in_subtree(c0, v, n, "Module"))), K.ir_of(c1, n) == K.ir_of(c0, n))),
            "ir_of_subtree": z3.ForAll([n], z3.Implies(K.in_subtree(c0, v, n, "Module"), K.ir_of(c1, n) == VNone)),
        }


def register(reg):
    reg.allow_inline("util.py::ListWrapper.__len__", "util.py::ListWrapper.__getitem__")
    reg.add(ModRemoveHook())
    reg.add(ModDelItem())


class ModRemove(ListOp):
    """ir.modules.remove(v): ValueError when v is not in the list (nothing changes), else as del ir.modules[position of v]"""
    target = "mro:IR._ModuleList.remove"
    variant = ML

    def __init__(self):
        self.params = {"self": "ref:" + ML, "v": "ref:Module"}
        super().__init__()

    def selects(self, self_cls, args, kwargs=None):
        return self_cls == ML

    def pre(self, c, a):
        out = self.base_pre(c, a)
        out["is_module"] = c.isinst(a.v.t, "Module")
        return out

    def present(self, c0, a):
        return c0.get("_ir", a.v.t) == owner(c0, a.self.t)

    def raises(self, c0, a):
        return {"ValueError": z3.Not(self.present(c0, a))}

    def on_raise(self, c0, c1, a, exc):
        return ModDelItem.on_raise(self, c0, c1, a, exc)

    def _as_del(self, c0, a):
        from pyvc.contracts import Args
        from pyvc.core import sv_int
        return Args({"self": a.self, "i": sv_int(z3.Select(c0.arr("$modpos"), a.v.t))})

    def ghost_witness(self, c0, c1, a, res):
        return ModDelItem.ghost_witness(_DEL, c0, c1, self._as_del(c0, a), res)

    def post(self, c0, c1, a, res):
        return ModDelItem.post(_DEL, c0, c1, self._as_del(c0, a), res)

    def lemmas(self, c0, c1, a, res):
        return ModDelItem.lemmas(_DEL, c0, c1, self._as_del(c0, a), res)

    def before_call(self, callee, c, callee_args):
        if "__delitem__" in callee:
            # list.index returns the first position of v; without repetitions that is its recorded position
            v = c.eng.cur_args.v.t
            return {"index_is_pos": callee_args.i.t == z3.Select(c.arr("$modpos"), v)}
        return {}


class ModAddHook(ListOp):
    """IR._ModuleList._add(v): take v out of the list that holds it (if any), point it to this IR and register its
    subtree; v is then *pending*: owned by the IR but not yet in the list (ghost M_pending)."""
    target = "ir.py::IR._ModuleList._add"

    def __init__(self):
        self.params = {"self": "ref:" + ML, "v": "ref:Module"}
        super().__init__()

    def pre(self, c, a):
        out = self.base_pre(c, a)
        out["is_module"] = c.isinst(a.v.t, "Module")
        out["uuids_distinct_where_attached"] = attach_ok(c, owner(c, a.self.t), a.v.t, "Module")
        return out

    def post_ghost(self, c0, a):
        return {"M_pending": a.v.t}

    def lemmas(self, c0, c1, a, res):
        v = a.v.t
        n = fresh("n", Int)
        new_ir = owner(c0, a.self.t)
        return {
            "subtree_same_ir": z3.ForAll([n], z3.Implies(K.in_subtree(c0, v, n, "Module"), K.ir_of(c0, n) == K.ir_of(c0, v)),
                                         patterns=[K.ir_of(c0, n), K.uuid_of(c0, n)]),
            "subtree_shape_unchanged": z3.ForAll([n], K.in_subtree(c1, v, n, "Module") == K.in_subtree(c0, v, n, "Module")),
            "ir_of_unchanged_outside": z3.ForAll([n], z3.Implies(
                z3.And(K.is_node(c0, n), z3.Not(K.in_subtree(c0, v, n, "Module"))), K.ir_of(c1, n) == K.ir_of(c0, n))),
            "ir_of_subtree": z3.ForAll([n], z3.Implies(K.in_subtree(c0, v, n, "Module"), K.ir_of(c1, n) == new_ir)),
        }

    def ghost_witness(self, c0, c1, a, res):
        # positions: if v was in some list, that list closed the gap (as in deletion)
        v = a.v.t
        was = c0.get("_ir", v)
        pos0 = c0.arr("$modpos")
        pv = z3.Select(pos0, v)
        return {"$modpos": lambda m: z3.If(z3.And(is_VRef(was), c0.get("_ir", m) == was, z3.Select(pos0, m) > pv),
                                           z3.Select(pos0, m) - 1, z3.Select(pos0, m))}

    def post(self, c0, c1, a, res):
        w, v = a.self.t, a.v.t
        out = dict(WF(c1))
        out["linked"] = c1.get("_ir", v) == owner(c0, w)
        n = fresh("n", Int)
        out["other_parents"] = z3.ForAll([n], z3.Implies(n != v, c1.get("_ir", n) == c0.get("_ir", n)))
        # the list of the previous owner (possibly this very list) lost v and nothing else changed
        was = c0.get("_ir", v)
        oldw = ref(c0.get("modules", ref(was)))
        w2 = fresh("w2", Int)
        j = fresh("j", Int)
        pv = z3.Select(c0.arr("$modpos"), v)
        out["list_effect"] = z3.ForAll([w2], z3.If(
            z3.And(is_VRef(was), w2 == oldw),
            z3.And(length(c1, w2) == length(c0, w2) - 1,
                   z3.ForAll([j], z3.Select(items(c1, w2), j) == z3.If(j < pv, z3.Select(items(c0, w2), j),
                                                                        z3.Select(items(c0, w2), j + 1)))),
            z3.And(items(c1, w2) == items(c0, w2), length(c1, w2) == length(c0, w2))))
        return out

    def before_call(self, callee, c, callee_args):
        return {}


_DEL = ModDelItem()


_reg_prev = register


def register(reg):
    _reg_prev(reg)
    reg.add(ModRemove())
    reg.add(ModAddHook())


def _mid(c0, w, v):
    """the list right after v has been taken out of it (if it was there): (item function, length, was_here)"""
    was_here = c0.get("_ir", v) == owner(c0, w)
    p0 = z3.Select(c0.arr("$modpos"), v)
    it0, n0 = items(c0, w), length(c0, w)
    item = lambda j: z3.If(z3.And(was_here, j >= p0), z3.Select(it0, j + 1), z3.Select(it0, j))
    return item, n0 - z3.If(was_here, 1, 0), was_here


def _clamp(i, n):
    return z3.If(i < 0, z3.If(i + n < 0, 0, i + n), z3.If(i > n, n, i))


class ModInsert(ListOp):
    """ir.modules.insert(i, v) (and append): v ends up at index clamp(i) of the list from which it has first been
    removed if it was already there (an owned module is moved, not duplicated); it is attached to this IR."""
    target = "mro:IR._ModuleList.insert"
    variant = ML

    def __init__(self):
        self.params = {"self": "ref:" + ML, "i": "int", "v": "ref:Module"}
        super().__init__()

    def selects(self, self_cls, args, kwargs=None):
        return self_cls == ML

    def pre(self, c, a):
        out = self.base_pre(c, a)
        out["is_module"] = c.isinst(a.v.t, "Module")
        out["uuids_distinct_where_attached"] = attach_ok(c, owner(c, a.self.t), a.v.t, "Module")
        return out

    def ghost_witness(self, c0, c1, a, res):
        w, v = a.self.t, a.v.t
        item, n_mid, was_here = _mid(c0, w, v)
        idx = _clamp(a.i.t, n_mid)
        pos_mid = c1.arr("$modpos")        # as left by _add (insert itself has no ghost code)
        mine = lambda m: z3.And(c1.get("_ir", m) == owner(c0, w), m != v)
        return {"$modpos": lambda m: z3.If(m == v, idx, z3.If(z3.And(mine(m), z3.Select(pos_mid, m) >= idx),
                                                              z3.Select(pos_mid, m) + 1, z3.Select(pos_mid, m)))}

    def post(self, c0, c1, a, res):
        w, v = a.self.t, a.v.t
        item, n_mid, was_here = _mid(c0, w, v)
        idx = _clamp(a.i.t, n_mid)
        j = fresh("j", Int)
        out = dict(WF(c1))
        out["view"] = z3.And(length(c1, w) == n_mid + 1, z3.ForAll([j], z3.Implies(
            z3.And(0 <= j, j <= n_mid),
            z3.Select(items(c1, w), j) == z3.If(j < idx, item(j), z3.If(j == idx, VRef(v), item(j - 1))))))
        out["parent"] = c1.get("_ir", v) == owner(c0, w)
        n = fresh("n", Int)
        out["other_parents"] = z3.ForAll([n], z3.Implies(n != v, c1.get("_ir", n) == c0.get("_ir", n)))
        return out

    def before_call(self, callee, c, callee_args):
        return {}


class ModAppend(ModInsert):
    target = "mro:IR._ModuleList.append"

    def __init__(self):
        super().__init__()
        self.params = {"self": "ref:" + ML, "v": "ref:Module"}

    def _with_i(self, c0, a):
        from pyvc.contracts import Args
        from pyvc.core import sv_int
        return Args({"self": a.self, "v": a.v, "i": sv_int(length(c0, a.self.t))})

    def ghost_witness(self, c0, c1, a, res):
        return ModInsert.ghost_witness(self, c0, c1, self._with_i(c0, a), res)

    def post(self, c0, c1, a, res):
        return ModInsert.post(self, c0, c1, self._with_i(c0, a), res)


_reg_prev2 = register


def register(reg):
    _reg_prev2(reg)
    reg.add(ModInsert())
    reg.add(ModAppend())


class ModuleIrSetter(ListOp):
    """module.ir = value: detach from the current IR (if any), append to value.modules (if not None)"""
    target = "module.py::Module.ir.setter"

    def __init__(self):
        self.params = {"self": "ref:Module", "value": "optref:IR"}
        super().__init__()

    def pre(self, c, a):
        val = to_val(a.value)
        out = dict(WF(c))
        out["is_module"] = c.isinst(a.self.t, "Module")
        out["value_kind"] = z3.Or(is_VNone(val), z3.And(is_VRef(val), c.isinst(ref(val), "IR")))
        out["uuids_distinct_where_attached"] = z3.Implies(is_VRef(val), attach_ok(c, val, a.self.t, "Module"))
        return out

    def ghost_witness(self, c0, c1, a, res):
        return {}          # the callees (remove / append) carry their own witnesses

    def post(self, c0, c1, a, res):
        out = dict(WF(c1))
        out["parent"] = c1.get("_ir", a.self.t) == to_val(a.value)
        n = fresh("n", Int)
        out["other_parents"] = z3.ForAll([n], z3.Implies(n != a.self.t, c1.get("_ir", n) == c0.get("_ir", n)))
        return out

    def before_call(self, callee, c, callee_args):
        return {}


class GetByUuid(Contract):
    """IR.get_by_uuid(u): the table entry - with the table invariant (I1, I2): node n iff n is attached to this IR and
    n.uuid == u, else None"""
    target = "ir.py::IR.get_by_uuid"
    props = ("C03", "C09")
    params = {"self": "ref:IR", "uuid": "val"}
    result = "val"

    def pre(self, c, a):
        return {"is_ir": c.isinst(a.self.t, "IR"), "wf_cache_I1": K.wf_cache_I1(c), "wf_cache_I2": K.wf_cache_I2(c),
                "uuids_typed": K.uuids_typed(c)}

    def post(self, c0, c1, a, res):
        ir = a.self.t
        n = fresh("n", Int)
        r = to_val(res)
        u = to_val(a.uuid)
        return {
            "found_is_attached_with_that_uuid": z3.Implies(z3.Not(is_VNone(r)), z3.And(
                is_VRef(r), K.is_node(c0, ref(r)), K.ir_of(c0, ref(r)) == VRef(ir), K.uuid_of(c0, ref(r)) == u)),
            "attached_nodes_are_found": z3.ForAll([n], z3.Implies(
                z3.And(K.is_node(c0, n), K.ir_of(c0, n) == VRef(ir), K.uuid_of(c0, n) == u), r == VRef(n))),
        }


_reg_prev3 = register


def register(reg):
    _reg_prev3(reg)
    reg.add(ModuleIrSetter())
    reg.add(GetByUuid())
