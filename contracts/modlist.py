"""Contracts for ir.modules (IR._ModuleList over util.ListWrapper): C03, C04, C16 for the IR<->module relation."""
import z3
from pyvc.contracts import Contract
from pyvc.core import SV, Val, VNone, VRef, is_VNone, is_VRef, ref, fresh, Int, SetSort, to_val
from specs import forest, cache as K
from specs.wf import WF, attach_ok, focus as wf_focus

PROPS = ("C03", "C04", "C16")
ML = "IR._ModuleList"


def items(c, w):
    return z3.Select(c.arr("ListWrapper._data#items"), w)


def length(c, w):
    return z3.Select(c.arr("ListWrapper._data#len"), w)


def owner(c, w):
    return c.get("_node", w)


def is_modlist(c, w):
    own = owner(c, w)
    return z3.And(forest.kind_is(c, w, ML), is_VRef(own), c.isinst(ref(own), "IR"), c.get("modules", ref(own)) == VRef(w))


class ModRemoveHook(Contract):
    """IR._ModuleList._remove(v): unlink v from the IR and unregister its subtree (list untouched)."""
    target = "ir.py::IR._ModuleList._remove"
    props = PROPS
    params = {"self": "ref:" + ML, "v": "ref:Module"}
    modifies = {"_ir": lambda c0, a, r: r == a.v.t,
                "_local_uuid_cache": lambda c0, a, r: r == ref(c0.get("_node", a.self.t))}

    def pre(self, c, a):
        w, v = a.self.t, a.v.t
        ir = ref(owner(c, w))
        from contracts.cache import below
        return {"is_list": is_modlist(c, w), "is_module": c.isinst(v, "Module"), "uuids_typed": K.uuids_typed(c),
                "parent_kinds": K.parent_kinds(c), "below_consistent": below(c, "Module"),
                "distinct_uuids_in_subtree": K.distinct_in_subtree(c, v, "Module"),
                "subtree_registered": K.registered(c, v, K.cache_dom(c, ir), K.cache_map(c, ir), "Module")}

    def post(self, c0, c1, a, res):
        w, v = a.self.t, a.v.t
        ir = ref(owner(c0, w))
        out = {"unlinked": is_VNone(c1.get("_ir", v))}
        out.update(K.removed(c0, v, K.cache_dom(c0, ir), K.cache_map(c0, ir), K.cache_dom(c1, ir), K.cache_map(c1, ir),
                             "Module"))
        return out


class ListOp(Contract):
    props = PROPS
    modifies = ("ListWrapper._data", "_ir", "_local_uuid_cache", "$modpos")

    def focus(self, clause):
        return wf_focus(clause)

    def region_invariant(self, c):
        return forest.inv_region(c)

    def base_pre(self, c, a):
        out = dict(WF(c))
        out["is_list"] = is_modlist(c, a.self.t)
        return out

    def before_call(self, callee, c, callee_args):
        if callee.endswith("._remove") or callee.endswith("._add"):
            # a module in the list is attached with its whole subtree: all its nodes have the module's IR
            c0 = c.eng.cur_c0
            v = callee_args.v.t
            n = fresh("n", Int)
            return {"subtree_same_ir": z3.ForAll([n], z3.Implies(
                K.in_subtree(c0, v, n, "Module"), K.ir_of(c0, n) == K.ir_of(c0, v)),
                patterns=[K.ir_of(c0, n), K.uuid_of(c0, n)])}
        return {}


def _list_without(c0, w, v, L1_items, L1_len):
    """(items, len) of list w with the (unique) occurrence of module v removed, as a definitional formula"""
    it0, n0 = items(c0, w), length(c0, w)
    pos = z3.Select(c0.arr("$modpos"), v)
    j = fresh("j", Int)
    return z3.And(L1_len == n0 - 1,
                  z3.ForAll([j], z3.Select(L1_items, j) == z3.If(j < pos, z3.Select(it0, j), z3.Select(it0, j + 1))))


class ModDelItem(ListOp):
    """del ir.modules[i]  (int index)"""
    target = "util.py::ListWrapper.__delitem__"
    variant = ML + ",int"

    def __init__(self):
        self.params = {"self": "ref:" + ML, "i": "int"}
        super().__init__()

    def selects(self, self_cls, args, kwargs=None):
        return self_cls == ML and len(args) > 1 and args[1].k in ("int", "bool")

    def pre(self, c, a):
        return self.base_pre(c, a)

    def idx(self, c0, a):
        n = length(c0, a.self.t)
        return z3.If(a.i.t < 0, a.i.t + n, a.i.t)

    def raises(self, c0, a):
        n = length(c0, a.self.t)
        i = self.idx(c0, a)
        return {"IndexError": z3.Not(z3.And(0 <= i, i < n))}

    def on_raise(self, c0, c1, a, exc):
        return {"state_unchanged:" + k: c1.arr(k) == c0.arr(k)
                for k in ("ListWrapper._data#items", "ListWrapper._data#len", "_ir", "_local_uuid_cache#dom",
                          "_local_uuid_cache#map")}

    def ghost_witness(self, c0, c1, a, res):
        w = a.self.t
        i = self.idx(c0, a)
        m = fresh("m", Int)
        pos0 = c0.arr("$modpos")
        mine = c0.get("_ir", m) == owner(c0, w)
        return {"$modpos": z3.Lambda([m], z3.If(z3.And(mine, z3.Select(pos0, m) > i), z3.Select(pos0, m) - 1,
                                                z3.Select(pos0, m)))}

    def post(self, c0, c1, a, res):
        w = a.self.t
        i = self.idx(c0, a)
        v = ref(z3.Select(items(c0, w), i))
        j = fresh("j", Int)
        out = dict(WF(c1))
        out["view"] = z3.And(length(c1, w) == length(c0, w) - 1,
                             z3.ForAll([j], z3.Select(items(c1, w), j) == z3.If(
                                 j < i, z3.Select(items(c0, w), j), z3.Select(items(c0, w), j + 1))))
        out["parent"] = is_VNone(c1.get("_ir", v))
        w2 = fresh("w2", Int)
        out["other_lists"] = z3.ForAll([w2], z3.Implies(w2 != w, z3.And(items(c1, w2) == items(c0, w2),
                                                                        length(c1, w2) == length(c0, w2))))
        n = fresh("n", Int)
        out["other_parents"] = z3.ForAll([n], z3.Implies(n != v, c1.get("_ir", n) == c0.get("_ir", n)))
        return out


def register(reg):
    reg.allow_inline("util.py::ListWrapper.__len__", "util.py::ListWrapper.__getitem__")
    reg.add(ModRemoveHook())
    reg.add(ModDelItem())
