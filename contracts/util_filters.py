"""Contracts for the lookup filters of util.py (C05, C06, C12 arithmetic core).

Targets: get_desired_range, _address_interval, _offset_interval,
         _nodes_on_interval_tree_impl, _nodes_at_interval_tree_impl  (one contract per instantiation)
"""
import z3
from pyvc.contracts import Contract
from pyvc.core import (SV, Val, VNone, VInt, VRef, VIv, is_VNone, is_VInt, is_VRef, is_VIv, ival, ref, ivb, ive,
                       ivd, fresh, Int, sv_int)
from specs.common import on_q, at_q, range_of, block_typed, interval_typed, block_addr, And

PROPS = ("C05", "C06", "C12")


class GetDesiredRange(Contract):
    target = "util.py::get_desired_range"
    props = PROPS

    def post(self, c0, c1, a, res):
        s, e, st = range_of(a.addrs)
        ok = res.k == "range"
        if not ok:
            return {"is_range": z3.BoolVal(False)}
        return {"start": res.x[0].t == s, "stop": res.x[1].t == e, "step": res.x[2].t == st}


# ---------------------------------------------------------------------------------------------
class AddressIntervalBI(Contract):
    """_address_interval(node: ByteInterval)"""
    target = "util.py::_address_interval"
    variant = "ByteInterval"
    props = PROPS
    params = {"node": "ref:ByteInterval"}
    result = "val"

    def selects(self, self_cls, args):
        return args and args[0].cls == "ByteInterval"

    def pre(self, c, a):
        return {"typed": interval_typed(c, a.node.t)}

    def spec(self, c, n):
        ad, sz = c.get("_address", n), c.get("_size", n)
        return z3.If(is_VNone(ad), VNone, VIv(ival(ad), ival(ad) + ival(sz) + 1, n))

    def post(self, c0, c1, a, res):
        from pyvc.core import to_val
        return {"interval": to_val(res) == self.spec(c0, a.node.t)}

    def result_term(self, c0, a):
        return SV("val", self.spec(c0, a.node.t))


class AddressIntervalBlock(Contract):
    """_address_interval(node: ByteBlock)  (used for address queries inside one byte interval)"""
    target = "util.py::_address_interval"
    variant = "ByteBlock"
    props = PROPS
    params = {"node": "ref:ByteBlock"}
    result = "val"

    def selects(self, self_cls, args):
        ci = args and args[0].cls
        return ci in ("ByteBlock", "CodeBlock", "DataBlock")

    def pre(self, c, a):
        n = a.node.t
        bi = c.get("_byte_interval", n)
        return {"typed": block_typed(c, n),
                "parent_typed": z3.And(z3.Or(is_VNone(bi), is_VRef(bi)),
                                       z3.Implies(is_VRef(bi), interval_typed(c, ref(bi))))}

    def spec(self, c, n):
        ad = block_addr(c, n)
        sz = c.get("_size", n)
        return z3.If(is_VNone(ad), VNone, VIv(ival(ad), ival(ad) + ival(sz) + 1, n))

    def post(self, c0, c1, a, res):
        from pyvc.core import to_val
        return {"interval": to_val(res) == self.spec(c0, a.node.t)}

    def result_term(self, c0, a):
        return SV("val", self.spec(c0, a.node.t))


class OffsetInterval(Contract):
    target = "util.py::_offset_interval"
    props = PROPS
    params = {"node": "ref:ByteBlock"}
    result = "val"

    def pre(self, c, a):
        return {"typed": block_typed(c, a.node.t)}

    def spec(self, c, n):
        off, sz = c.get("_offset", n), c.get("_size", n)
        return VIv(ival(off), ival(off) + ival(sz) + 1, n)

    def post(self, c0, c1, a, res):
        from pyvc.core import to_val
        return {"interval": to_val(res) == self.spec(c0, a.node.t)}

    def result_term(self, c0, a):
        return SV("val", self.spec(c0, a.node.t))


# ---------------------------------------------------------------------------------------------
def _tree_param(elem_cls):
    def mk(eng, st, name):
        return SV("ref", fresh(name, Int), cls="$IntervalTree", x=elem_cls)
    return mk


def _func_param(target):
    def mk(eng, st, name):
        return SV("func", x=(eng.prog.find_function(target), {}))
    return mk


class TreeLookup(Contract):
    """_nodes_{on,at}_interval_tree_impl, one instantiation.

    mode:      'on' | 'at'
    flavour:   'block_addr'  tree of offset intervals of ByteBlocks, getter=_address_interval, adjustment=-A
               'bi_addr'     tree of address intervals of ByteIntervals, getter=_address_interval, adjustment=0
               'block_off'   tree of offset intervals of ByteBlocks, getter=_offset_interval, adjustment=0
    addr_kind: 'int' | 'range'
    """
    props = PROPS
    yields_nodup = True

    def __init__(self, mode, flavour, addr_kind):
        self.mode, self.flavour, self.addr_kind = mode, flavour, addr_kind
        self.target = "util.py::_nodes_%s_interval_tree_impl" % mode
        self.variant = "%s,%s" % (flavour, addr_kind)
        getter = "util.py::_offset_interval" if flavour == "block_off" else "util.py::_address_interval"
        elem = "ByteInterval" if flavour == "bi_addr" else "ByteBlock"
        self.elem = elem
        self.yield_cls = elem
        self.getter_param = "interval_getter" if mode == "on" else "bounds_getter"
        self.params = {"tree": _tree_param(elem), "addrs": addr_kind, self.getter_param: _func_param(getter),
                       "adjustment": "int"}
        super().__init__()

    def selects(self, self_cls, args, kwargs=None):
        # chosen by tree element class, getter and kind of addrs
        kwargs = kwargs or {}
        tree, addrs = args[0], args[1]
        getter = kwargs.get(self.getter_param)
        gname = getter.x[0].qual if getter is not None and getter.k == "func" else None
        want = "_offset_interval" if self.flavour == "block_off" else "_address_interval"
        return tree.x == self.elem and addrs.k == self.addr_kind and gname == want

    # tree-side low bound and query-side low bound of element n
    def tree_iv(self, c, n):
        if self.flavour == "bi_addr":
            a, sz = c.get("_address", n), c.get("_size", n)
            return VIv(ival(a), ival(a) + ival(sz) + 1, n)
        off, sz = c.get("_offset", n), c.get("_size", n)
        return VIv(ival(off), ival(off) + ival(sz) + 1, n)

    def q_low(self, c, n):
        """int: the coordinate the query is about (address or offset of n)"""
        if self.flavour == "bi_addr":
            return ival(c.get("_address", n))
        if self.flavour == "block_off":
            return ival(c.get("_offset", n))
        return ival(block_addr(c, n))

    def elem_ok(self, c, n, adj):
        """facts about one element of the tree (what WF_index of the owner provides)"""
        if self.flavour == "bi_addr":
            return z3.And(c.isinst(n, "ByteInterval"), interval_typed(c, n), is_VInt(c.get("_address", n)), adj == 0)
        base = z3.And(c.isinst(n, "ByteBlock"), block_typed(c, n))
        if self.flavour == "block_off":
            return z3.And(base, adj == 0)
        bi = c.get("_byte_interval", n)
        return z3.And(base, is_VRef(bi), interval_typed(c, ref(bi)), is_VInt(c.get("_address", ref(bi))),
                      ival(c.get("_address", ref(bi))) + adj == 0)

    def content(self, c, a):
        return z3.Select(c.arr("$tree_content"), a.tree.t)

    def pre(self, c, a):
        iv = fresh("iv", Val)
        s, e, st = range_of(a.addrs)
        adj = a.adjustment.t
        out = {"tree_content": z3.ForAll([iv], z3.Implies(
            z3.Select(self.content(c, a), iv),
            z3.And(is_VIv(iv), self.elem_ok(c, ivd(iv), adj), iv == self.tree_iv(c, ivd(iv)))))}
        if self.addr_kind == "range":
            out["positive_step"] = st >= 1
        return out

    def yields(self, c0, a, v):
        s, e, st = range_of(a.addrs)
        n = ref(v)
        inside = z3.Select(self.content(c0, a), self.tree_iv(c0, n))
        sz = ival(c0.get("_size", n))
        if self.mode == "on":
            q = on_q(self.q_low(c0, n), sz, s, e)
        else:
            q = at_q(self.q_low(c0, n), s, e, st)
        return z3.And(is_VRef(v), inside, q)

    def witness(self, c0, a, v):
        # the binder of the single yield site is the tree interval of the yielded node
        return {"line": [self.tree_iv(c0, ref(v))]}


def register(reg):
    reg.allow_inline("util.py::get_desired_range")
    for kind in ("int", "range"):
        reg.add(GetDesiredRange(params={"addrs": kind}, variant=kind))
    reg.add(AddressIntervalBI())
    reg.add(AddressIntervalBlock())
    reg.add(OffsetInterval())
    for mode in ("on", "at"):
        for flavour in ("block_addr", "bi_addr", "block_off"):
            for kind in ("int", "range"):
                reg.add(TreeLookup(mode, flavour, kind))
