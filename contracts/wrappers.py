"""Contracts for the plain wrapper primitives of util.py (C16): they behave like the built-in set / dict operation on
the same elements."""
import z3
from pyvc.contracts import Contract
from pyvc.core import (SV, Val, VNone, VRef, is_VNone, is_VRef, ref, fresh, Int, SetSort, EmptySet, Card, to_val)

PROPS = ("C16",)
SETS = ["Section._ByteIntervalSet", "ByteInterval._BlockSet", "Module._NodeSet"]


def data(c, w):
    return z3.Select(c.arr("SetWrapper._data"), w)


class SetView(Contract):
    """__contains__ / __len__ / __iter__ of an owning set: membership, length and iteration agree with the set"""
    props = PROPS + ("C04",)

    def __init__(self, wrapper, name):
        self.wrapper, self.name = wrapper, name
        self.target = "mro:%s.%s" % (wrapper, name)
        self.variant = wrapper
        self.params = {"self": "ref:" + wrapper}
        if name == "__contains__":
            self.params["v"] = "val"
            self.result = "bool"
        elif name == "__len__":
            self.result = "int"
        super().__init__()

    def selects(self, self_cls, args, kwargs=None):
        return self_cls == self.wrapper

    def post(self, c0, c1, a, res):
        d = data(c0, a.self.t)
        if self.name == "__contains__":
            return {"membership": res.t == z3.Select(d, to_val(a.v))}
        if self.name == "__len__":
            return {"cardinality": res.t == Card(d)}
        return {}

    def yields(self, c0, a, v):
        if self.name != "__iter__":
            return None
        return z3.Select(data(c0, a.self.t), v)


class FromIterable(Contract):
    """cls._from_iterable(it): what collections.abc.Set requires of it (the hook behind &, -, ^ and their in-place
    forms): a set holding exactly the elements of `it`, touching no ownership (a plain set)"""
    props = PROPS

    def __init__(self, wrapper):
        self.wrapper = wrapper
        self.target = "mro:%s._from_iterable" % wrapper
        self.variant = wrapper
        self.params = {"it": "set"}
        super().__init__()

    def post(self, c0, c1, a, res):
        if res.k != "set":
            return {"plain_set": z3.BoolVal(False)}
        return {"plain_set_with_the_elements": res.t == a.it.t}


class SetOr(Contract):
    """self | other: plain set with the union, ownership untouched"""
    props = PROPS

    def __init__(self, wrapper):
        self.wrapper = wrapper
        self.target = "mro:%s.__or__" % wrapper
        self.variant = wrapper
        self.params = {"self": "ref:" + wrapper, "other": "set"}
        super().__init__()

    def post(self, c0, c1, a, res):
        x = fresh("x", Val)
        if res.k != "set":
            return {"plain_set": z3.BoolVal(False)}
        return {"union": z3.ForAll([x], z3.Select(res.t, x) == z3.Or(z3.Select(data(c0, a.self.t), x), z3.Select(a.other.t, x)))}


def dstore(c, w):
    return z3.Select(c.arr("DictWrapper._data#dom"), w), z3.Select(c.arr("DictWrapper._data#map"), w)


class DictPrim(Contract):
    """primitives of ByteInterval._SymbolicExprDict (util.DictWrapper): like dict on the same keys"""
    props = PROPS + ("C13",)
    W = "ByteInterval._SymbolicExprDict"

    def __init__(self, name):
        self.name = name
        self.target = "mro:%s.%s" % (self.W, name)
        self.params = {"self": "ref:" + self.W}
        if name in ("__getitem__", "__delitem__", "__setitem__"):
            self.params["i"] = "val"
        if name == "__setitem__":
            self.params["v"] = "val"
        if name == "__getitem__":
            self.result = "val"
        if name == "__len__":
            self.result = "int"
        if name in ("__setitem__", "__delitem__"):
            self.modifies = {"DictWrapper._data": lambda c0, a, r: r == a.self.t}
        super().__init__()

    def raises(self, c0, a):
        if self.name in ("__getitem__", "__delitem__"):
            dom, mp = dstore(c0, a.self.t)
            return {"KeyError": z3.Not(z3.Select(dom, to_val(a.i)))}
        return {}

    def on_raise(self, c0, c1, a, exc):
        return {"unchanged": z3.And(c1.arr("DictWrapper._data#dom") == c0.arr("DictWrapper._data#dom"),
                                    c1.arr("DictWrapper._data#map") == c0.arr("DictWrapper._data#map"))}

    def post(self, c0, c1, a, res):
        d0, m0 = dstore(c0, a.self.t)
        d1, m1 = dstore(c1, a.self.t)
        k = fresh("k", Val)
        if self.name == "__getitem__":
            return {"value": to_val(res) == z3.Select(m0, to_val(a.i))}
        if self.name == "__len__":
            return {"cardinality": res.t == Card(d0)}
        if self.name == "__setitem__":
            i, v = to_val(a.i), to_val(a.v)
            return {"keys": d1 == z3.Store(d0, i, True),
                    "values": z3.ForAll([k], z3.Implies(z3.Select(d1, k), z3.Select(m1, k) == z3.If(k == i, v, z3.Select(m0, k))))}
        if self.name == "__delitem__":
            i = to_val(a.i)
            return {"keys": d1 == z3.Store(d0, i, False),
                    "values": z3.ForAll([k], z3.Implies(z3.Select(d1, k), z3.Select(m1, k) == z3.Select(m0, k)))}
        return {}

    def yields(self, c0, a, v):
        if self.name != "__iter__":
            return None
        return z3.Select(dstore(c0, a.self.t)[0], v)


def register(reg):
    for w in SETS:
        for name in ("__contains__", "__len__", "__iter__"):
            reg.add(SetView(w, name))
        reg.add(FromIterable(w))
        reg.add(SetOr(w))
    for name in ("__getitem__", "__setitem__", "__delitem__", "__iter__", "__len__"):
        reg.add(DictPrim(name))
