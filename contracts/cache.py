"""Contracts for the UUID-table maintenance helpers _add_to_uuid_cache / _remove_from_uuid_cache (C03)."""
import z3
from pyvc.contracts import Contract, LoopSpec
from pyvc.core import SV, Val, VRef, is_VRef, ref, fresh, Int
from specs import forest, cache as K

PROPS = ("C03", "C04", "C17")

FILES = {"Block": "block.py", "Symbol": "symbol.py", "ByteInterval": "byteinterval.py", "Section": "section.py",
         "Module": "module.py"}
# relations that must be consistent *below* a node of the given class
BELOW = {"Block": [], "Symbol": [], "ByteInterval": ["rel_block"], "Section": ["rel_block", "rel_interval"],
         "Module": ["rel_block", "rel_interval", "rel_section", "rel_symbol", "rel_proxy"]}


def below(c, cls):
    return z3.And([getattr(forest, r)(c) for r in BELOW[cls]]) if BELOW[cls] else z3.BoolVal(True)


def tbl(d):
    return d.x[0], d.t


class CacheOp(Contract):
    props = PROPS
    inout = ("cache",)

    def __init__(self, cls, op):
        self.cls, self.op = cls, op
        self.target = "%s::%s._%s_uuid_cache" % (FILES[cls], cls, "add_to" if op == "add" else "remove_from")
        self.params = {"self": "ref:" + cls, "cache": "dict:val"}
        super().__init__()

    def pre(self, c, a):
        n = a.self.t
        out = {"is_node": c.isinst(n, self.cls), "uuids_typed": K.uuids_typed(c), "below_consistent": below(c, self.cls),
               "parent_kinds": K.parent_kinds(c),
               "distinct_uuids_in_subtree": K.distinct_in_subtree(c, n, self.cls)}
        if self.op == "remove":
            d0, m0 = tbl(a.cache)
            out["subtree_registered"] = K.registered(c, n, d0, m0, self.cls)
        return out

    def post(self, c0, c1, a, res):
        d0, m0 = tbl(a.cache)
        d1, m1 = tbl(a.cache__out)
        if self.op == "add":
            return K.added(c0, a.self.t, d0, m0, d1, m1, self.cls)
        return K.removed(c0, a.self.t, d0, m0, d1, m1, self.cls)


def partial_pred(c, root, cls, stage, seen):
    """nodes of subtree(root) already handled when the loop `stage` has processed the children in `seen`"""
    def pred(n):
        k = K.chain(c, n)
        R = VRef(root)
        blk, bi = c.isinst(n, "ByteBlock"), c.isinst(n, "ByteInterval")
        is_self = n == root
        if cls == "ByteInterval":
            return z3.And(K.is_node(c, n), z3.Or(is_self, z3.And(blk, k["bi_of_block"] == R, z3.Select(seen, VRef(n)))))
        if cls == "Section":
            return z3.And(K.is_node(c, n), z3.Or(
                is_self,
                z3.And(bi, k["sec_of_bi"] == R, z3.Select(seen, VRef(n))),
                z3.And(blk, is_VRef(k["bi_of_block"]), k["sec_of_block"] == R, z3.Select(seen, k["bi_of_block"]))))
        # Module: stage 0 proxies, 1 sections, 2 symbols
        def child(kindname):
            return z3.And(c.isinst(n, kindname), k["mod_of_child"] == R)
        bi_in = z3.And(bi, is_VRef(k["sec_of_bi"]), k["mod_of_bi"] == R)
        blk_in = z3.And(blk, is_VRef(k["bi_of_block"]), is_VRef(k["sec_of_block"]), k["mod_of_block"] == R)
        sec_sub_all = z3.Or(child("Section"), bi_in, blk_in)
        sec_sub_seen = z3.Or(z3.And(child("Section"), z3.Select(seen, VRef(n))),
                             z3.And(bi_in, z3.Select(seen, k["sec_of_bi"])),
                             z3.And(blk_in, z3.Select(seen, k["sec_of_block"])))
        # stage = (collection being walked, collections already walked): the three loops may come in any order
        cur, done = stage
        whole = {"proxies": child("ProxyBlock"), "sections": sec_sub_all, "symbols": child("Symbol")}
        part = {"proxies": z3.And(child("ProxyBlock"), z3.Select(seen, VRef(n))), "sections": sec_sub_seen,
                "symbols": z3.And(child("Symbol"), z3.Select(seen, VRef(n)))}
        body = z3.Or([is_self] + [whole[d] for d in done] + [part[cur]])
        return z3.And(K.is_node(c, n), body)
    return pred


def _added_pred(c, pred, d0, m0, d1, m1):
    n = fresh("n", Int)
    u = fresh("u", Val)
    e1 = z3.Select(m1, u)
    return {
        "partial_registered": z3.ForAll([n], z3.Implies(pred(n), z3.And(z3.Select(d1, K.uuid_of(c, n)),
                                                                         z3.Select(m1, K.uuid_of(c, n)) == VRef(n)))),
        "old_kept_or_overwritten": z3.ForAll([u], z3.Implies(z3.Select(d0, u), z3.And(z3.Select(d1, u), z3.Or(
            e1 == z3.Select(m0, u), z3.And(is_VRef(e1), pred(ref(e1)), K.uuid_of(c, ref(e1)) == u))))),
        "new_are_partial": z3.ForAll([u], z3.Implies(z3.And(z3.Select(d1, u), z3.Not(z3.Select(d0, u))),
                                                     z3.And(is_VRef(e1), pred(ref(e1)), K.uuid_of(c, ref(e1)) == u))),
    }


def _removed_pred(c, pred, d0, m0, d1, m1):
    u = fresh("u", Val)
    e0 = z3.Select(m0, u)
    return {
        "exactly_partial_removed": z3.ForAll([u], z3.Select(d1, u) == z3.And(
            z3.Select(d0, u), z3.Not(z3.And(is_VRef(e0), pred(ref(e0)), K.uuid_of(c, ref(e0)) == u)))),
        "others_unchanged": z3.ForAll([u], z3.Implies(z3.Select(d1, u), z3.Select(m1, u) == e0)),
    }


def loop_inv(cls, op, stage):
    def inv(L):
        root = L.a.self.t
        d0, m0 = tbl(L.a.cache)
        d1, m1 = tbl(L.env["cache"])
        st_ = stage
        if cls == "Module":
            # which child collection this loop walks and which ones were walked before it is read off the source
            # (for x in self.proxies / self.sections / self.symbols), not off the position of the loop
            def coll(src):
                m = src.rsplit(".", 1)
                if len(m) != 2 or m[0] != "self" or m[1] not in ("proxies", "sections", "symbols"):
                    raise Unsupported("uuid-cache loop over %s: not one of the module's child collections" % src)
                return m[1]
            if L.iter_src is None:
                raise Unsupported("uuid-cache loop: iterated expression unknown")
            st_ = (coll(L.iter_src), tuple(coll(d) for d in L.done))
        pred = partial_pred(L.c0, root, cls, st_, L.seen)
        f = _added_pred if op == "add" else _removed_pred
        return f(L.c0, pred, d0, m0, d1, m1)
    return inv


def register(reg):
    for cls in FILES:
        for op in ("add", "remove"):
            c = reg.add(CacheOp(cls, op))
            nloops = {"ByteInterval": 1, "Section": 1, "Module": 3}.get(cls, 0)
            for k in range(nloops):
                reg.add_loop(c.target, k, LoopSpec(loop_inv(cls, op, k), carried={"cache": "dict:val"}))
