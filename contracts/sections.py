"""Contracts for the extent of a section and the section lookups (C06): Section.address / Section.size and
Module/IR.sections_on / sections_at."""
import z3
from pyvc.contracts import Contract
from pyvc.core import (SV, Val, VNone, VInt, VRef, is_VNone, is_VInt, is_VRef, is_VIv, ival, ref, ivb, ive, ivd, fresh, Int, SetSort,
                       Card, to_val)
from pyvc.schema import REGION_KEYS
from specs import forest
from specs.common import on_q, at_q, range_of, all_intervals_typed
from contracts.lookups import LookupBase

PROPS = ("C06", "C05", "C12")


def card_lemma():
    """finite-set arithmetic used for `len(index) == len(self.byte_intervals)` (assumed; listed in the evidence): if every
    interval of T carries a distinct member of S as its data, then |T| <= |S|, and |T| == |S| exactly when every member
    of S is the data of some interval of T"""
    T, S = z3.Const("cT", SetSort), z3.Const("cS", SetSort)
    a, b, x = z3.Const("ca", Val), z3.Const("cb", Val), z3.Const("cx", Val)
    into = z3.ForAll([a], z3.Implies(z3.Select(T, a), z3.And(is_VIv(a), z3.Select(S, VRef(ivd(a))))))
    inj = z3.ForAll([a, b], z3.Implies(z3.And(z3.Select(T, a), z3.Select(T, b), ivd(a) == ivd(b)), a == b))
    onto = z3.ForAll([x], z3.Implies(z3.Select(S, x), z3.Exists([a], z3.And(z3.Select(T, a), VRef(ivd(a)) == x))))
    return z3.ForAll([T, S], z3.Implies(z3.And(into, inj), z3.And(Card(T) <= Card(S), (Card(T) == Card(S)) == onto)),
                     patterns=[z3.MultiPattern(Card(T), Card(S))])


def members(c, s):
    return forest.data(c, c.get("byte_intervals", s))


def all_addressed(c, s):
    x = fresh("x", Val)
    S = members(c, s)
    return z3.And(S != z3.K(Val, False), z3.ForAll([x], z3.Implies(z3.Select(S, x), is_VInt(c.get("_address", ref(x))))))


def is_lowest(c, s, m):
    x = fresh("x", Val)
    w = fresh("w", Val)
    S = members(c, s)
    return z3.And(z3.Exists([w], z3.And(z3.Select(S, w), ival(c.get("_address", ref(w))) == m)),
                  z3.ForAll([x], z3.Implies(z3.Select(S, x), m <= ival(c.get("_address", ref(x))))))


def is_highest_end(c, s, h):
    x = fresh("x", Val)
    w = fresh("w", Val)
    S = members(c, s)
    end = lambda v: ival(c.get("_address", ref(v))) + ival(c.get("_size", ref(v)))
    return z3.And(z3.Exists([w], z3.And(z3.Select(S, w), end(w) == h)),
                  z3.ForAll([x], z3.Implies(z3.Select(S, x), end(x) <= h)))


POSTF = ["index_facts", "members_in_index", "card_relation", "intervals_typed", "returns_index", "is_section", "wf_static"]


def _extent_funs(c):
    """LO(s), HI(s): lowest interval address and highest interval end of section s in state c (opaque symbols with their
    characterisation as a fact; unique when every interval has an address, arbitrary otherwise)"""
    deps = ("byte_intervals", "SetWrapper._data", "_address", "_size")
    key = ("sec_extent",) + tuple(c.arr(k).get_id() for k in deps)
    memo = c.eng.fun_memo
    if key in memo:
        return memo[key]
    from pyvc.core import fresh_name
    LO = z3.Function(fresh_name("F_sec_lo"), Int, Int)
    HI = z3.Function(fresh_name("F_sec_hi"), Int, Int)
    s = z3.Const("xs_ext", Int)
    c.eng.cur_facts.append(z3.ForAll([s], z3.Implies(all_addressed(c, s), z3.And(is_lowest(c, s, LO(s)), is_highest_end(c, s, HI(s)))),
                                     patterns=[LO(s)]))
    c.eng.cur_facts.append(z3.ForAll([s], z3.Implies(all_addressed(c, s), z3.And(is_lowest(c, s, LO(s)), is_highest_end(c, s, HI(s)))),
                                     patterns=[HI(s)]))
    memo[key] = (LO, HI)
    return memo[key]


def sec_lo(c, s):
    return _extent_funs(c)[0](s)


def sec_hi(c, s):
    return _extent_funs(c)[1](s)


class SectionExtent(LookupBase):
    """Section.address: None unless the section has intervals and all of them have an address, then the lowest one.
    Section.size: None in the same cases, else highest end minus lowest address."""
    props = PROPS
    result = "val"

    def __init__(self, what):
        self.what = what
        self.target = "section.py::Section." + what
        self.params = {"self": "ref:Section"}
        super().__init__()

    def selects(self, self_cls, args, kwargs=None):
        return True

    def axioms(self, eng):
        return [card_lemma()]

    def pre(self, c, a):
        out = {"wf_static": forest.wf_static(c), "wf_parents": forest.wf_parents(c), "inv_region": forest.inv_region(c),
               "is_section": c.isinst(a.self.t, "Section"), "intervals_typed": all_intervals_typed(c)}
        return out

    def lemmas(self, c0, c1, a, res):
        from specs import lazy
        s = a.self.t
        L = ref(c0.get("_interval_index", s))
        T = lazy.index_content(c1, L)
        S = members(c0, s)
        x, y = fresh("a", Val), fresh("b", Val)
        cur = lambda iv: lazy.cur_has(c0, "ByteInterval", L, iv)
        return {
            "index_is_current": z3.ForAll([x], z3.Select(T, x) == cur(x)),
            "index_facts": z3.ForAll([x], z3.Implies(z3.Select(T, x), z3.And(
                is_VIv(x), z3.Select(S, VRef(ivd(x))), lazy.mk_spec(c0, "ByteInterval", ivd(x)) == x))),
            "members_in_index": z3.ForAll([y], z3.Implies(
                z3.And(z3.Select(S, y), is_VInt(c0.get("_address", ref(y)))),
                z3.Select(T, lazy.mk_spec(c0, "ByteInterval", ref(y))))),
            "index_into_members": z3.ForAll([x], z3.Implies(z3.Select(T, x), z3.And(is_VIv(x), z3.Select(S, VRef(ivd(x)))))),
            "index_injective": z3.ForAll([x, y], z3.Implies(z3.And(z3.Select(T, x), z3.Select(T, y), ivd(x) == ivd(y)), x == y)),
            "card_relation": z3.And(Card(T) <= Card(S), (Card(T) == Card(S)) == z3.ForAll([y], z3.Implies(
                z3.Select(S, y), z3.Exists([x], z3.And(z3.Select(T, x), VRef(ivd(x)) == y))))),
        }

    def focus(self, clause):
        return {"lemma.index_is_current": ["content_is_current", "returns_index", "wf_static", "is_section"],
                "lemma.index_facts": ["index_is_current", "wf_static", "is_section"],
                "lemma.members_in_index": ["index_is_current", "wf_static", "is_section", "intervals_typed"],
                "lemma.index_into_members": ["index_facts"], "lemma.index_injective": ["index_facts"],
                "lemma.card_relation": ["index_into_members", "index_injective"],
                "lowest_interval_address": POSTF, "highest_end_minus_lowest_address": POSTF,
                "is_LO": POSTF + ["lowest_interval_address"], "is_HI_minus_LO": POSTF + ["highest_end_minus_lowest_address"],
                "none_unless_every_interval_has_an_address": POSTF,
                }.get(clause)

    def post(self, c0, c1, a, res):
        s = a.self.t
        v = to_val(res)
        ok = all_addressed(c0, s)
        out = dict(forest.inv_region_parts(c1))
        out["none_unless_every_interval_has_an_address"] = z3.Implies(z3.Not(ok), is_VNone(v))
        if self.what == "address":
            out["lowest_interval_address"] = z3.Implies(ok, z3.And(is_VInt(v), is_lowest(c0, s, ival(v))))
            out["is_LO"] = z3.Implies(ok, v == VInt(sec_lo(c0, s)))
        else:
            # highest end minus lowest address = the largest value of end(x) - address(y) over pairs of member intervals
            x, y = fresh("x", Val), fresh("y", Val)
            S = members(c0, s)
            end = lambda u: ival(c0.get("_address", ref(u))) + ival(c0.get("_size", ref(u)))
            adr = lambda u: ival(c0.get("_address", ref(u)))
            out["highest_end_minus_lowest_address"] = z3.Implies(ok, z3.And(
                is_VInt(v),
                z3.ForAll([x, y], z3.Implies(z3.And(z3.Select(S, x), z3.Select(S, y)), end(x) - adr(y) <= ival(v))),
                z3.Exists([x, y], z3.And(z3.Select(S, x), z3.Select(S, y), end(x) - adr(y) == ival(v)))))
            out["is_HI_minus_LO"] = z3.Implies(ok, v == VInt(sec_hi(c0, s) - sec_lo(c0, s)))
        return out


def register(reg):
    reg.add(SectionExtent("address"))
    reg.add(SectionExtent("size"))


def section_in(c, level, n, owner):
    mod = c.get("_module", n)
    if level == "module":
        return z3.And(c.isinst(n, "Section"), mod == VRef(owner))
    return z3.And(c.isinst(n, "Section"), is_VRef(mod), c.get("_ir", ref(mod)) == VRef(owner))


class SectionsLookup(LookupBase):
    """Module / IR .sections_on / .sections_at: exactly the sections of self that have an extent (all intervals addressed)
    meeting the query (on: [lowest address, highest end) meets the hull of the query; at: the lowest address is a member)"""
    props = PROPS
    yield_cls = "Section"

    def __init__(self, level, mode, addr_kind):
        self.level, self.mode, self.addr_kind = level, mode, addr_kind
        cls = {"module": "Module", "ir": "IR"}[level]
        self.cls = cls
        self.target = "%s.py::%s.sections_%s" % (level, cls, mode)
        self.variant = addr_kind
        self.params = {"self": "ref:" + cls, "addrs": addr_kind}
        super().__init__()

    def axioms(self, eng):
        return [card_lemma()]

    def pre(self, c, a):
        from specs.wf import WF
        out = self.base_pre(c, a, a.addrs)
        out["is_owner"] = c.isinst(a.self.t, self.cls)
        out["wf_upper"] = forest.wf_upper(c)
        out["intervals_typed"] = all_intervals_typed(c)
        w = WF(c)
        for k in ("rel_section", "rel_module_wiring", "rel_module_items", "rel_module_nodup", "rel_module_pos", "wrappers_owned",
                  "parent_kinds"):
            out[k] = w[k]
        if self.level == "ir":
            from contracts.aggregates import Aggregate
            for k, f_ in Aggregate("IR", "sections").pre(c, a).items():
                out.setdefault(k, f_)
        return out

    def yields(self, c0, a, v):
        n = ref(v)
        s, e, st = range_of(a.addrs)
        lo, hi = sec_lo(c0, n), sec_hi(c0, n)
        q = on_q(lo, hi - lo, s, e) if self.mode == "on" else at_q(lo, s, e, st)
        return z3.And(is_VRef(v), section_in(c0, self.level, n, a.self.t), all_addressed(c0, n), q)

    def witness(self, c0, a, v):
        return {"": [v]}


_reg_sec = register


def register(reg):      # noqa: F811
    _reg_sec(reg)
    for level in ("module", "ir"):
        for mode in ("on", "at"):
            for kind in ("int", "range"):
                reg.add(SectionsLookup(level, mode, kind))
