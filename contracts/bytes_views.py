"""Contracts for interval byte storage and block views (C19)."""
import z3
from pyvc.contracts import Contract
from pyvc.core import SV, Val, VNone, VInt, VRef, is_VNone, is_VInt, is_VRef, ival, ref, fresh, Int, to_val
from specs.common import block_typed, interval_typed

PROPS = ("C19",)


def contents(c, bi):
    return z3.Select(c.arr("contents#items"), bi), z3.Select(c.arr("contents#len"), bi)


class InitSizeGet(Contract):
    target = "byteinterval.py::ByteInterval.initialized_size"
    props = PROPS
    params = {"self": "ref:ByteInterval"}
    result = "int"

    def pre(self, c, a):
        return {"len_nonneg": contents(c, a.self.t)[1] >= 0}

    def post(self, c0, c1, a, res):
        return {"equals_stored_byte_count": res.t == contents(c0, a.self.t)[1]}


class InitSizeSet(Contract):
    """assigning initialized_size pads with zero bytes or truncates"""
    target = "byteinterval.py::ByteInterval.initialized_size.setter"
    props = PROPS
    params = {"self": "ref:ByteInterval", "value": "int"}
    modifies = {"contents": lambda c0, a, r: r == a.self.t}

    def pre(self, c, a):
        return {"len_nonneg": contents(c, a.self.t)[1] >= 0, "value_nonneg": a.value.t >= 0}

    def post(self, c0, c1, a, res):
        it0, n0 = contents(c0, a.self.t)
        it1, n1 = contents(c1, a.self.t)
        i = fresh("i", Int)
        v = a.value.t
        return {"stored_count_is_value": n1 == v,
                "kept_prefix": z3.ForAll([i], z3.Implies(z3.And(0 <= i, i < v, i < n0), z3.Select(it1, i) == z3.Select(it0, i))),
                "zero_padding": z3.ForAll([i], z3.Implies(z3.And(n0 <= i, i < v), z3.Select(it1, i) == VInt(0)))}


class BlockAddress(Contract):
    target = "block.py::ByteBlock.address"
    props = PROPS + ("C05",)
    params = {"self": "ref:ByteBlock"}
    result = "val"

    def pre(self, c, a):
        b = a.self.t
        bi = c.get("_byte_interval", b)
        return {"typed": z3.And(block_typed(c, b), z3.Or(is_VNone(bi), z3.And(is_VRef(bi), interval_typed(c, ref(bi)))))}

    def post(self, c0, c1, a, res):
        b = a.self.t
        bi = c0.get("_byte_interval", b)
        A = c0.get("_address", ref(bi))
        exp = z3.If(z3.Or(is_VNone(bi), is_VNone(A)), VNone, VInt(ival(A) + ival(c0.get("_offset", b))))
        return {"interval_address_plus_offset_or_none": to_val(res) == exp}


class ContainsOffset(Contract):
    target = "block.py::ByteBlock.contains_offset"
    props = PROPS
    params = {"self": "ref:ByteBlock", "offset": "int"}
    result = "bool"

    def pre(self, c, a):
        return {"typed": block_typed(c, a.self.t)}

    def post(self, c0, c1, a, res):
        off, sz = ival(c0.get("_offset", a.self.t)), ival(c0.get("_size", a.self.t))
        return {"in_block_range": res.t == z3.And(off <= a.offset.t, a.offset.t < off + sz)}


class ContainsAddress(Contract):
    target = "block.py::ByteBlock.contains_address"
    props = PROPS
    params = {"self": "ref:ByteBlock", "address": "int"}
    result = "bool"

    def pre(self, c, a):
        return BlockAddress.pre(self, c, a)

    def post(self, c0, c1, a, res):
        b = a.self.t
        bi = c0.get("_byte_interval", b)
        A = c0.get("_address", ref(bi))
        off, sz = ival(c0.get("_offset", b)), ival(c0.get("_size", b))
        has = z3.And(is_VRef(bi), is_VInt(A))
        return {"agrees_with_address_range": res.t == z3.And(has, ival(A) + off <= a.address.t,
                                                             a.address.t < ival(A) + off + sz)}


class BlockContents(Contract):
    """exactly the interval bytes from offset to offset+size (clipped to the stored bytes)"""
    target = "block.py::ByteBlock.contents"
    props = PROPS
    params = {"self": "ref:ByteBlock"}

    def pre(self, c, a):
        b = a.self.t
        bi = c.get("_byte_interval", b)
        return {"typed": z3.And(block_typed(c, b), z3.Or(is_VNone(bi), is_VRef(bi))),
                "len_nonneg": z3.Implies(is_VRef(bi), contents(c, ref(bi))[1] >= 0)}

    def post(self, c0, c1, a, res):
        b = a.self.t
        bi = c0.get("_byte_interval", b)
        it, n = contents(c0, ref(bi))
        off, sz = ival(c0.get("_offset", b)), ival(c0.get("_size", b))
        lo = z3.If(off > n, n, off)
        hi = z3.If(off + sz > n, n, off + sz)
        i = fresh("i", Int)
        if res.k != "bytes":
            return {"is_bytes": z3.BoolVal(False)}
        exp_len = z3.If(is_VNone(bi), 0, hi - lo)
        return {"length": res.x == exp_len,
                "bytes": z3.ForAll([i], z3.Implies(z3.And(is_VRef(bi), 0 <= i, i < hi - lo),
                                                   z3.Select(res.t, i) == z3.Select(it, off + i)))}


class IntervalSizeSet(Contract):
    """ByteInterval.size = v: as the component documentation (doc/general/ByteInterval.md) requires, shrinking
    size below the stored byte count truncates the stored bytes, so that stored bytes never exceed size."""
    target = "byteinterval.py::ByteInterval.size.setter"
    props = PROPS + ("C05", "C06", "C12")
    params = {"self": "ref:ByteInterval", "value": "int"}
    modifies = {"_size": lambda c0, a, r: r == a.self.t, "_interval_events": None,
                "contents": lambda c0, a, r: r == a.self.t}

    def region_invariant(self, c):
        from specs import forest
        return forest.inv_region(c)

    def pre(self, c, a):
        from specs import forest
        bi = a.self.t
        return {"is_interval": c.isinst(bi, "ByteInterval"), "value_in_schema_range": a.value.t >= 0,
                "len_nonneg": contents(c, bi)[1] >= 0,
                "wf_static": forest.wf_static(c), "wf_parents": forest.wf_parents(c), "inv_region": forest.inv_region(c)}

    def post(self, c0, c1, a, res):
        from specs import forest
        bi = a.self.t
        it0, n0 = contents(c0, bi)
        it1, n1 = contents(c1, bi)
        i = fresh("i", Int)
        return {"stored": c1.get("_size", bi) == VInt(a.value.t),
                "stored_bytes_do_not_exceed_size": z3.Implies(n0 <= ival(c0.get("_size", bi)), n1 <= a.value.t) if False
                else n1 == z3.If(a.value.t < n0, a.value.t, n0),
                "kept_prefix": z3.ForAll([i], z3.Implies(z3.And(0 <= i, i < n1), z3.Select(it1, i) == z3.Select(it0, i))),
                "wf_static": forest.wf_static(c1), "wf_parents": forest.wf_parents(c1),
                **forest.inv_region_parts(c1)}


def register(reg):
    for c in (InitSizeGet(), InitSizeSet(), BlockAddress(), ContainsOffset(), ContainsAddress(), BlockContents(),
              IntervalSizeSet()):
        reg.add(c)


class IntervalCtorGuard(Contract):
    """guard contract (prefix of ByteInterval.__init__): more initialized bytes than size is rejected with ValueError before
    anything is constructed (size and initialized_size default to the number of content bytes)"""
    target = "byteinterval.py::ByteInterval.__init__"
    props = PROPS + ("C17",)
    variant = "guard"
    params = {"self": "ref:ByteInterval", "address": "val", "size": "optint", "initialized_size": "optint", "contents": "blob",
              "blocks": "val", "symbolic_expressions": "val", "uuid": "val", "section": "val"}
    modifies = ()
    prefix_until = staticmethod(lambda src: src.startswith("super().__init__("))

    def selects(self, self_cls, args, kwargs=None):
        return False

    def raises(self, c0, a):
        n = z3.Length(a.contents.t)
        sz = z3.If(is_VNone(to_val(a.size)), n, ival(to_val(a.size)))
        ini = z3.If(is_VNone(to_val(a.initialized_size)), n, ival(to_val(a.initialized_size)))
        return {"ValueError": ini > sz}


_reg_bv = register


def register(reg):      # noqa: F811
    _reg_bv(reg)
    reg.add(IntervalCtorGuard())
