"""Contracts for the leaf AuxData codecs (C07 round trip, C08 wire format).

The wire format (AuxData.md / include/gtirb/AuxData.hpp): fixed-width little-endian two's-complement integers, one
byte for bool, 16 raw bytes for a UUID, Offset = UUID then uint64, string = uint64 count of UTF-8 bytes then the bytes.
Every encode contract states the appended bytes against that definition; every decode contract states the value
read from the next bytes and how many bytes are consumed.  The round trip is a lemma over the two contracts
(props/C07.py)."""
import z3
from pyvc.contracts import Contract
from pyvc.core import (SV, Val, VNone, VInt, VBool, VRef, VStr, VUuid, VPair, is_VNone, is_VInt, is_VBool, is_VRef, is_VStr,
                       is_VUuid, ival, bval, ref, sval, uval, fst, snd, fresh, Int, to_val)
from pyvc.iomodel import IoContract, BSeq, le_value, u2b, b2u, utf8, utf8inv, utf8ok, const_seq

PROPS = ("C07", "C08")
INT_CODECS = {"Uint64Codec": (8, False), "Uint32Codec": (4, False), "Uint16Codec": (2, False), "Uint8Codec": (1, False),
              "Int64Codec": (8, True), "Int32Codec": (4, True), "Int16Codec": (2, True), "Int8Codec": (1, True)}


def content(c, s):
    return z3.Select(c.arr("$stream.content"), s)


def pos(c, s):
    return z3.Select(c.arr("$stream.pos"), s)


def only(sname):
    return lambda c0, a, r: r == a[sname].t


def num(v):
    return z3.If(is_VBool(v), z3.If(bval(v), 1, 0), ival(v))


def is_num(v):
    return z3.Or(is_VInt(v), is_VBool(v))


def int_range(n, signed):
    return (-(2 ** (8 * n - 1)), 2 ** (8 * n - 1) - 1) if signed else (0, 2 ** (8 * n) - 1)


def int_wire(B, n, signed, x):
    """B is the n-byte little-endian two's-complement representation of x"""
    u = z3.If(x < 0, x + 2 ** (8 * n), x) if signed else x
    return z3.And(z3.Length(B) == n, le_value(B, n) == u, *[z3.And(0 <= B[i], B[i] <= 255) for i in range(n)])


def int_read(B, n, signed):
    """value of the n-byte little-endian two's-complement string B"""
    u = le_value(B, n)
    return z3.If(u >= 2 ** (8 * n - 1), u - 2 ** (8 * n), u) if signed else u


def appended(c0, c1, s):
    old, new = content(c0, s), content(c1, s)
    return z3.SubSeq(new, z3.Length(old), z3.Length(new) - z3.Length(old))


def append_pre(c, s):
    return {"append_position": pos(c, s) == z3.Length(content(c, s)), "stream_alive": z3.Select(c.arr("$alive"), s)}


def bytes_ok(B):
    i = fresh("i", Int)
    return z3.ForAll([i], z3.Implies(z3.And(0 <= i, i < z3.Length(B)), z3.And(0 <= B[i], B[i] <= 255)))


def read_pre(c, s, need):
    rest = z3.Length(content(c, s)) - pos(c, s)
    return {"position_in_range": z3.And(0 <= pos(c, s), pos(c, s) <= z3.Length(content(c, s))),
            "bytes_are_bytes": bytes_ok(content(c, s)), "enough_bytes_remain": rest >= need}


def nxt(c, s, off, n):
    return z3.SubSeq(content(c, s), pos(c, s) + off, n)


NOSUB = "subtypes_given"


class CodecBase(IoContract):
    props = PROPS

    def no_subtypes(self, a):
        return is_VNone(to_val(a.subtypes))       # () : the empty tuple


class IntEncode(CodecBase):
    """n-byte little-endian two's complement; non-integers and subtypes are EncodeError, values outside the width
    OverflowError, and nothing is written then"""
    target = "serialization.py::IntegerCodec.encode"

    def __init__(self, cls):
        self.cls = cls
        self.variant = cls
        self.self_cls = cls
        self.n, self.signed = INT_CODECS[cls]
        self.params = {"out": "stream", "val": "val", "serialization": "val", "subtypes": "val"}
        self.modifies = {"$stream.content": only("out"), "$stream.pos": only("out")}
        super().__init__()

    def selects(self, self_cls, args, kwargs=None):
        return self_cls == self.cls

    def pre(self, c, a):
        return append_pre(c, a.out.t)

    def raises(self, c0, a):
        v = to_val(a.val)
        lo, hi = int_range(self.n, self.signed)
        ok_type = z3.And(is_num(v), self.no_subtypes(a))
        return {"EncodeError": z3.Not(ok_type), "OverflowError": z3.And(ok_type, z3.Not(z3.And(lo <= num(v), num(v) <= hi)))}

    def on_raise(self, c0, c1, a, exc_name):
        return {"nothing_written": content(c1, a.out.t) == content(c0, a.out.t)}

    def post(self, c0, c1, a, res):
        s = a.out.t
        B = appended(c0, c1, s)
        return {"prefix_kept": z3.SubSeq(content(c1, s), 0, z3.Length(content(c0, s))) == content(c0, s),
                "little_endian_twos_complement": int_wire(B, self.n, self.signed, num(to_val(a.val))),
                "position_at_end": pos(c1, s) == z3.Length(content(c1, s))}


class IntDecode(CodecBase):
    target = "serialization.py::IntegerCodec.decode"

    def __init__(self, cls):
        self.cls = cls
        self.variant = cls
        self.self_cls = cls
        self.n, self.signed = INT_CODECS[cls]
        self.params = {"raw_bytes": "stream", "serialization": "val", "subtypes": "val", "get_by_uuid": "val"}
        self.modifies = {"$stream.pos": only("raw_bytes")}
        self.result = "int"
        super().__init__()

    def selects(self, self_cls, args, kwargs=None):
        return self_cls == self.cls

    def pre(self, c, a):
        return read_pre(c, a.raw_bytes.t, self.n)

    def raises(self, c0, a):
        return {"DecodeError": z3.Not(self.no_subtypes(a))}

    def lemmas(self, c0, c1, a, res):
        s = a.raw_bytes.t
        B = nxt(c0, s, 0, self.n)
        C, p = content(c0, s), pos(c0, s)
        return {"byte%d" % i: z3.And(B[i] == C[p + i], 0 <= C[p + i], C[p + i] <= 255) for i in range(self.n)}

    def post(self, c0, c1, a, res):
        s = a.raw_bytes.t
        lo, hi = int_range(self.n, self.signed)
        return {"value_of_next_bytes": res.t == int_read(nxt(c0, s, 0, self.n), self.n, self.signed),
                "within_the_width": z3.And(lo <= res.t, res.t <= hi),
                "consumes_exactly_n": pos(c1, s) == pos(c0, s) + self.n}


class BoolEncode(CodecBase):
    target = "serialization.py::BoolCodec.encode"
    params = {"out": "stream", "val": "val", "serialization": "val", "subtypes": "val"}
    modifies = {"$stream.content": only("out"), "$stream.pos": only("out")}

    def pre(self, c, a):
        return append_pre(c, a.out.t)

    def raises(self, c0, a):
        return {"EncodeError": z3.Not(z3.And(is_VBool(to_val(a.val)), self.no_subtypes(a)))}

    def post(self, c0, c1, a, res):
        s = a.out.t
        return {"one_byte_0_or_1": content(c1, s) == z3.Concat(content(c0, s), z3.Unit(z3.If(bval(to_val(a.val)), z3.IntVal(1), z3.IntVal(0)))),
                "position_at_end": pos(c1, s) == z3.Length(content(c1, s))}


class BoolDecode(CodecBase):
    target = "serialization.py::BoolCodec.decode"
    params = {"raw_bytes": "stream", "serialization": "val", "subtypes": "val", "get_by_uuid": "val"}
    modifies = {"$stream.pos": only("raw_bytes")}
    result = "bool"

    def pre(self, c, a):
        return read_pre(c, a.raw_bytes.t, 1)

    def raises(self, c0, a):
        return {"DecodeError": z3.Not(self.no_subtypes(a))}

    def post(self, c0, c1, a, res):
        s = a.raw_bytes.t
        return {"false_iff_zero_byte": res.t == (content(c0, s)[pos(c0, s)] != 0),
                "consumes_one": pos(c1, s) == pos(c0, s) + 1}


class StringEncode(CodecBase):
    """uint64 count of UTF-8 *bytes*, then those bytes"""
    target = "serialization.py::StringCodec.encode"
    params = {"out": "stream", "val": "val", "serialization": "val", "subtypes": "val"}
    modifies = {"$stream.content": only("out"), "$stream.pos": only("out")}

    def pre(self, c, a):
        return dict(append_pre(c, a.out.t), **{"length_fits_uint64": z3.Implies(
            is_VStr(to_val(a.val)), z3.Length(utf8(sval(to_val(a.val)))) < 2 ** 64)})

    def raises(self, c0, a):
        return {"EncodeError": z3.Not(z3.And(is_VStr(to_val(a.val)), self.no_subtypes(a)))}

    def post(self, c0, c1, a, res):
        s = a.out.t
        B = appended(c0, c1, s)
        body = utf8(sval(to_val(a.val)))
        return {"prefix_kept": z3.SubSeq(content(c1, s), 0, z3.Length(content(c0, s))) == content(c0, s),
                "count_of_utf8_bytes": int_wire(z3.SubSeq(B, 0, 8), 8, False, z3.Length(body)),
                "then_the_utf8_bytes": z3.And(z3.Length(B) == 8 + z3.Length(body), z3.SubSeq(B, 8, z3.Length(body)) == body),
                "position_at_end": pos(c1, s) == z3.Length(content(c1, s))}


class StringDecode(CodecBase):
    target = "serialization.py::StringCodec.decode"
    params = {"raw_bytes": "stream", "serialization": "val", "subtypes": "val", "get_by_uuid": "val"}
    modifies = {"$stream.pos": only("raw_bytes")}
    result = "val"

    def _n(self, c, s):
        return int_read(nxt(c, s, 0, 8), 8, False)

    def pre(self, c, a):
        s = a.raw_bytes.t
        out = read_pre(c, s, 8)
        out["body_present"] = z3.Length(content(c, s)) - pos(c, s) >= 8 + self._n(c, s)
        return out

    def raises(self, c0, a):
        s = a.raw_bytes.t
        return {"DecodeError": z3.Not(self.no_subtypes(a)),
                "UnicodeDecodeError": z3.And(self.no_subtypes(a), z3.Not(utf8ok(nxt(c0, s, 8, self._n(c0, s)))))}

    def post(self, c0, c1, a, res):
        s = a.raw_bytes.t
        n = self._n(c0, s)
        return {"text_of_the_counted_bytes": to_val(res) == VStr(utf8inv(nxt(c0, s, 8, n))),
                "consumes_count_plus_8": pos(c1, s) == pos(c0, s) + 8 + n}


class UuidEncode(CodecBase):
    """16 raw bytes: of the UUID, or of the node's UUID"""
    target = "serialization.py::UUIDCodec.encode"
    params = {"out": "stream", "val": "val", "serialization": "val", "subtypes": "val"}
    modifies = {"$stream.content": only("out"), "$stream.pos": only("out")}

    def pre(self, c, a):
        v = to_val(a.val)
        return dict(append_pre(c, a.out.t), **{"node_uuid_typed": z3.Implies(
            z3.And(is_VRef(v), c.isinst(ref(v), "Node")), is_VUuid(c.get("uuid", ref(v))))})

    def _isnode(self, c0, v):
        return z3.And(is_VRef(v), c0.isinst(ref(v), "Node"))

    def raises(self, c0, a):
        v = to_val(a.val)
        return {"EncodeError": z3.Not(z3.And(self.no_subtypes(a), z3.Or(self._isnode(c0, v), is_VUuid(v))))}

    def post(self, c0, c1, a, res):
        s = a.out.t
        v = to_val(a.val)
        u = z3.If(self._isnode(c0, v), uval(c0.get("uuid", ref(v))), uval(v))
        return {"sixteen_raw_bytes": content(c1, s) == z3.Concat(content(c0, s), u2b(u)),
                "position_at_end": pos(c1, s) == z3.Length(content(c1, s))}


def register(reg):
    for cls in INT_CODECS:
        reg.add(IntEncode(cls))
        reg.add(IntDecode(cls))
    for c in (BoolEncode(), BoolDecode(), StringEncode(), StringDecode(), UuidEncode()):
        reg.add(c)


from contracts.pbleaves import table, lookup, table_typed, INL      # noqa: E402


class UuidDecode(CodecBase):
    """the next 16 bytes as a UUID; with a resolver, the node the table holds for it (identity), else the plain UUID"""
    target = "serialization.py::UUIDCodec.decode"
    props = PROPS + ("C09",)
    inline_callees = INL
    modifies = {"$stream.pos": only("raw_bytes")}
    result = "val"

    def __init__(self, with_resolver):
        self.with_resolver = with_resolver
        self.variant = "resolver" if with_resolver else "no_resolver"
        self.params = {"raw_bytes": "stream", "serialization": "val", "subtypes": "val",
                       "get_by_uuid": "val" if with_resolver else "none"}
        super().__init__()

    def selects(self, self_cls, args, kwargs=None):
        g = (kwargs or {}).get("get_by_uuid")
        has = g is not None and g.k == "boundmethod"
        if g is not None and g.k not in ("boundmethod", "none"):
            return False
        return has == self.with_resolver

    def make_value(self, eng, st, name, spec):
        if name == "get_by_uuid" and self.with_resolver:
            ci = eng.prog.classes["IR"]
            return SV("boundmethod", x=(SV("ref", fresh("ir", Int), cls="IR"), ci.lookup("get_by_uuid"), ci))
        return super().make_value(eng, st, name, spec)

    def pre(self, c, a):
        out = read_pre(c, a.raw_bytes.t, 16)
        if self.with_resolver:
            ir = a.get_by_uuid.x[0].t
            out["table_typed"] = table_typed(c, ir)
            out["is_ir"] = c.isinst(ir, "IR")
        return out

    def raises(self, c0, a):
        return {"DecodeError": z3.Not(self.no_subtypes(a))}

    def post(self, c0, c1, a, res):
        s = a.raw_bytes.t
        u = VUuid(b2u(nxt(c0, s, 0, 16)))
        out = {"consumes_16": pos(c1, s) == pos(c0, s) + 16}
        if self.with_resolver:
            hit = lookup(c0, a.get_by_uuid.x[0].t, u)
            out["attached_node_itself_or_plain_uuid"] = to_val(res) == z3.If(is_VNone(hit), u, hit)
        else:
            out["plain_uuid"] = to_val(res) == u
        return out


class OffsetEncode(CodecBase):
    """Offset = the element's 16 UUID bytes, then the displacement as uint64"""
    target = "serialization.py::OffsetCodec.encode"
    params = {"out": "stream", "val": "val", "serialization": "val", "subtypes": "val"}
    modifies = {"$stream.content": only("out"), "$stream.pos": only("out")}

    def _is_offset(self, v):
        # Offset(element_id, displacement) namedtuple value
        return z3.And(Val.is_VPair(v), Val.is_VPair(snd(v)), is_VNone(snd(snd(v))))

    def make_value(self, eng, st, name, spec):
        if name == "val":
            # an Offset (the EncodeError for other values is checked by the bounded stand-in: a dynamically typed value
            # cannot carry "is an Offset" in this value model)
            return SV("tuple", x=[SV("val", fresh("element_id", Val)), SV("val", fresh("displacement", Val))], cls="Offset")
        return super().make_value(eng, st, name, spec)

    def pre(self, c, a):
        el = to_val(a.val.x[0])
        return dict(append_pre(c, a.out.t), **{"node_uuid_typed": z3.Implies(
            z3.And(is_VRef(el), c.isinst(ref(el), "Node")), is_VUuid(c.get("uuid", ref(el))))})

    def _parts(self, c0, a):
        el, d = to_val(a.val.x[0]), to_val(a.val.x[1])
        isnode = z3.And(is_VRef(el), c0.isinst(ref(el), "Node"))
        return el, d, isnode

    def raises(self, c0, a):
        el, d, isnode = self._parts(c0, a)
        el_ok = z3.Or(isnode, is_VUuid(el))
        return {"EncodeError": z3.Or(z3.Not(self.no_subtypes(a)), z3.Not(el_ok), z3.And(el_ok, z3.Not(is_num(d)))),
                "OverflowError": z3.And(self.no_subtypes(a), el_ok, is_num(d), z3.Not(z3.And(0 <= num(d), num(d) < 2 ** 64)))}

    def post(self, c0, c1, a, res):
        s = a.out.t
        el, d, isnode = self._parts(c0, a)
        u = z3.If(isnode, uval(c0.get("uuid", ref(el))), uval(el))
        B = appended(c0, c1, s)
        return {"prefix_kept": z3.SubSeq(content(c1, s), 0, z3.Length(content(c0, s))) == content(c0, s),
                "uuid_then_uint64": z3.And(z3.Length(B) == 24, z3.SubSeq(B, 0, 16) == u2b(u),
                                           int_wire(z3.SubSeq(B, 16, 8), 8, False, num(d))),
                "position_at_end": pos(c1, s) == z3.Length(content(c1, s))}


class OffsetDecode(CodecBase):
    target = "serialization.py::OffsetCodec.decode"
    props = PROPS + ("C09",)
    inline_callees = INL
    modifies = {"$stream.pos": only("raw_bytes")}

    def __init__(self, with_resolver):
        self.with_resolver = with_resolver
        self.variant = "resolver" if with_resolver else "no_resolver"
        self.params = {"raw_bytes": "stream", "serialization": "val", "subtypes": "val",
                       "get_by_uuid": "val" if with_resolver else "none"}
        super().__init__()

    def make_value(self, eng, st, name, spec):
        if name == "get_by_uuid" and self.with_resolver:
            ci = eng.prog.classes["IR"]
            return SV("boundmethod", x=(SV("ref", fresh("ir", Int), cls="IR"), ci.lookup("get_by_uuid"), ci))
        return super().make_value(eng, st, name, spec)

    def pre(self, c, a):
        out = read_pre(c, a.raw_bytes.t, 24)
        if self.with_resolver:
            ir = a.get_by_uuid.x[0].t
            out["table_typed"] = table_typed(c, ir)
            out["is_ir"] = c.isinst(ir, "IR")
        return out

    def raises(self, c0, a):
        return {"DecodeError": z3.Not(self.no_subtypes(a))}

    def post(self, c0, c1, a, res):
        s = a.raw_bytes.t
        if res.k != "tuple" or res.cls != "Offset":
            return {"result_is_an_Offset": z3.BoolVal(False)}
        u = VUuid(b2u(nxt(c0, s, 0, 16)))
        el = u
        if self.with_resolver:
            hit = lookup(c0, a.get_by_uuid.x[0].t, u)
            el = z3.If(is_VNone(hit), u, hit)
        return {"element_is_node_or_uuid": to_val(res.x[0]) == el,
                "displacement": to_val(res.x[1]) == VInt(int_read(nxt(c0, s, 16, 8), 8, False)),
                "consumes_24": pos(c1, s) == pos(c0, s) + 24}


_reg0 = register


def register(reg):      # noqa: F811
    _reg0(reg)
    for c in (UuidDecode(True), UuidDecode(False), OffsetEncode(), OffsetDecode(True), OffsetDecode(False)):
        reg.add(c)


from contracts.auxdata import enc_exc, enc_tree, dec_exc, dec_tree, dec_len      # noqa: E402


class VariantDecode(CodecBase):
    """variant: a uint64 alternative index, then that alternative decoded with the *same resolver*"""
    target = "serialization.py::VariantCodec.decode"
    props = PROPS + ("C09",)
    lemmas_on_raise = True
    params = {"raw_bytes": "stream", "serialization": "ref:Serialization", "subtypes": "list", "get_by_uuid": "val"}
    modifies = {"$stream.pos": only("raw_bytes"), "$alive": lambda c0, a, r: z3.Not(z3.Select(c0.arr("$alive"), r)),
                "$kind": lambda c0, a, r: z3.Not(z3.Select(c0.arr("$alive"), r)),
                "index": lambda c0, a, r: z3.Not(z3.Select(c0.arr("$alive"), r)),
                "val": lambda c0, a, r: z3.Not(z3.Select(c0.arr("$alive"), r))}
    result = "ref:Variant"

    def pre(self, c, a):
        return read_pre(c, a.raw_bytes.t, 8)

    def _p(self, c0, a):
        s = a.raw_bytes.t
        idx = int_read(nxt(c0, s, 0, 8), 8, False)
        rest = z3.SubSeq(content(c0, s), pos(c0, s) + 8, z3.Length(content(c0, s)) - pos(c0, s) - 8)
        tree = z3.Select(a.subtypes.t, idx)
        return idx, rest, tree, to_val(a.get_by_uuid)

    def raises(self, c0, a):
        idx, rest, tree, g = self._p(c0, a)
        inr = idx < a.subtypes.x
        return {"UnknownCodecError": z3.And(inr, dec_exc(rest, tree, g) == 1),
                "Exception": z3.And(inr, dec_exc(rest, tree, g) != 0, dec_exc(rest, tree, g) != 1)}

    def may_raise(self, c0, a):
        idx, rest, tree, g = self._p(c0, a)
        # an index that names no alternative: IndexError today; a DecodeError would be as good
        return {"IndexError": idx >= a.subtypes.x, "DecodeError": idx >= a.subtypes.x}

    def lemmas(self, c0, c1, a, res):
        s = a.raw_bytes.t
        B = nxt(c0, s, 0, 8)
        C, p = content(c0, s), pos(c0, s)
        return {"byte%d" % i: z3.And(B[i] == C[p + i], 0 <= C[p + i], C[p + i] <= 255) for i in range(8)}

    def post(self, c0, c1, a, res):
        idx, rest, tree, g = self._p(c0, a)
        s = a.raw_bytes.t
        v = res.t
        return {"in_range": idx < a.subtypes.x,
                "index": c1.get("index", v) == VInt(idx),
                "value_decoded_as_that_alternative_with_the_same_resolver": c1.get("val", v) == dec_tree(rest, tree, g),
                "consumes_8_plus_alternative": pos(c1, s) == pos(c0, s) + 8 + dec_len(rest, tree, g)}


class VariantEncode(CodecBase):
    target = "serialization.py::VariantCodec.encode"
    params = {"out": "stream", "variant": "val", "serialization": "ref:Serialization", "subtypes": "list"}
    modifies = {"$stream.content": only("out"), "$stream.pos": only("out")}

    def pre(self, c, a):
        v, isv, idx, val = self._p(c, a)
        return dict(append_pre(c, a.out.t), **{"variant_index_is_an_int": z3.Implies(isv, is_VInt(idx))})

    def _p(self, c0, a):
        v = to_val(a.variant)
        isv = z3.And(is_VRef(v), c0.kind(ref(v)) == c0.eng.schema.class_id("Variant"))
        idx = c0.get("index", ref(v))
        return v, isv, idx, c0.get("val", ref(v))

    def pre2(self, c0, a):
        return {}

    def raises(self, c0, a):
        v, isv, idx, val = self._p(c0, a)
        okidx = z3.And(is_num(idx), 0 <= num(idx), num(idx) < 2 ** 64)
        inr = z3.And(okidx, num(idx) < a.subtypes.x)
        tree = z3.Select(a.subtypes.t, num(idx))
        e = enc_exc(val, tree)
        return {"EncodeError": z3.Not(isv), "OverflowError": z3.And(isv, is_num(idx), z3.Not(okidx)),
                "UnknownCodecError": z3.And(isv, inr, e == 1), "Exception": z3.And(isv, inr, e != 0, e != 1)}

    def may_raise(self, c0, a):
        v, isv, idx, val = self._p(c0, a)
        return {"IndexError": z3.And(isv, is_num(idx), num(idx) >= a.subtypes.x)}

    def post(self, c0, c1, a, res):
        v, isv, idx, val = self._p(c0, a)
        s = a.out.t
        B = appended(c0, c1, s)
        tree = z3.Select(a.subtypes.t, num(idx))
        body = enc_tree(val, tree)
        return {"prefix_kept": z3.SubSeq(content(c1, s), 0, z3.Length(content(c0, s))) == content(c0, s),
                "index_as_uint64": int_wire(z3.SubSeq(B, 0, 8), 8, False, num(idx)),
                "then_that_alternative": z3.And(z3.Length(B) == 8 + z3.Length(body), z3.SubSeq(B, 8, z3.Length(body)) == body)}


_reg1 = register


def register(reg):      # noqa: F811
    _reg1(reg)
    reg.add(VariantDecode())
    reg.add(VariantEncode())


# ------------------------------------------------------------------------------------------- sequence<T>
from pyvc.contracts import LoopSpec      # noqa: E402

VSeq = z3.SeqSort(Val)
enc_all = z3.Function("enc_all", VSeq, Val, BSeq)      # concatenation of the element encodings, in order


def enc_all_axioms():
    p = z3.Const("ep", VSeq)
    x = z3.Const("ex", Val)
    t = z3.Const("et", Val)
    return [z3.ForAll([t], enc_all(z3.Empty(VSeq), t) == z3.Empty(BSeq)),
            z3.ForAll([p, x, t], enc_all(z3.Concat(p, z3.Unit(x)), t) == z3.Concat(enc_all(p, t), enc_tree(x, t)),
                      patterns=[enc_all(z3.Concat(p, z3.Unit(x)), t)])]


class SequenceEncode(CodecBase):
    """sequence<T>: a uint64 element count, then the elements in order, each through the tree codec of T"""
    target = "serialization.py::SequenceCodec.encode"
    seq_param = "sequence"
    params = {"out": "stream", "sequence": "seq", "serialization": "ref:Serialization", "subtypes": "val"}
    modifies = {"$stream.content": only("out"), "$stream.pos": only("out")}

    def axioms(self, eng):
        return super().axioms(eng) + enc_all_axioms()

    def _es(self, a):
        return a[self.seq_param].t

    def pre(self, c, a):
        return dict(append_pre(c, a.out.t), **{"count_fits_uint64": z3.Length(self._es(a)) < 2 ** 64,
                                              "one_subtype": z3.And(Val.is_VPair(to_val(a.subtypes)), is_VNone(snd(to_val(a.subtypes))))})

    def _sub(self, a):
        return fst(to_val(a.subtypes))

    def may_raise(self, c0, a):
        i = fresh("i", Int)
        es, t = self._es(a), self._sub(a)
        bad = lambda code: z3.Exists([i], z3.And(0 <= i, i < z3.Length(es), code(enc_exc(es[i], t))))
        return {"UnknownCodecError": bad(lambda e: e == 1), "Exception": bad(lambda e: z3.And(e != 0, e != 1))}

    def post(self, c0, c1, a, res):
        s = a.out.t
        es, t = self._es(a), self._sub(a)
        B = appended(c0, c1, s)
        i = fresh("i", Int)
        return {"prefix_kept": z3.SubSeq(content(c1, s), 0, z3.Length(content(c0, s))) == content(c0, s),
                "count_as_uint64": int_wire(z3.SubSeq(B, 0, 8), 8, False, z3.Length(es)),
                "then_the_elements_in_order": z3.SubSeq(B, 8, z3.Length(B) - 8) == enc_all(es, t),
                "every_element_encodable": z3.ForAll([i], z3.Implies(z3.And(0 <= i, i < z3.Length(es)), enc_exc(es[i], t) == 0))}


class SetEncode(SequenceEncode):
    """set<T>: a uint64 element count, then every element through the tree codec of T, in the order in which the collection
    is iterated.  The collection is represented by its iteration sequence (ghost): `len(items)` is the length of that
    sequence and `for item in items` walks it - for a Python set a duplicate-free enumeration of its members in an order
    the language does not fix.  That a set's iteration enumerates each member exactly once is Python's, not proved here."""
    target = "serialization.py::SetCodec.encode"
    seq_param = "items"
    params = {"out": "stream", "items": "seq", "serialization": "ref:Serialization", "subtypes": "val"}
    assumptions = ("SetCodec.encode: the collection argument is represented by its iteration sequence; len(items) equals the "
                   "number of elements iterated (true of set, frozenset, list, tuple, dict views); the order is arbitrary",)


def _mk_seq_enc_inv(seq_param):
    def _seq_enc_inv(L):
        c0, a, cur = L.c0, L.a, L.c
        s = a.out.t
        es, t = a[seq_param].t, fst(to_val(a.subtypes))
        old, new = content(c0, s), content(cur, s)
        B = z3.SubSeq(new, z3.Length(old), z3.Length(new) - z3.Length(old))
        i = fresh("i", Int)
        r_ = fresh("r", Int)
        return {"prefix_kept": z3.SubSeq(new, 0, z3.Length(old)) == old,
                "count_written": int_wire(z3.SubSeq(B, 0, 8), 8, False, z3.Length(es)),
                "elements_so_far": z3.And(z3.Length(B) >= 8, z3.SubSeq(B, 8, z3.Length(B) - 8) == enc_all(z3.Extract(es, 0, L.k), t)),
                "at_end": pos(cur, s) == z3.Length(new),
                "other_streams_untouched": z3.ForAll([r_], z3.Implies(r_ != s, z3.And(content(cur, r_) == content(c0, r_),
                                                                                      pos(cur, r_) == pos(c0, r_)))),
                "encodable_so_far": z3.ForAll([i], z3.Implies(z3.And(0 <= i, i < L.k), enc_exc(es[i], t) == 0))}
    return _seq_enc_inv


def _mk_seq_enc_lemmas(seq_param):
    def _seq_enc_lemmas(L):
        a = L.a
        es, t = a[seq_param].t, fst(to_val(a.subtypes))
        k = L.k
        return [z3.Implies(z3.And(0 <= k, k < z3.Length(es)),
                           enc_all(z3.Extract(es, 0, k + 1), t) == z3.Concat(enc_all(z3.Extract(es, 0, k), t), enc_tree(es[k], t)))]
    return _seq_enc_lemmas


_seq_enc_inv = _mk_seq_enc_inv("sequence")
_seq_enc_lemmas = _mk_seq_enc_lemmas("sequence")


def Ctx_of(L):
    from pyvc.contracts import Ctx
    return Ctx(L.eng, dict(L.st.heap))


_reg2 = register


def register(reg):      # noqa: F811
    _reg2(reg)
    reg.add(SequenceEncode())
    reg.add_loop("serialization.py::SequenceCodec.encode", 0, LoopSpec(_seq_enc_inv, modifies=("$stream.content", "$stream.pos"), lemmas=_seq_enc_lemmas))
    reg.add(SetEncode())
    reg.add_loop("serialization.py::SetCodec.encode", 0, LoopSpec(_mk_seq_enc_inv("items"), modifies=("$stream.content", "$stream.pos"),
                                                                 lemmas=_mk_seq_enc_lemmas("items")))


dec_pos = z3.Function("dec_pos", BSeq, Val, Val, Int, Int, Int)   # stream position after the first k elements of a run of T starting at p0


def rest(C, p):
    return z3.SubSeq(C, p, z3.Length(C) - p)


def dec_pos_axioms():
    C, t, g, p0, k = z3.Const("dC", BSeq), z3.Const("dt", Val), z3.Const("dg", Val), z3.Const("dp", Int), z3.Const("dk", Int)
    return [z3.ForAll([C, t, g, p0], dec_pos(C, t, g, p0, 0) == p0, patterns=[dec_pos(C, t, g, p0, 0)]),
            z3.ForAll([C, t, g, p0, k], z3.Implies(k >= 0, dec_pos(C, t, g, p0, k + 1) ==
                                                   dec_pos(C, t, g, p0, k) + dec_len(rest(C, dec_pos(C, t, g, p0, k)), t, g)),
                      patterns=[dec_pos(C, t, g, p0, k + 1)])]


def elem_at(C, t, g, p0, i):
    return dec_tree(rest(C, dec_pos(C, t, g, p0, i)), t, g)


def elem_exc(C, t, g, p0, i):
    return dec_exc(rest(C, dec_pos(C, t, g, p0, i)), t, g)


class SequenceDecode(CodecBase):
    """sequence<T>: reads the uint64 count n, then n elements one after the other (each from where the previous one
    ended) with the tree codec of T and the same resolver; the result is the list of those n values in order"""
    target = "serialization.py::SequenceCodec.decode"
    props = PROPS + ("C09",)
    lemmas_on_raise = True
    params = {"raw_bytes": "stream", "serialization": "ref:Serialization", "subtypes": "val", "get_by_uuid": "val"}
    modifies = {"$stream.pos": only("raw_bytes")}

    def axioms(self, eng):
        return super().axioms(eng) + dec_pos_axioms()

    def pre(self, c, a):
        return dict(read_pre(c, a.raw_bytes.t, 8), **{"one_subtype": z3.And(Val.is_VPair(to_val(a.subtypes)),
                                                                            is_VNone(snd(to_val(a.subtypes))))})

    def _p(self, c0, a):
        s = a.raw_bytes.t
        n = int_read(nxt(c0, s, 0, 8), 8, False)
        return s, n, content(c0, s), pos(c0, s) + 8, fst(to_val(a.subtypes)), to_val(a.get_by_uuid)

    def may_raise(self, c0, a):
        s, n, C, p0, t, g = self._p(c0, a)
        i = fresh("i", Int)
        bad = lambda code: z3.Exists([i], z3.And(0 <= i, i < n, code(elem_exc(C, t, g, p0, i))))
        return {"UnknownCodecError": bad(lambda e: e == 1), "Exception": bad(lambda e: z3.And(e != 0, e != 1))}

    def lemmas(self, c0, c1, a, res):
        s = a.raw_bytes.t
        B = nxt(c0, s, 0, 8)
        C, p = content(c0, s), pos(c0, s)
        return {"byte%d" % i: z3.And(B[i] == C[p + i], 0 <= C[p + i], C[p + i] <= 255) for i in range(8)}

    def post(self, c0, c1, a, res):
        s, n, C, p0, t, g = self._p(c0, a)
        if res.k != "list":
            return {"result_is_a_list": z3.BoolVal(False)}
        i = fresh("i", Int)
        return {"length_is_the_count": res.x == n,
                "elements_in_order": z3.ForAll([i], z3.Implies(z3.And(0 <= i, i < n), z3.Select(res.t, i) == elem_at(C, t, g, p0, i))),
                "consumes_count_and_elements": pos(c1, s) == dec_pos(C, t, g, p0, n)}


def _seq_dec_inv(L):
    c0, a, cur = L.c0, L.a, L.c
    s = a.raw_bytes.t
    C, p0 = content(c0, s), pos(c0, s) + 8
    t, g = fst(to_val(a.subtypes)), to_val(a.get_by_uuid)
    lst = L.env["sequence"]
    i = fresh("i", Int)
    r_ = fresh("r", Int)
    return {"position": pos(cur, s) == dec_pos(C, t, g, p0, L.k),
            "length": lst.x == L.k,
            "elements": z3.ForAll([i], z3.Implies(z3.And(0 <= i, i < L.k), z3.Select(lst.t, i) == elem_at(C, t, g, p0, i))),
            "no_failure_so_far": z3.ForAll([i], z3.Implies(z3.And(0 <= i, i < L.k), elem_exc(C, t, g, p0, i) == 0)),
            "content_unchanged": content(cur, s) == C,
            "other_streams_untouched": z3.ForAll([r_], z3.Implies(r_ != s, pos(cur, r_) == pos(c0, r_)))}


_reg3 = register


def register(reg):      # noqa: F811
    _reg3(reg)
    reg.add(SequenceDecode())
    reg.add_loop("serialization.py::SequenceCodec.decode", 0,
                 LoopSpec(_seq_dec_inv, modifies=("$stream.pos",), carried={"sequence": "list"}))


class SetDecode(CodecBase):
    """set<T>: the uint64 count n, then n elements decoded one after the other; the result is the set of those values
    (a repeated element is legal on the wire and simply collapses)"""
    target = "serialization.py::SetCodec.decode"
    props = PROPS + ("C09",)
    lemmas_on_raise = True
    params = {"raw_bytes": "stream", "serialization": "ref:Serialization", "subtypes": "val", "get_by_uuid": "val"}
    modifies = {"$stream.pos": only("raw_bytes")}

    def axioms(self, eng):
        return super().axioms(eng) + dec_pos_axioms()

    pre = SequenceDecode.pre
    _p = SequenceDecode._p
    may_raise = SequenceDecode.may_raise
    lemmas = SequenceDecode.lemmas

    def post(self, c0, c1, a, res):
        s, n, C, p0, t, g = self._p(c0, a)
        if res.k != "set":
            return {"result_is_a_set": z3.BoolVal(False)}
        i = fresh("i", Int)
        x = fresh("x", Val)
        return {"exactly_the_decoded_elements": z3.ForAll([x], z3.Select(res.t, x) == z3.Exists(
                    [i], z3.And(0 <= i, i < n, x == elem_at(C, t, g, p0, i)))),
                "consumes_count_and_elements": pos(c1, s) == dec_pos(C, t, g, p0, n)}


def _set_dec_inv(L):
    c0, a, cur = L.c0, L.a, L.c
    s = a.raw_bytes.t
    C, p0 = content(c0, s), pos(c0, s) + 8
    t, g = fst(to_val(a.subtypes)), to_val(a.get_by_uuid)
    st_ = L.env["decoded_set"]
    i = fresh("i", Int)
    x = fresh("x", Val)
    r_ = fresh("r", Int)
    return {"position": pos(cur, s) == dec_pos(C, t, g, p0, L.k),
            "elements": z3.ForAll([x], z3.Select(st_.t, x) == z3.Exists([i], z3.And(0 <= i, i < L.k, x == elem_at(C, t, g, p0, i)))),
            "no_failure_so_far": z3.ForAll([i], z3.Implies(z3.And(0 <= i, i < L.k), elem_exc(C, t, g, p0, i) == 0)),
            "content_unchanged": content(cur, s) == C,
            "other_streams_untouched": z3.ForAll([r_], z3.Implies(r_ != s, pos(cur, r_) == pos(c0, r_)))}


_reg4 = register


def register(reg):      # noqa: F811
    _reg4(reg)
    reg.add(SetDecode())
    reg.add_loop("serialization.py::SetCodec.decode", 0,
                 LoopSpec(_set_dec_inv, modifies=("$stream.pos",), carried={"decoded_set": "set"}))


tpos = z3.Function("tuple_pos", BSeq, VSeq, Val, Int, Int, Int)    # stream position after the first k fields of a tuple


def tpos_axioms():
    C, ts, g, p0, k = z3.Const("tC", BSeq), z3.Const("tt", VSeq), z3.Const("tg", Val), z3.Const("tp", Int), z3.Const("tk", Int)
    return [z3.ForAll([C, ts, g, p0], tpos(C, ts, g, p0, 0) == p0, patterns=[tpos(C, ts, g, p0, 0)]),
            z3.ForAll([C, ts, g, p0, k], z3.Implies(k >= 0, tpos(C, ts, g, p0, k + 1) ==
                                                    tpos(C, ts, g, p0, k) + dec_len(rest(C, tpos(C, ts, g, p0, k)), ts[k], g)),
                      patterns=[tpos(C, ts, g, p0, k + 1)])]


def field_at(C, ts, g, p0, i):
    return dec_tree(rest(C, tpos(C, ts, g, p0, i)), ts[i], g)


def field_exc(C, ts, g, p0, i):
    return dec_exc(rest(C, tpos(C, ts, g, p0, i)), ts[i], g)


class TupleDecode(CodecBase):
    """tuple<T1,...,Tn>: the fields in order, field i decoded as Ti from where field i-1 ended, with the same resolver"""
    target = "serialization.py::TupleCodec.decode"
    props = PROPS + ("C09",)
    params = {"raw_bytes": "stream", "serialization": "ref:Serialization", "subtypes": "seq", "get_by_uuid": "val"}
    modifies = {"$stream.pos": only("raw_bytes")}

    def axioms(self, eng):
        return super().axioms(eng) + tpos_axioms()

    def pre(self, c, a):
        s = a.raw_bytes.t
        return {"position_in_range": z3.And(0 <= pos(c, s), pos(c, s) <= z3.Length(content(c, s)))}

    def _p(self, c0, a):
        s = a.raw_bytes.t
        return s, content(c0, s), pos(c0, s), a.subtypes.t, to_val(a.get_by_uuid)

    def may_raise(self, c0, a):
        s, C, p0, ts, g = self._p(c0, a)
        i = fresh("i", Int)
        bad = lambda code: z3.Exists([i], z3.And(0 <= i, i < z3.Length(ts), code(field_exc(C, ts, g, p0, i))))
        return {"UnknownCodecError": bad(lambda e: e == 1), "Exception": bad(lambda e: z3.And(e != 0, e != 1))}

    def post(self, c0, c1, a, res):
        s, C, p0, ts, g = self._p(c0, a)
        if res.k != "list" or res.cls != "tuple":
            return {"result_is_a_tuple": z3.BoolVal(False)}
        i = fresh("i", Int)
        return {"one_field_per_subtype": res.x == z3.Length(ts),
                "fields_in_order": z3.ForAll([i], z3.Implies(z3.And(0 <= i, i < z3.Length(ts)),
                                                             z3.Select(res.t, i) == field_at(C, ts, g, p0, i))),
                "consumes_the_fields": pos(c1, s) == tpos(C, ts, g, p0, z3.Length(ts))}


def _tuple_dec_inv(L):
    c0, a, cur = L.c0, L.a, L.c
    s = a.raw_bytes.t
    C, p0, ts, g = content(c0, s), pos(c0, s), a.subtypes.t, to_val(a.get_by_uuid)
    lst = L.env["decoded_list"]
    i = fresh("i", Int)
    r_ = fresh("r", Int)
    return {"position": pos(cur, s) == tpos(C, ts, g, p0, L.k),
            "length": lst.x == L.k,
            "fields": z3.ForAll([i], z3.Implies(z3.And(0 <= i, i < L.k), z3.Select(lst.t, i) == field_at(C, ts, g, p0, i))),
            "no_failure_so_far": z3.ForAll([i], z3.Implies(z3.And(0 <= i, i < L.k), field_exc(C, ts, g, p0, i) == 0)),
            "content_unchanged": content(cur, s) == C,
            "other_streams_untouched": z3.ForAll([r_], z3.Implies(r_ != s, pos(cur, r_) == pos(c0, r_)))}


_reg5 = register


def register(reg):      # noqa: F811
    _reg5(reg)
    reg.add(TupleDecode())
    reg.add_loop("serialization.py::TupleCodec.decode", 0,
                 LoopSpec(_tuple_dec_inv, modifies=("$stream.pos",), carried={"decoded_list": "list"}))


kvpos = z3.Function("mapping_pos", BSeq, Val, Val, Val, Int, Int, Int)   # position after the first k (key, value) pairs


def key_len(C, kt, vt, g, p0, i):
    return dec_len(rest(C, kvpos(C, kt, vt, g, p0, i)), kt, g)


def kvpos_axioms():
    C, kt, vt, g = z3.Const("mC", BSeq), z3.Const("mk", Val), z3.Const("mv", Val), z3.Const("mg", Val)
    p0, k = z3.Const("mp", Int), z3.Const("mi", Int)
    here = kvpos(C, kt, vt, g, p0, k)
    kl = dec_len(rest(C, here), kt, g)
    return [z3.ForAll([C, kt, vt, g, p0], kvpos(C, kt, vt, g, p0, 0) == p0, patterns=[kvpos(C, kt, vt, g, p0, 0)]),
            z3.ForAll([C, kt, vt, g, p0, k], z3.Implies(k >= 0, kvpos(C, kt, vt, g, p0, k + 1) ==
                                                        here + kl + dec_len(rest(C, here + kl), vt, g)),
                      patterns=[kvpos(C, kt, vt, g, p0, k + 1)])]


def key_at(C, kt, vt, g, p0, i):
    return dec_tree(rest(C, kvpos(C, kt, vt, g, p0, i)), kt, g)


def val_at(C, kt, vt, g, p0, i):
    return dec_tree(rest(C, kvpos(C, kt, vt, g, p0, i) + key_len(C, kt, vt, g, p0, i)), vt, g)


def kv_exc_free(C, kt, vt, g, p0, i):
    return z3.And(dec_exc(rest(C, kvpos(C, kt, vt, g, p0, i)), kt, g) == 0,
                  dec_exc(rest(C, kvpos(C, kt, vt, g, p0, i) + key_len(C, kt, vt, g, p0, i)), vt, g) == 0)


def _mapping_view(dom, mp, C, kt, vt, g, p0, k):
    """the dict built from the first k pairs: keys are the decoded keys, a key decoded several times keeps its last value"""
    i, j = fresh("i", Int), fresh("j", Int)
    x = fresh("x", Val)
    return {"keys": z3.ForAll([x], z3.Select(dom, x) == z3.Exists([i], z3.And(0 <= i, i < k, x == key_at(C, kt, vt, g, p0, i)))),
            "last_value_wins": z3.ForAll([i], z3.Implies(
                z3.And(0 <= i, i < k, z3.ForAll([j], z3.Implies(z3.And(i < j, j < k),
                                                                key_at(C, kt, vt, g, p0, j) != key_at(C, kt, vt, g, p0, i)))),
                z3.Select(mp, key_at(C, kt, vt, g, p0, i)) == val_at(C, kt, vt, g, p0, i)))}


class MappingDecode(CodecBase):
    """mapping<K,V>: the uint64 count n, then n times a key (as K) followed by its value (as V), all with the same
    resolver; the result maps each decoded key to the value of its last occurrence"""
    target = "serialization.py::MappingCodec.decode"
    props = PROPS + ("C09",)
    lemmas_on_raise = True
    params = {"raw_bytes": "stream", "serialization": "ref:Serialization", "subtypes": "val", "get_by_uuid": "val"}
    modifies = {"$stream.pos": only("raw_bytes")}

    def axioms(self, eng):
        return super().axioms(eng) + kvpos_axioms()

    def pre(self, c, a):
        st_ = to_val(a.subtypes)
        return dict(read_pre(c, a.raw_bytes.t, 8), **{"two_subtypes": z3.And(Val.is_VPair(st_), Val.is_VPair(snd(st_)),
                                                                             is_VNone(snd(snd(st_))))})

    def _p(self, c0, a):
        s = a.raw_bytes.t
        n = int_read(nxt(c0, s, 0, 8), 8, False)
        st_ = to_val(a.subtypes)
        return s, n, content(c0, s), pos(c0, s) + 8, fst(st_), fst(snd(st_)), to_val(a.get_by_uuid)

    def may_raise(self, c0, a):
        s, n, C, p0, kt, vt, g = self._p(c0, a)
        i = fresh("i", Int)
        bad = z3.Exists([i], z3.And(0 <= i, i < n, z3.Not(kv_exc_free(C, kt, vt, g, p0, i))))
        return {"Exception": bad}

    lemmas = SequenceDecode.lemmas

    def post(self, c0, c1, a, res):
        s, n, C, p0, kt, vt, g = self._p(c0, a)
        if res.k != "dict":
            return {"result_is_a_dict": z3.BoolVal(False)}
        out = _mapping_view(res.x[0], res.t, C, kt, vt, g, p0, n)
        out["consumes_count_and_pairs"] = pos(c1, s) == kvpos(C, kt, vt, g, p0, n)
        return out


def _map_dec_inv(L):
    c0, a, cur = L.c0, L.a, L.c
    s = a.raw_bytes.t
    C, p0 = content(c0, s), pos(c0, s) + 8
    st_ = to_val(a.subtypes)
    kt, vt, g = fst(st_), fst(snd(st_)), to_val(a.get_by_uuid)
    d = L.env["mapping"]
    i = fresh("i", Int)
    r_ = fresh("r", Int)
    out = _mapping_view(d.x[0], d.t, C, kt, vt, g, p0, L.k)
    out.update({"position": pos(cur, s) == kvpos(C, kt, vt, g, p0, L.k),
                "no_failure_so_far": z3.ForAll([i], z3.Implies(z3.And(0 <= i, i < L.k), kv_exc_free(C, kt, vt, g, p0, i))),
                "content_unchanged": content(cur, s) == C,
                "other_streams_untouched": z3.ForAll([r_], z3.Implies(r_ != s, pos(cur, r_) == pos(c0, r_)))})
    return out


_reg6 = register


def register(reg):      # noqa: F811
    _reg6(reg)
    reg.add(MappingDecode())
    reg.add_loop("serialization.py::MappingCodec.decode", 0,
                 LoopSpec(_map_dec_inv, modifies=("$stream.pos",), carried={"mapping": "dict:val"}))


enc_zip = z3.Function("enc_fields", VSeq, VSeq, BSeq)      # concatenation of enc_tree(item i, type i), in order


def enc_zip_axioms():
    p, q = z3.Const("zp", VSeq), z3.Const("zq", VSeq)
    x, t = z3.Const("zx", Val), z3.Const("zt", Val)
    return [enc_zip(z3.Empty(VSeq), z3.Empty(VSeq)) == z3.Empty(BSeq),
            z3.ForAll([p, q, x, t], enc_zip(z3.Concat(p, z3.Unit(x)), z3.Concat(q, z3.Unit(t))) ==
                      z3.Concat(enc_zip(p, q), enc_tree(x, t)),
                      patterns=[enc_zip(z3.Concat(p, z3.Unit(x)), z3.Concat(q, z3.Unit(t)))])]


class TupleEncode(CodecBase):
    """tuple<T1,...,Tn>: the fields in order, field i through the tree codec of Ti; nothing else (no count); a value
    whose length differs from the number of subtypes is an EncodeError and nothing is written"""
    target = "serialization.py::TupleCodec.encode"
    params = {"out": "stream", "items": "seq", "serialization": "ref:Serialization", "subtypes": "seq"}
    modifies = {"$stream.content": only("out"), "$stream.pos": only("out")}

    def axioms(self, eng):
        return super().axioms(eng) + enc_zip_axioms()

    def pre(self, c, a):
        return append_pre(c, a.out.t)

    def raises(self, c0, a):
        return {"EncodeError": z3.Length(a["items"].t) != z3.Length(a.subtypes.t)}

    def on_raise(self, c0, c1, a, exc_name):
        if exc_name == "EncodeError":
            return {"nothing_written": content(c1, a.out.t) == content(c0, a.out.t)}
        return {}

    def may_raise(self, c0, a):
        i = fresh("i", Int)
        xs, ts = a["items"].t, a.subtypes.t
        same = z3.Length(xs) == z3.Length(ts)
        bad = lambda code: z3.And(same, z3.Exists([i], z3.And(0 <= i, i < z3.Length(xs), code(enc_exc(xs[i], ts[i])))))
        return {"UnknownCodecError": bad(lambda e: e == 1), "Exception": bad(lambda e: z3.And(e != 0, e != 1))}

    def post(self, c0, c1, a, res):
        s = a.out.t
        xs, ts = a["items"].t, a.subtypes.t
        return {"prefix_kept": z3.SubSeq(content(c1, s), 0, z3.Length(content(c0, s))) == content(c0, s),
                "the_fields_in_order": appended(c0, c1, s) == enc_zip(xs, ts),
                "position_at_end": pos(c1, s) == z3.Length(content(c1, s))}


def _tuple_enc_inv(L):
    c0, a, cur = L.c0, L.a, L.c
    s = a.out.t
    xs, ts = a["items"].t, a.subtypes.t
    old, new = content(c0, s), content(cur, s)
    r_ = fresh("r", Int)
    i = fresh("i", Int)
    return {"prefix_kept": z3.SubSeq(new, 0, z3.Length(old)) == old,
            "fields_so_far": z3.SubSeq(new, z3.Length(old), z3.Length(new) - z3.Length(old)) ==
            enc_zip(z3.Extract(xs, 0, L.k), z3.Extract(ts, 0, L.k)),
            "at_end": pos(cur, s) == z3.Length(new),
            "other_streams_untouched": z3.ForAll([r_], z3.Implies(r_ != s, z3.And(content(cur, r_) == content(c0, r_),
                                                                                  pos(cur, r_) == pos(c0, r_))))}


def _tuple_enc_lemmas(L):
    a = L.a
    xs, ts = a["items"].t, a.subtypes.t
    k = L.k
    return [z3.Implies(z3.And(0 <= k, k < z3.Length(xs), k < z3.Length(ts)), z3.And(
        z3.Extract(xs, 0, k + 1) == z3.Concat(z3.Extract(xs, 0, k), z3.Unit(xs[k])),
        z3.Extract(ts, 0, k + 1) == z3.Concat(z3.Extract(ts, 0, k), z3.Unit(ts[k])))),
            z3.Implies(z3.And(0 <= k, k < z3.Length(xs), k < z3.Length(ts)),
                       enc_zip(z3.Extract(xs, 0, k + 1), z3.Extract(ts, 0, k + 1)) ==
                       z3.Concat(enc_zip(z3.Extract(xs, 0, k), z3.Extract(ts, 0, k)), enc_tree(xs[k], ts[k])))]


_reg7 = register


def register(reg):      # noqa: F811
    _reg7(reg)
    reg.add(TupleEncode())
    reg.add_loop("serialization.py::TupleCodec.encode", 0,
                 LoopSpec(_tuple_enc_inv, modifies=("$stream.content", "$stream.pos"), lemmas=_tuple_enc_lemmas))


# ------------------------------------------------------------------------------------------- float / double
from pyvc.iomodel import is_float, fpack, funpack      # noqa: E402

FLOAT_CODECS = {"Float32Codec": ("<f", 4), "Float64Codec": ("<d", 8)}


class FloatEncode(CodecBase):
    """float / double: struct.pack with the little-endian IEEE format of the declared width ('<f' / '<d'); relative to
    struct's own contract (floats themselves are opaque values here)"""
    target = "serialization.py::FloatCodec.encode"

    def __init__(self, cls):
        self.cls = cls
        self.variant = cls
        self.self_cls = cls
        self.fmt, self.n = FLOAT_CODECS[cls]
        self.params = {"out": "stream", "val": "val", "serialization": "val", "subtypes": "val"}
        self.modifies = {"$stream.content": only("out"), "$stream.pos": only("out")}
        super().__init__()

    def selects(self, self_cls, args, kwargs=None):
        return self_cls == self.cls

    def pre(self, c, a):
        return append_pre(c, a.out.t)

    def raises(self, c0, a):
        return {"EncodeError": z3.Not(z3.And(is_float(to_val(a.val)), self.no_subtypes(a)))}

    def post(self, c0, c1, a, res):
        s = a.out.t
        return {"little_endian_ieee_of_the_declared_width": content(c1, s) == z3.Concat(
                    content(c0, s), fpack(VStr(z3.StringVal(self.fmt)), to_val(a.val))),
                "width": z3.Length(content(c1, s)) == z3.Length(content(c0, s)) + self.n,
                "position_at_end": pos(c1, s) == z3.Length(content(c1, s))}


class FloatDecode(CodecBase):
    target = "serialization.py::FloatCodec.decode"

    def __init__(self, cls):
        self.cls = cls
        self.variant = cls
        self.self_cls = cls
        self.fmt, self.n = FLOAT_CODECS[cls]
        self.params = {"raw_bytes": "stream", "serialization": "val", "subtypes": "val", "get_by_uuid": "val"}
        self.modifies = {"$stream.pos": only("raw_bytes")}
        self.result = "val"
        super().__init__()

    def selects(self, self_cls, args, kwargs=None):
        return self_cls == self.cls

    def pre(self, c, a):
        return read_pre(c, a.raw_bytes.t, self.n)

    def raises(self, c0, a):
        return {"DecodeError": z3.Not(self.no_subtypes(a))}

    def post(self, c0, c1, a, res):
        s = a.raw_bytes.t
        return {"value_of_next_bytes": to_val(res) == funpack(VStr(z3.StringVal(self.fmt)), nxt(c0, s, 0, self.n)),
                "consumes_exactly_n": pos(c1, s) == pos(c0, s) + self.n}


_reg8 = register


def register(reg):      # noqa: F811
    _reg8(reg)
    for cls in FLOAT_CODECS:
        reg.add(FloatEncode(cls))
        reg.add(FloatDecode(cls))


# ------------------------------------------------------------------------------------------- mapping encode
enc_kv = z3.Function("enc_pairs", VSeq, VSeq, Val, Val, BSeq)   # concatenation of enc(key i as K) ++ enc(value i as V), in order


def enc_kv_axioms():
    p, q = z3.Const("kp", VSeq), z3.Const("kq", VSeq)
    x, y, kt, vt = z3.Const("kx", Val), z3.Const("ky", Val), z3.Const("kkt", Val), z3.Const("kvt", Val)
    return [z3.ForAll([kt, vt], enc_kv(z3.Empty(VSeq), z3.Empty(VSeq), kt, vt) == z3.Empty(BSeq)),
            z3.ForAll([p, q, x, y, kt, vt], enc_kv(z3.Concat(p, z3.Unit(x)), z3.Concat(q, z3.Unit(y)), kt, vt) ==
                      z3.Concat(enc_kv(p, q, kt, vt), enc_tree(x, kt), enc_tree(y, vt)),
                      patterns=[enc_kv(z3.Concat(p, z3.Unit(x)), z3.Concat(q, z3.Unit(y)), kt, vt)])]


class MappingEncode(CodecBase):
    """mapping<K,V>: a uint64 pair count, then for every pair the key through the tree codec of K followed by its value
    through the tree codec of V, in the order in which `mapping.items()` yields the pairs.  The mapping is represented by
    its iteration sequence (ghost keys[i] -> vals[i]); `len(mapping)` is the length of that sequence.  That the items view
    of a Python dict enumerates each key exactly once with its current value is Python's, not proved here."""
    target = "serialization.py::MappingCodec.encode"
    params = {"out": "stream", "mapping": "mapseq", "serialization": "ref:Serialization", "subtypes": "val"}
    modifies = {"$stream.content": only("out"), "$stream.pos": only("out")}
    assumptions = ("MappingCodec.encode: the mapping argument is represented by the sequence of pairs its items() view "
                   "yields; len(mapping) equals the number of pairs iterated (true of dict and of gtirb's DictWrapper); "
                   "the order is arbitrary",)

    def axioms(self, eng):
        return super().axioms(eng) + enc_kv_axioms()

    @staticmethod
    def _kv(a):
        return a.mapping.x[0].t, a.mapping.x[1].t

    @staticmethod
    def _types(a):
        st_ = to_val(a.subtypes)
        return fst(st_), fst(snd(st_))

    def pre(self, c, a):
        st_ = to_val(a.subtypes)
        ks, vs = self._kv(a)
        return dict(append_pre(c, a.out.t), **{"count_fits_uint64": z3.Length(ks) < 2 ** 64,
                                              "same_length": z3.Length(ks) == z3.Length(vs),
                                              "two_subtypes": z3.And(Val.is_VPair(st_), Val.is_VPair(snd(st_)),
                                                                     is_VNone(snd(snd(st_))))})

    def may_raise(self, c0, a):
        i = fresh("i", Int)
        ks, vs = self._kv(a)
        kt, vt = self._types(a)
        bad = lambda code: z3.Exists([i], z3.And(0 <= i, i < z3.Length(ks),
                                                 z3.Or(code(enc_exc(ks[i], kt)), code(enc_exc(vs[i], vt)))))
        return {"UnknownCodecError": bad(lambda e: e == 1), "Exception": bad(lambda e: z3.And(e != 0, e != 1))}

    def post(self, c0, c1, a, res):
        s = a.out.t
        ks, vs = self._kv(a)
        kt, vt = self._types(a)
        B = appended(c0, c1, s)
        i = fresh("i", Int)
        return {"prefix_kept": z3.SubSeq(content(c1, s), 0, z3.Length(content(c0, s))) == content(c0, s),
                "count_as_uint64": int_wire(z3.SubSeq(B, 0, 8), 8, False, z3.Length(ks)),
                "then_key_value_key_value": z3.SubSeq(B, 8, z3.Length(B) - 8) == enc_kv(ks, vs, kt, vt),
                "every_pair_encodable": z3.ForAll([i], z3.Implies(z3.And(0 <= i, i < z3.Length(ks)),
                                                                  z3.And(enc_exc(ks[i], kt) == 0, enc_exc(vs[i], vt) == 0)))}


def _map_enc_inv(L):
    c0, a, cur = L.c0, L.a, L.c
    s = a.out.t
    ks, vs = MappingEncode._kv(a)
    kt, vt = MappingEncode._types(a)
    old, new = content(c0, s), content(cur, s)
    B = z3.SubSeq(new, z3.Length(old), z3.Length(new) - z3.Length(old))
    i = fresh("i", Int)
    r_ = fresh("r", Int)
    return {"prefix_kept": z3.SubSeq(new, 0, z3.Length(old)) == old,
            "count_written": int_wire(z3.SubSeq(B, 0, 8), 8, False, z3.Length(ks)),
            "pairs_so_far": z3.And(z3.Length(B) >= 8, z3.SubSeq(B, 8, z3.Length(B) - 8) ==
                                   enc_kv(z3.Extract(ks, 0, L.k), z3.Extract(vs, 0, L.k), kt, vt)),
            "at_end": pos(cur, s) == z3.Length(new),
            "other_streams_untouched": z3.ForAll([r_], z3.Implies(r_ != s, z3.And(content(cur, r_) == content(c0, r_),
                                                                                  pos(cur, r_) == pos(c0, r_)))),
            "encodable_so_far": z3.ForAll([i], z3.Implies(z3.And(0 <= i, i < L.k),
                                                          z3.And(enc_exc(ks[i], kt) == 0, enc_exc(vs[i], vt) == 0)))}


def _map_enc_lemmas(L):
    ks, vs = MappingEncode._kv(L.a)
    kt, vt = MappingEncode._types(L.a)
    k = L.k
    inb = z3.And(0 <= k, k < z3.Length(ks), k < z3.Length(vs))
    return [z3.Implies(inb, z3.And(z3.Extract(ks, 0, k + 1) == z3.Concat(z3.Extract(ks, 0, k), z3.Unit(ks[k])),
                                   z3.Extract(vs, 0, k + 1) == z3.Concat(z3.Extract(vs, 0, k), z3.Unit(vs[k])))),
            z3.Implies(inb, enc_kv(z3.Extract(ks, 0, k + 1), z3.Extract(vs, 0, k + 1), kt, vt) ==
                       z3.Concat(enc_kv(z3.Extract(ks, 0, k), z3.Extract(vs, 0, k), kt, vt), enc_tree(ks[k], kt), enc_tree(vs[k], vt)))]


_reg9 = register


def register(reg):      # noqa: F811
    _reg9(reg)
    reg.add(MappingEncode())
    reg.add_loop("serialization.py::MappingCodec.encode", 0,
                 LoopSpec(_map_enc_inv, modifies=("$stream.content", "$stream.pos"), lemmas=_map_enc_lemmas))
