"""Contracts for symbolic-expression lookups (C13)."""
import z3
from pyvc.contracts import Contract
from pyvc.core import (SV, Val, VNone, VInt, VRef, VPair, is_VNone, is_VInt, is_VRef, is_VPair, ival, ref, fst, snd,
                       fresh, Int)
from pyvc.schema import REGION_KEYS
from specs.common import at_q, range_of, interval_typed
from specs import forest

PROPS = ("C13",)


def store(c, bi):
    """(dom, map) of the expression store of interval bi (contents of its _SymbolicExprDict)"""
    w = ref(c.get("_symbolic_expressions", bi))
    return z3.Select(c.arr("DictWrapper._data#dom"), w), z3.Select(c.arr("DictWrapper._data#map"), w)


def triple_parts(v):
    return fst(v), fst(snd(v)), fst(snd(snd(v))), snd(snd(snd(v)))


def is_triple_of(c, v, bi):
    """v == (bi, k, store[k]) for an integer key k of bi's store; returns (formula, k)"""
    a0, a1, a2, tail = triple_parts(v)
    dom, mp = store(c, bi)
    k = ival(a1)
    return z3.And(is_VPair(v), is_VPair(snd(v)), is_VPair(snd(snd(v))), is_VNone(tail), a0 == VRef(bi), is_VInt(a1),
                  z3.Select(dom, a1), a2 == z3.Select(mp, a1)), k


def wf_store(c, bi):
    w = c.get("_symbolic_expressions", bi)
    return z3.And(is_VRef(w), forest.kind_is(c, ref(w), "ByteInterval._SymbolicExprDict"))


class BISymExprs(Contract):
    """ByteInterval.symbolic_expressions_at / _at_offset: one triple per stored expression whose address (offset)
    is a member of the query, in increasing offset order; nothing for an interval without address."""
    props = PROPS

    def __init__(self, offset, addr_kind):
        self.offset, self.addr_kind = offset, addr_kind
        self.target = "byteinterval.py::ByteInterval.symbolic_expressions_at" + ("_offset" if offset else "")
        self.variant = addr_kind
        self.pname = "offsets" if offset else "addrs"
        self.params = {"self": "ref:ByteInterval", self.pname: addr_kind}
        super().__init__()

    def selects(self, self_cls, args, kwargs=None):
        return len(args) > 1 and args[1].k == self.addr_kind

    def pre(self, c, a):
        out = {"is_interval": c.isinst(a.self.t, "ByteInterval"), "typed": interval_typed(c, a.self.t),
               "store": wf_store(c, a.self.t)}
        if self.addr_kind == "range":
            out["positive_step"] = a[self.pname].x[2].t >= 1
        return out

    def yields(self, c0, a, v):
        bi = a.self.t
        ok, k = is_triple_of(c0, v, bi)
        s, e, st = range_of(a[self.pname])
        if self.offset:
            return z3.And(ok, at_q(k, s, e, st))
        A = c0.get("_address", bi)
        return z3.And(ok, is_VInt(A), at_q(ival(A) + k, s, e, st))

    def yield_order(self, c0, a, v):
        return ival(fst(snd(v)))

    def witness(self, c0, a, v):
        return {"": [fst(snd(v))]}


class ScopedSymExprs(Contract):
    """Section / Module / IR .symbolic_expressions_at: union over the contained intervals, except that expressions
    stored beyond their interval's declared extent may be omitted (MUST <= result <= MAY, no repeats)."""
    props = PROPS
    modifies = REGION_KEYS

    def __init__(self, level, addr_kind):
        self.level, self.addr_kind = level, addr_kind
        cls = {"section": "Section", "module": "Module", "ir": "IR"}[level]
        self.cls = cls
        self.target = "%s.py::%s.symbolic_expressions_at" % (level, cls)
        self.variant = addr_kind
        self.params = {"self": "ref:" + cls, "addrs": addr_kind}
        super().__init__()

    def region_invariant(self, c):
        return forest.inv_region(c)

    def selects(self, self_cls, args, kwargs=None):
        return len(args) > 1 and args[1].k == self.addr_kind

    def pre(self, c, a):
        bi = fresh("bi", Int)
        out = {"wf_static": forest.wf_static(c), "wf_parents": forest.wf_parents(c), "inv_region": forest.inv_region(c),
               "is_owner": c.isinst(a.self.t, self.cls),
               "stores": z3.ForAll([bi], z3.Implies(c.isinst(bi, "ByteInterval"), wf_store(c, bi)))}
        if self.level != "section":
            out["wf_upper"] = forest.wf_upper(c)
        if self.addr_kind == "range":
            out["positive_step"] = a.addrs.x[2].t >= 1
        return out

    def post(self, c0, c1, a, res):
        return {**forest.inv_region_parts(c1)}

    def _parts(self, c0, a, v):
        bi = ref(fst(v))
        ok, k = is_triple_of(c0, v, bi)
        A, S = c0.get("_address", bi), ival(c0.get("_size", bi))
        s, e, st = range_of(a.addrs)
        scope = z3.And(is_VPair(v), is_VRef(fst(v)), forest.in_scope(c0, self.level, "interval", bi, a.self.t), ok, is_VInt(A))
        return scope, at_q(ival(A) + k, s, e, st), k, S

    def yields(self, c0, a, v):
        scope, q, k, S = self._parts(c0, a, v)
        return z3.And(scope, q)

    def yields_must(self, c0, a, v):
        scope, q, k, S = self._parts(c0, a, v)
        return z3.And(scope, q, 0 <= k, k < S)

    def witness(self, c0, a, v):
        bi = fst(v)
        if self.level == "section":
            return {"": [bi, v]}
        sec = c0.get("_section", ref(bi))
        if self.level == "module":
            return {"": [sec, v]}
        mod = c0.get("_module", ref(sec))
        return {"": [z3.Select(c0.arr("$modpos"), ref(mod)), v]}


def register(reg):
    reg.allow_inline("util.py::DictWrapper.__getitem__", "util.py::symbolic_expressions_at")
    for kind in ("int", "range"):
        for off in (False, True):
            reg.add(BISymExprs(off, kind))
        for level in ("section", "module", "ir"):
            reg.add(ScopedSymExprs(level, kind))
