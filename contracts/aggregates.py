"""Contracts for the aggregate iterators (C04: "the aggregate iterators such as ir.byte_blocks, module.code_blocks,
ir.cfg_nodes always equal what the forest implies"): each yields exactly the nodes of the stated kind whose parent chain
leads to self, each once."""
import z3
from pyvc.contracts import Contract
from pyvc.core import SV, Val, VNone, VRef, is_VNone, is_VRef, ref, fresh, Int
from pyvc.schema import REGION_KEYS
from specs import forest
from specs.wf import WF
from contracts.lookups import kind_filter

PROPS = ("C04",)
FILES = {"Section": "section.py", "Module": "module.py", "IR": "ir.py"}
LEVEL = {"Section": "section", "Module": "module", "IR": "ir"}


def child_of_module_in(c, n, cls, level, owner):
    """n is a <cls> (Section / Symbol / ProxyBlock) whose module is owner (level module) or belongs to IR owner"""
    mod = c.get("_module", n)
    if level == "module":
        return z3.And(c.isinst(n, cls), mod == VRef(owner))
    return z3.And(c.isinst(n, cls), is_VRef(mod), c.get("_ir", ref(mod)) == VRef(owner))


class Aggregate(Contract):
    props = PROPS
    modifies = REGION_KEYS

    def __init__(self, cls, name):
        self.cls, self.name = cls, name
        self.target = "%s::%s.%s" % (FILES[cls], cls, name)
        self.params = {"self": "ref:" + cls}
        self.yield_cls = {"byte_blocks": "ByteBlock", "code_blocks": "CodeBlock", "data_blocks": "DataBlock",
                          "byte_intervals": "ByteInterval", "sections": "Section", "symbols": "Symbol",
                          "proxy_blocks": "ProxyBlock", "cfg_nodes": None}[name]
        super().__init__()

    def region_invariant(self, c):
        return forest.inv_region(c)

    def pre(self, c, a):
        out = {"wf_static": forest.wf_static(c), "wf_parents": forest.wf_parents(c), "inv_region": forest.inv_region(c),
               "wf_upper": forest.wf_upper(c), "is_owner": c.isinst(a.self.t, self.cls)}
        # consequence of the wiring + membership invariants, stated directly for the collection that is iterated
        x = fresh("x", Val)
        o = a.self.t
        i = fresh("i", Int)
        if self.cls == "Section":
            out["members_have_block_sets"] = z3.ForAll([x], z3.Implies(
                z3.Select(forest.data(c, c.get("byte_intervals", o)), x), z3.And(is_VRef(x), is_VRef(c.get("blocks", ref(x))))))
        elif self.cls == "Module":
            out["members_have_interval_sets"] = z3.ForAll([x], z3.Implies(
                z3.Select(forest.data(c, c.get("sections", o)), x), z3.And(is_VRef(x), is_VRef(c.get("byte_intervals", ref(x))))))
        else:
            ml = c.get("modules", o)
            items = z3.Select(c.arr("ListWrapper._data#items"), ref(ml))
            n = z3.Select(c.arr("ListWrapper._data#len"), ref(ml))
            m = ref(z3.Select(items, i))
            out["modules_have_their_sets"] = z3.ForAll([i], z3.Implies(z3.And(0 <= i, i < n), z3.And(
                is_VRef(z3.Select(items, i)), is_VRef(c.get("sections", m)), is_VRef(c.get("symbols", m)),
                is_VRef(c.get("proxies", m)))))
        if self.name in ("symbols", "proxy_blocks", "cfg_nodes", "sections"):
            w = WF(c)
            for k in ("rel_symbol", "rel_proxy", "rel_section", "rel_module_wiring", "rel_module_items", "rel_module_nodup",
                      "rel_module_pos", "wrappers_owned", "parent_kinds"):
                out[k] = w[k]
        return out

    def post(self, c0, c1, a, res):
        return {**forest.inv_region_parts(c1)}

    def yields(self, c0, a, v):
        n = ref(v)
        lvl = LEVEL[self.cls]
        o = a.self.t
        blk = lambda which: z3.And(forest.in_scope(c0, lvl, "block", n, o), kind_filter(c0, n, which))
        if self.name in ("byte_blocks", "code_blocks", "data_blocks"):
            return z3.And(is_VRef(v), blk(self.name.split("_")[0]))
        if self.name == "byte_intervals":
            return z3.And(is_VRef(v), forest.in_scope(c0, lvl, "interval", n, o))
        if self.name == "cfg_nodes":
            return z3.And(is_VRef(v), z3.Or(blk("code"), child_of_module_in(c0, n, "ProxyBlock", lvl, o)))
        cls = {"sections": "Section", "symbols": "Symbol", "proxy_blocks": "ProxyBlock"}[self.name]
        return z3.And(is_VRef(v), child_of_module_in(c0, n, cls, lvl, o))

    def witness(self, c0, a, v):
        n = ref(v)
        lvl = LEVEL[self.cls]
        if self.cls == "Section" and self.name in ("code_blocks", "data_blocks"):
            return {"": [v], "contract:Section.byte_blocks": [v]}
        if self.cls == "Module" and self.name == "cfg_nodes":
            return {"": [v], "contract:Module.code_blocks": [v]}
        if self.cls == "IR" and self.name == "cfg_nodes":
            isblk = c0.isinst(n, "ByteBlock")
            mod = z3.If(isblk, c0.get("_module", ref(forest.section_of_block(c0, n))), c0.get("_module", n))
            return {"": [z3.Select(c0.arr("$modpos"), ref(mod)), v]}
        if self.name in ("sections", "symbols", "proxy_blocks"):
            mod = c0.get("_module", n)
            return {"": [z3.Select(c0.arr("$modpos"), ref(mod)), v]}
        if self.name == "byte_intervals":
            sec = c0.get("_section", n)
        else:
            sec = forest.section_of_block(c0, n)
        if lvl == "section":
            return {"": [c0.get("_byte_interval", n), v]}
        if lvl == "module":
            return {"": [sec, v]}
        mod = c0.get("_module", ref(sec))
        return {"": [z3.Select(c0.arr("$modpos"), ref(mod)), v]}


def register(reg):
    for cls, names in (("Section", ("byte_blocks", "code_blocks", "data_blocks")),
                       ("Module", ("byte_intervals", "byte_blocks", "code_blocks", "data_blocks", "cfg_nodes")),
                       ("IR", ("sections", "symbols", "proxy_blocks", "byte_intervals", "byte_blocks", "code_blocks", "data_blocks",
                               "cfg_nodes"))):
        for n in names:
            reg.add(Aggregate(cls, n))
