"""Contracts for the leaf writers / readers of the protobuf mapping (C02 field by field; C09 kind checks; C17 rejection).

Writer direction: for an object whose attributes are in the schema's ranges, _to_protobuf returns a new message whose
every field equals the corresponding attribute (one-of selection included).
Reader direction: for a schema-valid message, the decoder builds an object whose attributes equal the message
fields, resolving references through the per-IR UUID table to the very object registered there, and raising
DeserializationError when the referenced node is missing or of the wrong kind."""
import z3
from pyvc.contracts import Contract
from pyvc.core import (SV, Val, VNone, VInt, VBool, VRef, VStr, VUuid, VEnum, VPair, fst, snd, is_VNone, is_VInt, is_VBool, is_VRef, is_VStr,
                       is_VUuid, is_VEnum, ival, bval, ref, uval, enum_, ecls, fresh, Int, to_val)
from pyvc.iomodel import IoContract, BSeq, blob_seq, blob_val, oid, u2b, b2u, is_VOpaque
from pyvc.pbmodel import RANGES

U64 = RANGES["uint64"]
I64 = RANGES["int64"]


def NEW(c0, a, r):
    return z3.Not(z3.Select(c0.arr("$alive"), r))


def in_rng(v, rng):
    return z3.And(is_VInt(v), rng[0] <= ival(v), ival(v) <= rng[1])


def pbkeys(c, *msgs):
    out = {"$alive": NEW}           # (message objects carry no $kind: allocation leaves the class table untouched)
    for m in msgs:
        for k in c.eng.schema.pb.keys_of(m):
            out[k] = NEW
    return out


def f(c, msg, field, m):
    return c.get("pb.%s.%s" % (msg, field), m)


def oneof(c, msg, group, m):
    return c.get("pb.%s.$oneof.%s" % (msg, group), m)


def uuid_blob(u):
    return blob_val(u2b(uval(u)))


class WriterBase(IoContract):
    props = ("C02", "C01")
    msg = None
    alloc_only = True       # frame: only objects that did not exist before; every post clause is about the new message(s)

    def __init__(self):
        super().__init__()
        self.result = "pb:" + self.msg
        self.modifies = lambda c0, a: pbkeys(c0, self.msg)


class DataBlockToPb(WriterBase):
    target = "block.py::DataBlock._to_protobuf"
    msg = "DataBlock"
    params = {"self": "ref:DataBlock"}

    def pre(self, c, a):
        b = a.self.t
        return {"in_schema_range": z3.And(is_VUuid(c.get("uuid", b)), in_rng(c.get("_size", b), U64))}

    def post(self, c0, c1, a, res):
        b, m = a.self.t, res.t
        return {"new_message": NEW(c0, a, m),
                "uuid": f(c1, self.msg, "uuid", m) == uuid_blob(c0.get("uuid", b)),
                "size": f(c1, self.msg, "size", m) == c0.get("_size", b)}


class CodeBlockToPb(WriterBase):
    target = "block.py::CodeBlock._to_protobuf"
    msg = "CodeBlock"
    params = {"self": "ref:CodeBlock"}

    def pre(self, c, a):
        b = a.self.t
        dm = c.get("decode_mode", b)
        return {"in_schema_range": z3.And(is_VUuid(c.get("uuid", b)), in_rng(c.get("_size", b), U64),
                                          is_VEnum(dm), ecls(dm) == c.eng.schema.class_id("CodeBlock.DecodeMode"),
                                          RANGES["int32"][0] <= enum_(dm), enum_(dm) <= RANGES["int32"][1])}

    def post(self, c0, c1, a, res):
        b, m = a.self.t, res.t
        return {"new_message": NEW(c0, a, m),
                "uuid": f(c1, self.msg, "uuid", m) == uuid_blob(c0.get("uuid", b)),
                "size": f(c1, self.msg, "size", m) == c0.get("_size", b),
                "decode_mode_number": f(c1, self.msg, "decode_mode", m) == VInt(enum_(c0.get("decode_mode", b)))}


class ProxyBlockToPb(WriterBase):
    target = "block.py::ProxyBlock._to_protobuf"
    msg = "ProxyBlock"
    params = {"self": "ref:ProxyBlock"}

    def pre(self, c, a):
        return {"in_schema_range": is_VUuid(c.get("uuid", a.self.t))}

    def post(self, c0, c1, a, res):
        return {"new_message": NEW(c0, a, res.t),
                "uuid": f(c1, self.msg, "uuid", res.t) == uuid_blob(c0.get("uuid", a.self.t))}


class SymbolToPb(WriterBase):
    """the payload one-of: an integer payload (0 included) selects value, a block payload selects referent_uuid, no
    payload selects neither"""
    target = "symbol.py::Symbol._to_protobuf"
    msg = "Symbol"
    params = {"self": "ref:Symbol"}

    def pre(self, c, a):
        s = a.self.t
        p = c.get("__payload", s)
        return {"in_schema_range": z3.And(
            is_VUuid(c.get("uuid", s)), is_VStr(c.get("_name", s)), is_VBool(c.get("at_end", s)),
            z3.Or(is_VNone(p), in_rng(p, U64),
                  z3.And(is_VRef(p), c.isinst(ref(p), "Block"), is_VUuid(c.get("uuid", ref(p))))))}

    def post(self, c0, c1, a, res):
        s, m = a.self.t, res.t
        p = c0.get("__payload", s)
        sel = oneof(c1, self.msg, "optional_payload", m)
        return {"new_message": NEW(c0, a, m),
                "uuid": f(c1, self.msg, "uuid", m) == uuid_blob(c0.get("uuid", s)),
                "name": f(c1, self.msg, "name", m) == c0.get("_name", s),
                "at_end": f(c1, self.msg, "at_end", m) == c0.get("at_end", s),
                "integer_payload_selects_value": z3.Implies(is_VInt(p), z3.And(
                    sel == VStr(z3.StringVal("value")), f(c1, self.msg, "value", m) == p)),
                "block_payload_selects_referent_uuid": z3.Implies(is_VRef(p), z3.And(
                    sel == VStr(z3.StringVal("referent_uuid")),
                    f(c1, self.msg, "referent_uuid", m) == uuid_blob(c0.get("uuid", ref(p))))),
                "no_payload_selects_nothing": z3.Implies(is_VNone(p), is_VNone(sel))}


def symbol_ok(c, v):
    return z3.And(is_VRef(v), c.isinst(ref(v), "Symbol"), is_VUuid(c.get("uuid", ref(v))))


class SymAddrConstToPb(WriterBase):
    target = "symbolicexpression.py::SymAddrConst._to_protobuf"
    msg = "SymAddrConst"
    params = {"self": "ref:SymAddrConst"}

    def pre(self, c, a):
        e = a.self.t
        return {"in_schema_range": z3.And(in_rng(c.get("offset", e), I64), symbol_ok(c, c.get("symbol", e)))}

    def post(self, c0, c1, a, res):
        e, m = a.self.t, res.t
        return {"new_message": NEW(c0, a, m),
                "offset": f(c1, self.msg, "offset", m) == c0.get("offset", e),
                "symbol_uuid": f(c1, self.msg, "symbol_uuid", m) == uuid_blob(c0.get("uuid", ref(c0.get("symbol", e))))}


class SymAddrAddrToPb(WriterBase):
    target = "symbolicexpression.py::SymAddrAddr._to_protobuf"
    msg = "SymAddrAddr"
    params = {"self": "ref:SymAddrAddr"}

    def pre(self, c, a):
        e = a.self.t
        return {"in_schema_range": z3.And(in_rng(c.get("scale", e), I64), in_rng(c.get("offset", e), I64),
                                          symbol_ok(c, c.get("symbol1", e)), symbol_ok(c, c.get("symbol2", e)))}

    def post(self, c0, c1, a, res):
        e, m = a.self.t, res.t
        return {"new_message": NEW(c0, a, m),
                "scale": f(c1, self.msg, "scale", m) == c0.get("scale", e),
                "offset": f(c1, self.msg, "offset", m) == c0.get("offset", e),
                "symbol1_uuid": f(c1, self.msg, "symbol1_uuid", m) == uuid_blob(c0.get("uuid", ref(c0.get("symbol1", e)))),
                "symbol2_uuid": f(c1, self.msg, "symbol2_uuid", m) == uuid_blob(c0.get("uuid", ref(c0.get("symbol2", e))))}


def register(reg):
    for c in (DataBlockToPb(), CodeBlockToPb(), ProxyBlockToPb(), SymbolToPb(), SymAddrConstToPb(), SymAddrAddrToPb()):
        reg.add(c)


# =============================================================================================== readers
# While a file is being loaded the per-IR table holds nodes that are not attached yet, so the reader contracts speak
# about the raw table (IR._local_uuid_cache) and not about the invariant I1/I2 of a finished IR.

def table(c, ir):
    dom = z3.Select(c.arr("_local_uuid_cache#dom"), ir)
    mp = z3.Select(c.arr("_local_uuid_cache#map"), ir)
    return dom, mp


def lookup(c, ir, u):
    dom, mp = table(c, ir)
    return z3.If(z3.Select(dom, u), z3.Select(mp, u), VNone)


def table_typed(c, ir):
    """values of the table are node objects (or absent)"""
    dom, mp = table(c, ir)
    u = fresh("u", Val)
    return z3.ForAll([u], z3.Implies(z3.Select(dom, u), z3.And(is_VRef(z3.Select(mp, u)),
                                                               z3.Select(c.arr("$alive"), ref(z3.Select(mp, u))))))


def table_keyed(c, ir):
    """every entry is filed under its own UUID"""
    dom, mp = table(c, ir)
    u = fresh("u", Val)
    return z3.ForAll([u], z3.Implies(z3.Select(dom, u), c.get("uuid", ref(z3.Select(mp, u))) == u))


INL = ("ir.py::IR.get_by_uuid", "block.py::Block._add_to_uuid_cache", "symbol.py::Symbol._add_to_uuid_cache")


def msg_uuid(c, msg, field, m):
    return blob_seq(oid(f(c, msg, field, m)))


class SymExprFromPb(IoContract):
    """SymAddrConst / SymAddrAddr ._from_protobuf(msg, ir.get_by_uuid): every symbol reference is resolved to the very
    object the table holds for that UUID; a missing entry or an entry that is not a Symbol is a DeserializationError"""
    props = ("C02", "C09", "C17", "C01")
    inline_callees = INL

    def __init__(self, cls, fields):
        self.cls, self.fields = cls, fields
        self.target = "symbolicexpression.py::%s._from_protobuf" % cls
        self.msgname = cls
        self.result = "ref:" + cls
        self.modifies = lambda c0, a: {k: NEW for k in ("$alive", "$kind", "offset", "scale", "symbol", "symbol1", "symbol2",
                                                         "SymExpr.attributes")}
        super().__init__()

    def make_value(self, eng, st, name, spec):
        if name == "get_by_uuid":
            ir = self._ir = fresh("ir", Int)
            ci = eng.prog.classes["IR"]
            return SV("boundmethod", x=(SV("ref", ir, cls="IR"), ci.lookup("get_by_uuid"), ci))
        return super().make_value(eng, st, name, spec)

    @property
    def params(self):
        return {"proto_" + self.cls.lower(): "pb:" + self.cls, "get_by_uuid": "val"}

    def _m(self, a):
        return a["proto_" + self.cls.lower()].t

    def _ir_of(self, a):
        return a.get_by_uuid.x[0].t

    def pre(self, c, a):
        return {"message_typed": c.eng.schema.pb.typed(c, self._m(a), self.cls), "table_typed": table_typed(c, self._ir_of(a)),
                "is_ir": c.isinst(self._ir_of(a), "IR")}

    def _refs(self, c0, a):
        out = []
        for attr, fld in self.fields:
            b = msg_uuid(c0, self.cls, fld, self._m(a))
            out.append((attr, b, lookup(c0, self._ir_of(a), VUuid(b2u(b)))))
        return out

    def raises(self, c0, a):
        refs = self._refs(c0, a)
        bad_len = z3.Or([z3.Length(b) != 16 for (_, b, _) in refs])
        bad = []
        prev_ok = z3.BoolVal(True)
        for (_, b, v) in refs:
            bad.append(z3.And(prev_ok, z3.Length(b) == 16, z3.Not(z3.And(is_VRef(v), c0.isinst(ref(v), "Symbol")))))
        all_len = z3.And([z3.Length(b) == 16 for (_, b, _) in refs])
        not_sym = z3.Or([z3.Not(z3.And(is_VRef(v), c0.isinst(ref(v), "Symbol"))) for (_, b, v) in refs])
        return {"DeserializationError": z3.And(all_len, not_sym)}

    def may_raise(self, c0, a):
        refs = self._refs(c0, a)
        # a UUID field that is not 16 bytes long: ValueError from uuid.UUID, or DeserializationError for an earlier
        # reference, whichever comes first
        bad_len = z3.Or([z3.Length(b) != 16 for (_, b, _) in refs])
        return {"ValueError": bad_len, "DeserializationError": bad_len}

    def post(self, c0, c1, a, res):
        e, m = res.t, self._m(a)
        out = {"new_expression": z3.And(NEW(c0, a, e), c1.kind(e) == c1.eng.schema.class_id(self.cls))}
        for attr, b, v in self._refs(c0, a):
            out["%s_is_the_table_entry" % attr] = z3.And(c1.get(attr, e) == v, is_VRef(v), c0.isinst(ref(v), "Symbol"))
        out["offset"] = c1.get("offset", e) == f(c0, self.cls, "offset", m)
        if self.cls == "SymAddrAddr":
            out["scale"] = c1.get("scale", e) == f(c0, self.cls, "scale", m)
        from pyvc.core import EmptySet
        out["no_attributes_yet"] = z3.Select(c1.arr("SymExpr.attributes"), e) == EmptySet
        return out


def register(reg):      # noqa: F811
    for c in (DataBlockToPb(), CodeBlockToPb(), ProxyBlockToPb(), SymbolToPb(), SymAddrConstToPb(), SymAddrAddrToPb(),
              SymExprFromPb("SymAddrConst", [("symbol", "symbol_uuid")]),
              SymExprFromPb("SymAddrAddr", [("symbol1", "symbol1_uuid"), ("symbol2", "symbol2_uuid")])):
        reg.add(c)


class MakeEdge(IoContract):
    """CFG._from_protobuf/make_edge: both endpoints are the table's objects for the edge's UUIDs and must be CFG nodes
    (code or proxy blocks); the label is absent iff the message has none, else (type, conditional, direct) with the
    type being the Python constant of the schema number"""
    target = "cfg.py::CFG._from_protobuf/make_edge"
    props = ("C02", "C09", "C17", "C01")
    inline_callees = INL
    params = {"ir": "ref:IR", "edge": "pb:Edge"}
    modifies = ()           # Edge and Edge.Label are named tuples (values): nothing is allocated or written

    @staticmethod
    def result(eng, st, name):
        return SV("tuple", x=[SV("val", fresh(name + "_src", Val), cls="CfgNode"), SV("val", fresh(name + "_tgt", Val), cls="CfgNode"),
                              SV("val", fresh(name + "_label", Val), cls="EdgeLabel")], cls="Edge")

    def pre(self, c, a):
        m = a.edge.t
        lab = f(c, "Edge", "label", m)
        return {"message_typed": z3.And(c.eng.schema.pb.typed(c, m, "Edge"),
                                        z3.Implies(is_VRef(lab), c.eng.schema.pb.typed(c, ref(lab), "EdgeLabel"))),
                "table_typed": table_typed(c, a.ir.t), "is_ir": c.isinst(a.ir.t, "IR")}

    def _parts(self, c0, a):
        m = a.edge.t
        sb, tb = msg_uuid(c0, "Edge", "source_uuid", m), msg_uuid(c0, "Edge", "target_uuid", m)
        sv, tv = lookup(c0, a.ir.t, VUuid(b2u(sb))), lookup(c0, a.ir.t, VUuid(b2u(tb)))
        cfgn = lambda v: z3.And(is_VRef(v), c0.isinst(ref(v), "CfgNode"))
        lab = f(c0, "Edge", "label", m)
        tnum = ival(f(c0, "EdgeLabel", "type", ref(lab)))
        members = [n for (_, n) in c0.eng.schema.pb.enums["EdgeType"]]
        return sb, tb, sv, tv, cfgn, lab, tnum, members

    def raises(self, c0, a):
        sb, tb, sv, tv, cfgn, lab, tnum, members = self._parts(c0, a)
        src_ok = z3.And(z3.Length(sb) == 16, cfgn(sv))
        tgt_ok = z3.And(z3.Length(tb) == 16, cfgn(tv))
        return {"DeserializationError": z3.Or(z3.And(z3.Length(sb) == 16, z3.Not(cfgn(sv))),
                                              z3.And(src_ok, z3.Length(tb) == 16, z3.Not(cfgn(tv)))),
                "ValueError": z3.Or(z3.Length(sb) != 16, z3.And(src_ok, z3.Length(tb) != 16),
                                    z3.And(src_ok, tgt_ok, is_VRef(lab), z3.Not(z3.Or([tnum == k for k in members]))))}

    def post(self, c0, c1, a, res):
        sb, tb, sv, tv, cfgn, lab, tnum, members = self._parts(c0, a)
        if res.k != "tuple" or res.cls != "Edge":
            return {"result_is_an_Edge": z3.BoolVal(False)}
        src, tgt, label = res.x
        out = {"source_is_the_table_entry": to_val(src) == sv, "target_is_the_table_entry": to_val(tgt) == tv,
               "no_label_iff_absent": z3.Implies(is_VNone(lab), is_VNone(to_val(label)))}
        tcls = c0.eng.schema.class_id("EdgeType")
        lv = to_val(label)
        from pyvc.core import fst, snd
        out["label_fields"] = z3.Implies(is_VRef(lab), z3.And(
            Val.is_VPair(lv), Val.is_VPair(snd(lv)), Val.is_VPair(snd(snd(lv))), is_VNone(snd(snd(snd(lv)))),
            fst(lv) == VEnum(tcls, tnum),
            fst(snd(lv)) == f(c0, "EdgeLabel", "conditional", ref(lab)),
            fst(snd(snd(lv))) == f(c0, "EdgeLabel", "direct", ref(lab))))
        return out


def register(reg):      # noqa: F811
    for c in (DataBlockToPb(), CodeBlockToPb(), ProxyBlockToPb(), SymbolToPb(), SymAddrConstToPb(), SymAddrAddrToPb(),
              SymExprFromPb("SymAddrConst", [("symbol", "symbol_uuid")]),
              SymExprFromPb("SymAddrAddr", [("symbol1", "symbol1_uuid"), ("symbol2", "symbol2_uuid")]),
              MakeEdge()):
        reg.add(c)


class BlockDecodePb(IoContract):
    """CodeBlock / DataBlock / ProxyBlock ._decode_protobuf(msg, uuid, ir): a new, unattached block of that class with the
    given UUID and the message's fields, entered in the IR's table under its UUID (other entries unchanged)"""
    props = ("C02", "C09", "C17", "C01")
    inline_all = True       # constructors and setters run on an object that is not linked into any IR yet

    def __init__(self, cls):
        self.cls = cls
        self.target = "block.py::%s._decode_protobuf" % cls
        self.self_cls = cls
        self.pname = {"DataBlock": "proto_dataobject", "CodeBlock": "proto_block", "ProxyBlock": "proto_proxy"}[cls]
        self.params = {self.pname: "pb:" + cls, "uuid": "val", "ir": "ref:IR"}
        self.result = "ref:" + cls
        super().__init__()

    def modifies(self, c0, a):
        ir = a.ir.t
        out = {k: NEW for k in ("$alive", "$kind", "uuid", "_size", "_offset", "_byte_interval", "decode_mode", "_module")}
        out["_local_uuid_cache"] = lambda c0, a, r: r == ir
        return out

    def pre(self, c, a):
        return {"message_typed": c.eng.schema.pb.typed(c, a[self.pname].t, self.cls), "uuid_typed": is_VUuid(to_val(a.uuid)),
                "is_ir": c.isinst(a.ir.t, "IR"), "ir_alive": z3.Select(c.arr("$alive"), a.ir.t)}

    def raises(self, c0, a):
        if self.cls != "CodeBlock":
            return {}
        members = [n for (_, n) in c0.eng.schema.pb.enums["DecodeMode"]]
        dm = ival(f(c0, "CodeBlock", "decode_mode", a[self.pname].t))
        return {"ValueError": z3.Not(z3.Or([dm == k for k in members]))}

    def post(self, c0, c1, a, res):
        b, m, ir = res.t, a[self.pname].t, a.ir.t
        u = to_val(a.uuid)
        d0, m0 = table(c0, ir)
        d1, m1 = table(c1, ir)
        k = fresh("k", Val)
        out = {"new_block_of_that_class": z3.And(NEW(c0, a, b), c1.kind(b) == c1.eng.schema.class_id(self.cls)),
               "uuid": c1.get("uuid", b) == u,
               "registered_under_its_uuid": z3.And(z3.Select(d1, u), z3.Select(m1, u) == VRef(b)),
               "other_entries_unchanged": z3.ForAll([k], z3.Implies(k != u, z3.And(
                   z3.Select(d1, k) == z3.Select(d0, k), z3.Implies(z3.Select(d0, k), z3.Select(m1, k) == z3.Select(m0, k)))))}
        if self.cls != "ProxyBlock":
            out["size"] = c1.get("_size", b) == f(c0, self.cls, "size", m)
            out["offset_zero_unattached"] = z3.And(c1.get("_offset", b) == VInt(0), is_VNone(c1.get("_byte_interval", b)))
        else:
            out["unattached"] = is_VNone(c1.get("_module", b))
        if self.cls == "CodeBlock":
            out["decode_mode"] = c1.get("decode_mode", b) == VEnum(c1.eng.schema.class_id("CodeBlock.DecodeMode"),
                                                                  ival(f(c0, "CodeBlock", "decode_mode", m)))
        return out


def register(reg):      # noqa: F811
    for c in (DataBlockToPb(), CodeBlockToPb(), ProxyBlockToPb(), SymbolToPb(), SymAddrConstToPb(), SymAddrAddrToPb(),
              SymExprFromPb("SymAddrConst", [("symbol", "symbol_uuid")]),
              SymExprFromPb("SymAddrAddr", [("symbol1", "symbol1_uuid"), ("symbol2", "symbol2_uuid")]),
              MakeEdge(), BlockDecodePb("DataBlock"), BlockDecodePb("CodeBlock"), BlockDecodePb("ProxyBlock")):
        reg.add(c)


class SymbolDecodePb(IoContract):
    """Symbol._decode_protobuf: name, at_end and payload equal the message (value selected: that integer, 0 included;
    referent_uuid selected: the very object the table holds for it, which must be a Block; neither: no payload)"""
    target = "symbol.py::Symbol._decode_protobuf"
    props = ("C02", "C09", "C17", "C01")
    inline_all = True
    params = {"proto_symbol": "pb:Symbol", "uuid": "val", "ir": "ref:IR"}
    result = "ref:Symbol"

    def modifies(self, c0, a):
        ir = a.ir.t
        out = {k: NEW for k in ("$alive", "$kind", "uuid", "_name", "__payload", "at_end", "_module")}
        out["_local_uuid_cache"] = lambda c0, a, r: r == ir
        return out

    def pre(self, c, a):
        return {"message_typed": c.eng.schema.pb.typed(c, a.proto_symbol.t, "Symbol"), "uuid_typed": is_VUuid(to_val(a.uuid)),
                "is_ir": c.isinst(a.ir.t, "IR"), "ir_alive": z3.Select(c.arr("$alive"), a.ir.t),
                "table_typed": table_typed(c, a.ir.t)}

    def _p(self, c0, a):
        m = a.proto_symbol.t
        sel = oneof(c0, "Symbol", "optional_payload", m)
        has_ref = sel == VStr(z3.StringVal("referent_uuid"))
        has_val = sel == VStr(z3.StringVal("value"))
        rb = msg_uuid(c0, "Symbol", "referent_uuid", m)
        rv = lookup(c0, a.ir.t, VUuid(b2u(rb)))
        return m, has_ref, has_val, rb, rv

    def raises(self, c0, a):
        m, has_ref, has_val, rb, rv = self._p(c0, a)
        return {"ValueError": z3.And(has_ref, z3.Length(rb) != 16),
                "DeserializationError": z3.And(has_ref, z3.Length(rb) == 16,
                                               z3.Not(z3.And(is_VRef(rv), c0.isinst(ref(rv), "Block"))))}

    def post(self, c0, c1, a, res):
        s, ir = res.t, a.ir.t
        m, has_ref, has_val, rb, rv = self._p(c0, a)
        u = to_val(a.uuid)
        d0, m0 = table(c0, ir)
        d1, m1 = table(c1, ir)
        k = fresh("k", Val)
        return {"new_symbol": z3.And(NEW(c0, a, s), c1.kind(s) == c1.eng.schema.class_id("Symbol")),
                "uuid": c1.get("uuid", s) == u,
                "name": c1.get("_name", s) == f(c0, "Symbol", "name", m),
                "at_end": c1.get("at_end", s) == f(c0, "Symbol", "at_end", m),
                "value_payload": z3.Implies(has_val, c1.get("__payload", s) == f(c0, "Symbol", "value", m)),
                "referent_is_the_table_entry": z3.Implies(has_ref, c1.get("__payload", s) == rv),
                "no_payload": z3.Implies(z3.And(z3.Not(has_val), z3.Not(has_ref)), is_VNone(c1.get("__payload", s))),
                "unattached": is_VNone(c1.get("_module", s)),
                "registered_under_its_uuid": z3.And(z3.Select(d1, u), z3.Select(m1, u) == VRef(s)),
                "other_entries_unchanged": z3.ForAll([k], z3.Implies(k != u, z3.And(
                    z3.Select(d1, k) == z3.Select(d0, k), z3.Implies(z3.Select(d0, k), z3.Select(m1, k) == z3.Select(m0, k)))))}


def register(reg):      # noqa: F811
    for c in (DataBlockToPb(), CodeBlockToPb(), ProxyBlockToPb(), SymbolToPb(), SymAddrConstToPb(), SymAddrAddrToPb(),
              SymExprFromPb("SymAddrConst", [("symbol", "symbol_uuid")]),
              SymExprFromPb("SymAddrAddr", [("symbol1", "symbol1_uuid"), ("symbol2", "symbol2_uuid")]),
              MakeEdge(), BlockDecodePb("DataBlock"), BlockDecodePb("CodeBlock"), BlockDecodePb("ProxyBlock"), SymbolDecodePb()):
        reg.add(c)


FILE_OF = {"DataBlock": "block.py", "CodeBlock": "block.py", "ProxyBlock": "block.py", "Symbol": "symbol.py",
           "Section": "section.py", "ByteInterval": "byteinterval.py", "Module": "module.py"}
PARAM0 = {"Section": "proto_section", "ByteInterval": "proto_interval", "Module": "proto_module"}


class ContainerDecodeAbstract(Contract):
    """assumed (containers are covered by the bounded stand-ins): X._decode_protobuf returns a new X with the given UUID,
    registered in the table, and only ever adds table entries"""
    props = ()
    assumed = True
    selects = staticmethod(lambda self_cls, args, kwargs=None: True)

    def __init__(self, cls):
        self.cls = cls
        self.target = "%s::%s._decode_protobuf" % (FILE_OF[cls], cls)
        self.self_cls = cls
        self.params = {PARAM0[cls]: "pb:" + cls, "uuid": "val", "ir": "ref:IR"}
        self.result = "ref:" + cls
        super().__init__()

    def modifies(self, c0, a):
        return {"*": None}

    def havoc(self, eng, st, c0, a):
        # everything reachable may change: all heap arrays known so far are havocked
        from pyvc.core import fresh as _fresh
        for key in list(st.heap.keys()):
            old = st.heap[key]
            st.heap[key] = _fresh("H_" + key.replace("#", "_").replace("$", "S").replace(".", "_"), old.sort())

    def may_raise(self, c0, a):
        return {"Exception": z3.BoolVal(True)}

    def post(self, c0, c1, a, res):
        ir = a.ir.t
        u = to_val(a.uuid)
        d0, m0 = table(c0, ir)
        d1, m1 = table(c1, ir)
        k = fresh("k", Val)
        r = fresh("r", Int)
        return {"new": z3.And(NEW(c0, a, res.t), c1.kind(res.t) == c1.eng.schema.class_id(self.cls)),
                "uuid": c1.get("uuid", res.t) == u,
                "registered": z3.And(z3.Select(d1, u), z3.Select(m1, u) == VRef(res.t)),
                "table_only_grows": z3.ForAll([k], z3.Implies(z3.And(z3.Select(d0, k), k != u), z3.And(
                    z3.Select(d1, k), z3.Select(m1, k) == z3.Select(m0, k)))),
                "kinds_stable": z3.ForAll([r], z3.Implies(z3.Select(c0.arr("$alive"), r), z3.And(
                    z3.Select(c1.arr("$alive"), r), c1.kind(r) == c0.kind(r), c1.get("uuid", r) == c0.get("uuid", r))))}


class NodeFromPb(IoContract):
    """Node._from_protobuf for class X: decode-or-reuse by UUID with kind check.  If the table already holds a node for
    the message's UUID it must be an X and is returned as is (identity); otherwise X._decode_protobuf builds it.  A UUID
    field that is not 16 bytes is a ValueError; a table entry of another kind a DeserializationError."""
    target = "node.py::Node._from_protobuf"
    props = ("C09", "C17", "C02", "C01")
    inline_callees = INL

    def __init__(self, cls):
        self.cls = cls
        self.variant = cls
        self.self_cls = cls
        self.params = {"proto_object": "pb:" + cls, "ir": "ref:IR"}
        self.result = "ref:" + cls
        super().__init__()

    def selects(self, self_cls, args, kwargs=None):
        return self_cls == self.cls

    def modifies(self, c0, a):
        return {"*": None}

    def frame_obligations(self, eng, c0, c1, a):
        return {}

    def pre(self, c, a):
        return {"message_typed": c.eng.schema.pb.typed(c, a.proto_object.t, self.cls), "is_ir": c.isinst(a.ir.t, "IR"),
                "ir_alive": z3.Select(c.arr("$alive"), a.ir.t), "table_typed": table_typed(c, a.ir.t)}

    def _p(self, c0, a):
        b = msg_uuid(c0, self.cls, "uuid", a.proto_object.t)
        u = VUuid(b2u(b))
        return b, u, lookup(c0, a.ir.t, u)

    def raises(self, c0, a):
        b, u, cached = self._p(c0, a)
        return {"ValueError": z3.Length(b) != 16,
                "DeserializationError": z3.And(z3.Length(b) == 16, is_VRef(cached), z3.Not(c0.isinst(ref(cached), self.cls)))}

    def may_raise(self, c0, a):
        b, u, cached = self._p(c0, a)
        return {"Exception": z3.And(z3.Length(b) == 16, is_VNone(cached))}      # whatever the decoder raises

    def post(self, c0, c1, a, res):
        b, u, cached = self._p(c0, a)
        ir = a.ir.t
        d1, m1 = table(c1, ir)
        return {"existing_node_is_reused": z3.Implies(is_VRef(cached), z3.And(res.t == ref(cached), c0.isinst(res.t, self.cls))),
                "otherwise_a_new_node_with_that_uuid_is_registered": z3.Implies(is_VNone(cached), z3.And(
                    NEW(c0, a, res.t), c1.kind(res.t) == c1.eng.schema.class_id(self.cls), c1.get("uuid", res.t) == u,
                    z3.Select(d1, u), z3.Select(m1, u) == VRef(res.t)))}


def register(reg):      # noqa: F811
    for c in (DataBlockToPb(), CodeBlockToPb(), ProxyBlockToPb(), SymbolToPb(), SymAddrConstToPb(), SymAddrAddrToPb(),
              SymExprFromPb("SymAddrConst", [("symbol", "symbol_uuid")]),
              SymExprFromPb("SymAddrAddr", [("symbol1", "symbol1_uuid"), ("symbol2", "symbol2_uuid")]),
              MakeEdge(), BlockDecodePb("DataBlock"), BlockDecodePb("CodeBlock"), BlockDecodePb("ProxyBlock"), SymbolDecodePb()):
        reg.add(c)
    for cls in ("Section", "ByteInterval", "Module"):
        reg.add(ContainerDecodeAbstract(cls))
    for cls in FILE_OF:
        reg.add(NodeFromPb(cls))


BI = "byteinterval.py::ByteInterval."


class ToProtoBlock(IoContract):
    """ByteInterval._to_protobuf/to_proto_block: offset plus the code / data one-of holding the block's own message"""
    target = BI + "_to_protobuf/to_proto_block"
    props = ("C02", "C01")
    alloc_only = True

    def __init__(self, cls):
        self.cls = cls
        self.variant = cls
        self.params = {"block": "ref:" + cls}
        self.result = "pb:Block"
        self.modifies = lambda c0, a: pbkeys(c0, "Block", cls)
        super().__init__()

    def selects(self, self_cls, args, kwargs=None):
        return args[0].cls == self.cls

    def pre(self, c, a):
        b = a.block.t
        inner = (CodeBlockToPb if self.cls == "CodeBlock" else DataBlockToPb).pre(None, c, Args_self(a.block))
        return {"is_block": c.kind(b) == c.eng.schema.class_id(self.cls), "offset_in_range": in_rng(c.get("_offset", b), U64),
                **inner}

    def post(self, c0, c1, a, res):
        b, m = a.block.t, res.t
        member = "code" if self.cls == "CodeBlock" else "data"
        sub = f(c1, "Block", member, m)
        out = {"new_message": NEW(c0, a, m),
               "offset": f(c1, "Block", "offset", m) == c0.get("_offset", b),
               "one_of_selects_the_block_kind": z3.And(oneof(c1, "Block", "value", m) == VStr(z3.StringVal(member)), is_VRef(sub)),
               "inner_uuid": f(c1, self.cls, "uuid", ref(sub)) == uuid_blob(c0.get("uuid", b)),
               "inner_size": f(c1, self.cls, "size", ref(sub)) == c0.get("_size", b)}
        if self.cls == "CodeBlock":
            out["inner_decode_mode"] = f(c1, "CodeBlock", "decode_mode", ref(sub)) == VInt(enum_(c0.get("decode_mode", b)))
        return out


def Args_self(sv):
    from pyvc.contracts import Args
    a = Args()
    a["self"] = sv
    return a


class DecodeSymExpr(IoContract):
    """ByteInterval._decode_symbolic_expressions/decode_symbolic_expression: the one-of selects the expression class"""
    target = BI + "_decode_symbolic_expressions/decode_symbolic_expression"
    props = ("C02", "C09", "C17", "C01")
    params = {"proto_expr": "pb:SymbolicExpression"}
    closure = {"ir": "ref:IR"}
    modifies = lambda self, c0, a: {k: NEW for k in ("$alive", "$kind", "offset", "scale", "symbol", "symbol1", "symbol2",
                                                     "SymExpr.attributes")}

    def pre(self, c, a):
        m = a.proto_expr.t
        P = c.eng.schema.pb
        ac, aa = f(c, "SymbolicExpression", "addr_const", m), f(c, "SymbolicExpression", "addr_addr", m)
        sel = oneof(c, "SymbolicExpression", "value", m)
        return {"message_typed": z3.And(P.typed(c, m, "SymbolicExpression"),
                                        z3.Implies(is_VRef(ac), P.typed(c, ref(ac), "SymAddrConst")),
                                        z3.Implies(is_VRef(aa), P.typed(c, ref(aa), "SymAddrAddr")),
                                        # a selected member is present
                                        z3.Implies(sel == VStr(z3.StringVal("addr_const")), is_VRef(ac)),
                                        z3.Implies(sel == VStr(z3.StringVal("addr_addr")), is_VRef(aa))),
                "table_typed": table_typed(c, a.ir.t), "is_ir": c.isinst(a.ir.t, "IR")}

    def _sel(self, c0, a):
        sel = oneof(c0, "SymbolicExpression", "value", a.proto_expr.t)
        return sel == VStr(z3.StringVal("addr_const")), sel == VStr(z3.StringVal("addr_addr"))

    def raises(self, c0, a):
        isc, isa = self._sel(c0, a)
        return {"TypeError": z3.And(z3.Not(isc), z3.Not(isa))}

    def may_raise(self, c0, a):
        isc, isa = self._sel(c0, a)
        return {"DeserializationError": z3.Or(isc, isa), "ValueError": z3.Or(isc, isa)}

    def post(self, c0, c1, a, res):
        isc, isa = self._sel(c0, a)
        m = a.proto_expr.t
        e = ref(to_val(res))
        ac, aa = ref(f(c0, "SymbolicExpression", "addr_const", m)), ref(f(c0, "SymbolicExpression", "addr_addr", m))
        look = lambda msg, fld, mm: lookup(c0, a.ir.t, VUuid(b2u(msg_uuid(c0, msg, fld, mm))))
        return {"addr_const_gives_SymAddrConst": z3.Implies(isc, z3.And(
                    c1.kind(e) == c1.eng.schema.class_id("SymAddrConst"),
                    c1.get("offset", e) == f(c0, "SymAddrConst", "offset", ac),
                    c1.get("symbol", e) == look("SymAddrConst", "symbol_uuid", ac))),
                "addr_addr_gives_SymAddrAddr": z3.Implies(isa, z3.And(
                    c1.kind(e) == c1.eng.schema.class_id("SymAddrAddr"),
                    c1.get("offset", e) == f(c0, "SymAddrAddr", "offset", aa),
                    c1.get("scale", e) == f(c0, "SymAddrAddr", "scale", aa),
                    c1.get("symbol1", e) == look("SymAddrAddr", "symbol1_uuid", aa),
                    c1.get("symbol2", e) == look("SymAddrAddr", "symbol2_uuid", aa)))}


class ToProtoBlockAny(IoContract):
    """to_proto_block for a block whose class is only known to be CodeBlock or DataBlock (an element of interval.blocks)"""
    target = BI + "_to_protobuf/to_proto_block"
    props = ("C02", "C01")
    variant = "ByteBlock"
    alloc_only = True
    params = {"block": "ref:ByteBlock"}
    result = "pb:Block"

    def __init__(self):
        super().__init__()
        self.modifies = lambda c0, a: pbkeys(c0, "Block", "CodeBlock", "DataBlock")

    def selects(self, self_cls, args, kwargs=None):
        return args[0].cls not in ("CodeBlock", "DataBlock")

    def pre(self, c, a):
        b = a.block.t
        code, data = c.kind(b) == c.eng.schema.class_id("CodeBlock"), c.kind(b) == c.eng.schema.class_id("DataBlock")
        from pyvc.contracts import Args
        a2 = Args()
        a2["self"] = a.block
        cpre = z3.And(list(CodeBlockToPb().pre(c, a2).values()))
        dpre = z3.And(list(DataBlockToPb().pre(c, a2).values()))
        return {"is_code_or_data_block": z3.Or(code, data), "offset_in_range": in_rng(c.get("_offset", b), U64),
                "in_schema_range": z3.And(z3.Implies(code, cpre), z3.Implies(data, dpre))}

    def post(self, c0, c1, a, res):
        b, m = a.block.t, res.t
        code = c0.kind(b) == c0.eng.schema.class_id("CodeBlock")
        sub = z3.If(code, f(c1, "Block", "code", m), f(c1, "Block", "data", m))
        return {"new_message": NEW(c0, a, m),
                "offset": f(c1, "Block", "offset", m) == c0.get("_offset", b),
                "one_of_selects_the_block_kind": z3.And(is_VRef(sub), oneof(c1, "Block", "value", m) == z3.If(
                    code, VStr(z3.StringVal("code")), VStr(z3.StringVal("data")))),
                "inner_uuid": z3.If(code, f(c1, "CodeBlock", "uuid", ref(sub)), f(c1, "DataBlock", "uuid", ref(sub)))
                == uuid_blob(c0.get("uuid", b)),
                "inner_size": z3.If(code, f(c1, "CodeBlock", "size", ref(sub)), f(c1, "DataBlock", "size", ref(sub)))
                == c0.get("_size", b)}


class IntervalBlocksFill(IoContract):
    """ByteInterval._to_protobuf, block list: exactly one Block message per block of the interval, carrying that block's
    offset, kind (one-of) and own message (map rule over to_proto_block)"""
    target = "byteinterval.py::ByteInterval._to_protobuf"
    variant = "blocks"
    props = ("C02", "C01")
    params = {"self": "ref:ByteInterval"}
    closure = {"proto_interval": "pb:ByteInterval"}
    selects = staticmethod(lambda self_cls, args, kwargs=None: False)
    segment = (lambda src: src.startswith("def to_proto_block"), lambda src: src.startswith("for k, v in self.symbolic_expressions"))
    part_note = "the nested helper to_proto_block and the fill of proto_interval.blocks"

    def __init__(self):
        super().__init__()

        def mods(c0, a):
            out = pbkeys(c0, "ByteInterval", "Block", "CodeBlock", "DataBlock")
            own = lambda c0_, a_, r: z3.Or(r == a_.proto_interval.t, NEW(c0_, a_, r))
            for k in ("#set", "#len", "#items"):
                out["pb.ByteInterval.blocks" + k] = own
            return out
        self.modifies = mods

    def pre(self, c, a):
        from specs import forest
        from pyvc.contracts import Args
        bi = a.self.t
        x = fresh("x", Val)
        a2 = Args()
        a2["block"] = SV("ref", ref(x), cls="ByteBlock")
        bp = ToProtoBlockAny().pre(c, a2)
        return {"blocks_in_range": z3.And(is_VRef(c.get("blocks", bi)), z3.ForAll([x], z3.Implies(
            z3.Select(forest.data(c, c.get("blocks", bi)), x),
            z3.And(is_VRef(x), z3.Select(c.arr("$alive"), ref(x)), *bp.values())))),
                "message_alive": z3.Select(c.arr("$alive"), a.proto_interval.t)}

    def post(self, c0, c1, a, res):
        from specs import forest
        bi, p = a.self.t, a.proto_interval.t
        x, y = fresh("x", Val), fresh("y", Val)
        S = forest.data(c0, c0.get("blocks", bi))
        R = z3.Select(c1.arr("pb.ByteInterval.blocks#set"), p)
        R0 = z3.Select(c0.arr("pb.ByteInterval.blocks#set"), p)

        def same(b, m):
            code = c0.kind(b) == c0.eng.schema.class_id("CodeBlock")
            sub = z3.If(code, f(c1, "Block", "code", m), f(c1, "Block", "data", m))
            return z3.And(f(c1, "Block", "offset", m) == c0.get("_offset", b), is_VRef(sub),
                          z3.If(code, f(c1, "CodeBlock", "uuid", ref(sub)), f(c1, "DataBlock", "uuid", ref(sub)))
                          == uuid_blob(c0.get("uuid", b)))
        return {"every_block_is_written": z3.ForAll([x], z3.Implies(z3.Select(S, x), z3.Exists(
                    [y], z3.And(z3.Select(R, y), is_VRef(y), same(ref(x), ref(y)))))),
                "every_added_message_is_a_block": z3.ForAll([y], z3.Implies(z3.And(z3.Select(R, y), z3.Not(z3.Select(R0, y))), z3.Exists(
                    [x], z3.And(z3.Select(S, x), is_VRef(y), same(ref(x), ref(y))))))}


_reg_prev = register


def register(reg):      # noqa: F811
    _reg_prev(reg)
    for c in (ToProtoBlock("CodeBlock"), ToProtoBlock("DataBlock"), DecodeSymExpr(), ToProtoBlockAny(), IntervalBlocksFill()):
        reg.add(c)


class DecodeBlock(IoContract):
    """ByteInterval._decode_protobuf/decode_block: the one-of selects the block class, the block is decoded-or-reused
    through the table, and its offset is the message's"""
    target = BI + "_decode_protobuf/decode_block"
    props = ("C02", "C09", "C17", "C01")
    params = {"proto_block": "pb:Block"}
    closure = {"ir": "ref:IR"}
    inline_all = True
    contract_callees = ("node.py::Node._from_protobuf",)

    def modifies(self, c0, a):
        return {"*": None}

    def frame_obligations(self, eng, c0, c1, a):
        return {}

    def pre(self, c, a):
        m = a.proto_block.t
        P = c.eng.schema.pb
        cd, dt = f(c, "Block", "code", m), f(c, "Block", "data", m)
        sel = oneof(c, "Block", "value", m)
        return {"message_typed": z3.And(P.typed(c, m, "Block"),
                                        z3.Implies(is_VRef(cd), P.typed(c, ref(cd), "CodeBlock")),
                                        z3.Implies(is_VRef(dt), P.typed(c, ref(dt), "DataBlock")),
                                        z3.Implies(sel == VStr(z3.StringVal("code")), is_VRef(cd)),
                                        z3.Implies(sel == VStr(z3.StringVal("data")), is_VRef(dt))),
                "table_typed": table_typed(c, a.ir.t), "is_ir": c.isinst(a.ir.t, "IR"),
                "ir_alive": z3.Select(c.arr("$alive"), a.ir.t),
                # blocks already in the table are not attached to an interval yet (decode order: blocks of an interval
                # are decoded before the interval exists)
                "table_blocks_unattached": self._unattached(c, a.ir.t), "table_keyed": table_keyed(c, a.ir.t)}

    def _unattached(self, c, ir):
        d, mp = table(c, ir)
        u = fresh("u", Val)
        v = z3.Select(mp, u)
        return z3.ForAll([u], z3.Implies(z3.And(z3.Select(d, u), c.isinst(ref(v), "ByteBlock")),
                                         is_VNone(c.get("_byte_interval", ref(v)))))

    def _sel(self, c0, a):
        sel = oneof(c0, "Block", "value", a.proto_block.t)
        return sel == VStr(z3.StringVal("code")), sel == VStr(z3.StringVal("data"))

    def raises(self, c0, a):
        isc, isd = self._sel(c0, a)
        return {"TypeError": z3.And(z3.Not(isc), z3.Not(isd))}

    def may_raise(self, c0, a):
        isc, isd = self._sel(c0, a)
        return {"Exception": z3.Or(isc, isd)}

    def post(self, c0, c1, a, res):
        isc, isd = self._sel(c0, a)
        m = a.proto_block.t
        b = ref(to_val(res))
        cd, dt = ref(f(c0, "Block", "code", m)), ref(f(c0, "Block", "data", m))
        look = lambda msg, mm: lookup(c0, a.ir.t, VUuid(b2u(msg_uuid(c0, msg, "uuid", mm))))
        return {"offset": c1.get("_offset", b) == f(c0, "Block", "offset", m),
                "code_gives_a_CodeBlock": z3.Implies(isc, z3.And(c1.isinst(b, "CodeBlock"),
                                                                 z3.Implies(is_VRef(look("CodeBlock", cd)), VRef(b) == look("CodeBlock", cd)),
                                                                 c1.get("uuid", b) == VUuid(b2u(msg_uuid(c0, "CodeBlock", "uuid", cd))))),
                "data_gives_a_DataBlock": z3.Implies(isd, z3.And(c1.isinst(b, "DataBlock"),
                                                                 z3.Implies(is_VRef(look("DataBlock", dt)), VRef(b) == look("DataBlock", dt)),
                                                                 c1.get("uuid", b) == VUuid(b2u(msg_uuid(c0, "DataBlock", "uuid", dt)))))}


_reg_prev2 = register


def register(reg):      # noqa: F811
    _reg_prev2(reg)
    reg.add(DecodeBlock())


# =============================================================================================== container scalars
# The bodies of the container writers contain `x.extend(<generator that allocates messages>)` statements, which are
# outside the verifier's reach.  These contracts verify the *rest* of each body: the dropped statements are listed in
# the evidence, and the assumption is that each only fills the repeated / map field it names (and allocates).

def _is_fill(src):
    return (".extend(" in src and src.split(".extend(")[0].count(".") == 1) or src.startswith("self._write_protobuf_aux_data(")


class ModuleToPbScalars(WriterBase):
    """Module._to_protobuf: every scalar field, and for proxies / sections / symbols exactly one message per member, each
    carrying that member's own fields (map rule over the member writers' contracts); the AuxData fill is left out"""
    target = "module.py::Module._to_protobuf"
    msg = "Module"
    params = {"self": "ref:Module"}
    drop_stmt = staticmethod(lambda src: src.startswith("self._write_protobuf_aux_data("))
    part_note = "all statements except the fill of aux_data"
    ENUMS = {"isa": "Module.ISA", "file_format": "Module.FileFormat", "byte_order": "Module.ByteOrder"}
    CHILD = {"proxies": "ProxyBlock", "sections": "Section", "symbols": "Symbol"}

    def __init__(self):
        super().__init__()
        self.modifies = lambda c0, a: pbkeys(c0, "Module", "ProxyBlock", "Section", "Symbol", "ByteInterval", "Block", "CodeBlock",
                                             "DataBlock", "SymbolicExpression", "SymAddrConst", "SymAddrAddr")

    def may_raise(self, c0, a):
        return {"Exception": z3.BoolVal(True)}        # whatever the (assumed) interval writer raises

    def _members(self, c, m, field):
        from specs import forest
        return forest.data(c, c.get(field, m))

    def pre(self, c, a):
        m = a.self.t
        ep = c.get("entry_point", m)
        en = [z3.And(is_VEnum(c.get(k, m)), ecls(c.get(k, m)) == c.eng.schema.class_id(q),
                     RANGES["int32"][0] <= enum_(c.get(k, m)), enum_(c.get(k, m)) <= RANGES["int32"][1])
              for k, q in self.ENUMS.items()]
        x = fresh("x", Val)
        y = fresh("y", Val)
        out = {"in_schema_range": z3.And(is_VUuid(c.get("uuid", m)), is_VStr(c.get("binary_path", m)), is_VStr(c.get("name", m)),
                                         in_rng(c.get("preferred_addr", m), U64), in_rng(c.get("rebase_delta", m), I64), *en,
                                         z3.Or(is_VNone(ep), z3.And(is_VRef(ep), is_VUuid(c.get("uuid", ref(ep))))))}
        # the members are typed objects of their kind (forest invariant) in the schema's ranges
        from pyvc.contracts import Args
        def member_pre(field, K):
            a2 = Args()
            a2["self"] = SV("ref", ref(x), cls=self.CHILD[field])
            clauses = K.pre(K, c, a2) if False else K().pre(c, a2)
            extra = []
            if field == "symbols":
                pl = c.get("__payload", ref(x))
                extra.append(z3.Implies(is_VRef(pl), z3.Select(c.arr("$alive"), ref(pl))))     # no dangling payload
            return z3.ForAll([x], z3.Implies(z3.Select(self._members(c, m, field), x), z3.And(
                is_VRef(x), z3.Select(c.arr("$alive"), ref(x)), c.kind(ref(x)) == c.eng.schema.class_id(self.CHILD[field]),
                *(list(clauses.values()) + extra))))
        out["wrappers"] = z3.And([is_VRef(c.get(fld, m)) for fld in self.CHILD])
        out["proxies_in_range"] = member_pre("proxies", ProxyBlockToPb)
        out["wrappers"] = z3.And(out["wrappers"])
        out["sections_in_range"] = member_pre("sections", SectionToPbScalars)
        out["symbols_in_range"] = member_pre("symbols", SymbolToPb)
        return out

    def post(self, c0, c1, a, res):
        m, p = a.self.t, res.t
        ep = c0.get("entry_point", m)
        from pyvc.iomodel import BSeq
        out = {"new_message": NEW(c0, a, p), "uuid": f(c1, "Module", "uuid", p) == uuid_blob(c0.get("uuid", m)),
               "entry_point": f(c1, "Module", "entry_point", p) == z3.If(is_VNone(ep), blob_val(z3.Empty(BSeq)),
                                                                       uuid_blob(c0.get("uuid", ref(ep))))}
        for k in ("binary_path", "name", "preferred_addr", "rebase_delta"):
            out[k] = f(c1, "Module", k, p) == c0.get(k, m)
        for k in self.ENUMS:
            out[k + "_number"] = f(c1, "Module", k, p) == VInt(enum_(c0.get(k, m)))
        x, y = fresh("x", Val), fresh("y", Val)
        same = {"proxies": lambda xo, ym: f(c1, "ProxyBlock", "uuid", ym) == uuid_blob(c0.get("uuid", xo)),
                "sections": lambda xo, ym: z3.And(f(c1, "Section", "uuid", ym) == uuid_blob(c0.get("uuid", xo)),
                                                  f(c1, "Section", "name", ym) == c0.get("name", xo)),
                "symbols": lambda xo, ym: z3.And(f(c1, "Symbol", "uuid", ym) == uuid_blob(c0.get("uuid", xo)),
                                                 f(c1, "Symbol", "name", ym) == c0.get("_name", xo),
                                                 f(c1, "Symbol", "at_end", ym) == c0.get("at_end", xo))}
        for field in self.CHILD:
            S = self._members(c0, m, field)
            R = z3.Select(c1.arr("pb.Module.%s#set" % field), p)
            out["every_member_of_%s_is_written" % field] = z3.ForAll([x], z3.Implies(z3.Select(S, x), z3.Exists(
                [y], z3.And(z3.Select(R, y), is_VRef(y), same[field](ref(x), ref(y))))))
            out["every_message_in_%s_is_a_member" % field] = z3.ForAll([y], z3.Implies(z3.Select(R, y), z3.Exists(
                [x], z3.And(z3.Select(S, x), is_VRef(y), same[field](ref(x), ref(y))))))
        return out


class SectionToPbScalars(WriterBase):
    target = "section.py::Section._to_protobuf"
    msg = "Section"
    params = {"self": "ref:Section"}
    def __init__(self):
        super().__init__()
        self.modifies = lambda c0, a: pbkeys(c0, "Section", "ByteInterval", "Block", "CodeBlock", "DataBlock", "SymbolicExpression",
                                             "SymAddrConst", "SymAddrAddr")

    def may_raise(self, c0, a):
        return {"Exception": z3.BoolVal(True)}        # whatever the (assumed) interval writer raises

    def pre(self, c, a):
        from specs import forest
        s = a.self.t
        x = fresh("x", Val)
        flags = z3.Select(c.arr("Section.flags"), s)
        members = forest.data(c, c.get("byte_intervals", s))
        return {"in_schema_range": z3.And(is_VUuid(c.get("uuid", s)), is_VStr(c.get("name", s)),
                                          z3.ForAll([x], z3.Implies(z3.Select(flags, x), is_VEnum(x)))),
                "intervals_typed": z3.And(is_VRef(c.get("byte_intervals", s)), z3.ForAll([x], z3.Implies(
                    z3.Select(members, x), z3.And(is_VRef(x), z3.Select(c.arr("$alive"), ref(x)),
                                                  c.kind(ref(x)) == c.eng.schema.class_id("ByteInterval"),
                                                  is_VUuid(c.get("uuid", ref(x)))))))}

    def post(self, c0, c1, a, res):
        s, p = a.self.t, res.t
        x = fresh("x", Val)
        y = fresh("y", Val)
        flags = z3.Select(c0.arr("Section.flags"), s)
        written = z3.Select(c1.arr("pb.Section.section_flags#set"), p)
        return {"new_message": NEW(c0, a, p), "uuid": f(c1, "Section", "uuid", p) == uuid_blob(c0.get("uuid", s)),
                "name": f(c1, "Section", "name", p) == c0.get("name", s),
                "flags_are_the_numbers_of_the_section_flags": z3.ForAll([x], z3.Select(written, x) == z3.Exists(
                    [y], z3.And(z3.Select(flags, y), x == VInt(enum_(y))))),
                **self._intervals(c0, c1, s, p)}

    def _intervals(self, c0, c1, s, p):
        from specs import forest
        x, y = fresh("x", Val), fresh("y", Val)
        S = forest.data(c0, c0.get("byte_intervals", s))
        R = z3.Select(c1.arr("pb.Section.byte_intervals#set"), p)
        same = lambda xo, ym: f(c1, "ByteInterval", "uuid", ym) == uuid_blob(c0.get("uuid", xo))
        return {"every_interval_is_written": z3.ForAll([x], z3.Implies(z3.Select(S, x), z3.Exists(
                    [y], z3.And(z3.Select(R, y), is_VRef(y), same(ref(x), ref(y)))))),
                "every_written_message_is_an_interval": z3.ForAll([y], z3.Implies(z3.Select(R, y), z3.Exists(
                    [x], z3.And(z3.Select(S, x), is_VRef(y), same(ref(x), ref(y))))))}


class IrToPbScalars(WriterBase):
    target = "ir.py::IR._to_protobuf"
    msg = "IR"
    variant = "scalars"
    props = ("C02", "C01", "C17")
    params = {"self": "ref:IR"}
    selects = staticmethod(lambda self_cls, args, kwargs=None: False)
    drop_stmt = staticmethod(lambda src: src.startswith("self._write_protobuf_aux_data("))
    part_note = "all statements except the fill of aux_data"

    def may_raise(self, c0, a):
        return {"Exception": z3.BoolVal(True)}

    def __init__(self):
        super().__init__()
        from pyvc.schema import REGION_KEYS
        # (no frame is claimed for message objects: the aggregate IR.cfg_nodes may allocate index objects, after which
        # "did not exist at entry" can no longer be told from the allocation table; this contract is not used at call sites)
        self.modifies = lambda c0, a: dict({k: None for k in pbkeys(c0, "IR", "CFG", "Edge", "EdgeLabel", "Module", "ProxyBlock",
                                                                   "Section", "Symbol", "ByteInterval", "Block", "CodeBlock", "DataBlock",
                                                                   "SymbolicExpression", "SymAddrConst", "SymAddrAddr")},
                                           **{k: None for k in REGION_KEYS})

    def region_invariant(self, c):
        from specs import forest
        return forest.inv_region(c)

    def pre(self, c, a):
        from contracts.aggregates import Aggregate
        i = a.self.t
        n = fresh("n", Int)
        out = Aggregate("IR", "cfg_nodes").pre(c, a)
        out["in_schema_range"] = z3.And(is_VUuid(c.get("uuid", i)), in_rng(c.get("version", i), RANGES["uint32"]),
                                        z3.ForAll([n], z3.Implies(c.isinst(n, "Node"), is_VUuid(c.get("uuid", n)))))
        # every module of the list satisfies the precondition of the module writer
        from pyvc.contracts import Args
        j = fresh("j", Int)
        ml = c.get("modules", i)
        items = z3.Select(c.arr("ListWrapper._data#items"), ref(ml))
        ln = z3.Select(c.arr("ListWrapper._data#len"), ref(ml))
        a2 = Args()
        a2["self"] = SV("ref", ref(z3.Select(items, j)), cls="Module")
        mp = ModuleToPbScalars().pre(c, a2)
        from contracts.cfg import wf_cfg, E as cfg_E, LAB as cfg_LAB
        from pyvc.nxmodel import e_src, e_tgt
        cfg = ref(c.get("cfg", i))
        e_ = fresh("e", Val)
        lab = z3.Select(cfg_LAB(c, cfg), e_)
        out["cfg_typed"] = z3.And(is_VRef(c.get("cfg", i)), wf_cfg(c, cfg), z3.ForAll([e_], z3.Implies(z3.Select(cfg_E(c, cfg), e_), z3.And(
            is_VRef(e_src(e_)), is_VRef(e_tgt(e_)), z3.Select(c.arr("$alive"), ref(e_src(e_))), z3.Select(c.arr("$alive"), ref(e_tgt(e_))),
            is_VUuid(c.get("uuid", ref(e_src(e_)))), is_VUuid(c.get("uuid", ref(e_tgt(e_)))),
            z3.Implies(Val.is_VPair(lab), z3.And(
                is_VEnum(fst(lab)), RANGES["int32"][0] <= enum_(fst(lab)), enum_(fst(lab)) <= RANGES["int32"][1],
                is_VBool(fst(snd(lab))), is_VBool(fst(snd(snd(lab))))))))))
        out["modules_in_range"] = z3.ForAll([j], z3.Implies(z3.And(0 <= j, j < ln), z3.And(
            is_VRef(z3.Select(items, j)), z3.Select(c.arr("$alive"), ref(z3.Select(items, j))),
            c.kind(ref(z3.Select(items, j))) == c.eng.schema.class_id("Module"), *mp.values())))
        return out

    def post(self, c0, c1, a, res):
        from contracts.aggregates import Aggregate
        i, p = a.self.t, res.t
        cfg = f(c1, "IR", "cfg", p)
        x = fresh("x", Val)
        v = fresh("v", Val)
        member = Aggregate("IR", "cfg_nodes").yields(c0, a, v)
        written = z3.Select(c1.arr("pb.CFG.vertices#set"), ref(cfg))
        return {"new_message": NEW(c0, a, p),
                "uuid": f(c1, "IR", "uuid", p) == uuid_blob(c0.get("uuid", i)),
                "version": f(c1, "IR", "version", p) == c0.get("version", i),
                "cfg_present": is_VRef(cfg),
                "vertices_name_every_cfg_node_of_the_ir": z3.ForAll([x], z3.Select(written, x) == z3.Exists(
                    [v], z3.And(member, x == uuid_blob(c0.get("uuid", ref(v)))))),
                **self._modules(c0, c1, i, p), **self._edges(c0, c1, i, p)}

    def lemmas(self, c0, c1, a, res):
        from contracts.cfg import in_view, E as cfg_E, LAB as cfg_LAB
        from pyvc.nxmodel import e_src, e_tgt
        cfg = ref(c0.get("cfg", a.self.t))
        e_ = fresh("e", Val)
        return {"graph_edges_are_in_the_view": z3.ForAll([e_], z3.Implies(
            z3.Select(cfg_E(c0, cfg), e_), in_view(c0, cfg, e_src(e_), e_tgt(e_), z3.Select(cfg_LAB(c0, cfg), e_))),
            patterns=[z3.Select(cfg_E(c0, cfg), e_)])}

    def _edges(self, c0, c1, i, p):
        from contracts.cfg import in_view, E as cfg_E, LAB as cfg_LAB
        from pyvc.nxmodel import e_src, e_tgt
        e_ = fresh("e", Val)
        cfgm = ref(f(c1, "IR", "cfg", p))
        cfg = ref(c0.get("cfg", i))
        R = z3.Select(c1.arr("pb.CFG.edges#set"), cfgm)
        s_, t_, l_, y = fresh("s", Val), fresh("t", Val), fresh("l", Val), fresh("y", Val)

        def same(ym):
            lm = f(c1, "Edge", "label", ym)
            return z3.And(f(c1, "Edge", "source_uuid", ym) == uuid_blob(c0.get("uuid", ref(s_))),
                          f(c1, "Edge", "target_uuid", ym) == uuid_blob(c0.get("uuid", ref(t_))),
                          z3.Implies(is_VNone(l_), is_VNone(lm)),
                          z3.Implies(Val.is_VPair(l_), z3.And(
                              is_VRef(lm), f(c1, "EdgeLabel", "type", ref(lm)) == VInt(enum_(fst(l_))),
                              f(c1, "EdgeLabel", "conditional", ref(lm)) == fst(snd(l_)),
                              f(c1, "EdgeLabel", "direct", ref(lm)) == fst(snd(snd(l_))))))
        return {"every_edge_is_written": z3.ForAll([s_, t_, l_], z3.Implies(in_view(c0, cfg, s_, t_, l_), z3.Exists(
                    [y], z3.And(z3.Select(R, y), is_VRef(y), same(ref(y)))))),
                "every_written_edge_message_is_an_edge": z3.ForAll([y], z3.Implies(z3.Select(R, y), z3.Exists(
                    [e_], z3.And(z3.Select(cfg_E(c0, cfg), e_), is_VRef(y),
                                 z3.substitute(same(ref(y)), (s_, e_src(e_)), (t_, e_tgt(e_)), (l_, z3.Select(cfg_LAB(c0, cfg), e_)))))))}

    def _modules(self, c0, c1, i, p):
        j = fresh("j", Int)
        y = fresh("y", Val)
        ml = c0.get("modules", i)
        items = z3.Select(c0.arr("ListWrapper._data#items"), ref(ml))
        ln = z3.Select(c0.arr("ListWrapper._data#len"), ref(ml))
        R = z3.Select(c1.arr("pb.IR.modules#set"), p)
        same = lambda mo, ym: z3.And(f(c1, "Module", "uuid", ym) == uuid_blob(c0.get("uuid", mo)),
                                     f(c1, "Module", "name", ym) == c0.get("name", mo))
        return {"every_module_is_written": z3.ForAll([j], z3.Implies(z3.And(0 <= j, j < ln), z3.Exists(
                    [y], z3.And(z3.Select(R, y), is_VRef(y), same(ref(z3.Select(items, j)), ref(y)))))),
                "every_written_message_is_a_module": z3.ForAll([y], z3.Implies(z3.Select(R, y), z3.Exists(
                    [j], z3.And(0 <= j, j < ln, is_VRef(y), same(ref(z3.Select(items, j)), ref(y))))))}


class ModuleEntryPoint(IoContract):
    """Module._decode_protobuf, entry-point segment: no entry point for an empty field; otherwise the very object the table
    holds for that UUID, which must be a CodeBlock (DeserializationError if missing or of another kind)"""
    target = "module.py::Module._decode_protobuf"
    variant = "entry_point"
    props = ("C09", "C17", "C02", "C01")
    inline_callees = INL
    self_cls = "Module"
    params = {"proto_module": "pb:Module", "uuid": "val", "ir": "ref:IR"}
    closure = {"m": "ref:Module"}
    selects = staticmethod(lambda self_cls, args, kwargs=None: False)
    segment = (lambda src: "entry_point" in src and not src.startswith(("m = cls(", "assert ")),
               lambda src: src.startswith("m.symbols.update("))
    part_note = "the statements from the first one that mentions entry_point (after the construction) up to (not including) `m.symbols.update(...)`"
    modifies = {"entry_point": lambda c0, a, r: r == a.m.t}

    def pre(self, c, a):
        return {"message_typed": c.eng.schema.pb.typed(c, a.proto_module.t, "Module"), "table_typed": table_typed(c, a.ir.t),
                "is_ir": c.isinst(a.ir.t, "IR"),
                # at this program point m is the module just constructed from the scalar fields (proved by the construction
                # segment): it has no entry point yet
                "module_has_no_entry_point_yet": is_VNone(c.get("entry_point", a.m.t))}

    def _p(self, c0, a):
        b = msg_uuid(c0, "Module", "entry_point", a.proto_module.t)
        return b, lookup(c0, a.ir.t, VUuid(b2u(b)))

    def raises(self, c0, a):
        b, v = self._p(c0, a)
        return {"ValueError": z3.And(z3.Length(b) != 0, z3.Length(b) != 16),
                "DeserializationError": z3.And(z3.Length(b) == 16, z3.Not(z3.And(is_VRef(v), c0.isinst(ref(v), "CodeBlock"))))}

    def post(self, c0, c1, a, res):
        b, v = self._p(c0, a)
        return {"empty_field_means_no_entry_point": z3.Implies(z3.Length(b) == 0, is_VNone(c1.get("entry_point", a.m.t))),
                "entry_point_is_the_table_entry": z3.Implies(z3.Length(b) == 16, c1.get("entry_point", a.m.t) == v)}


_reg_prev3 = register


def register(reg):      # noqa: F811
    _reg_prev3(reg)
    for c in (ModuleToPbScalars(), SectionToPbScalars(), IrToPbScalars(), ModuleEntryPoint()):
        reg.add(c)


class ByteIntervalToPbScalars(WriterBase):
    """ByteInterval._to_protobuf up to the block list: uuid, the address-presence flag (an address of 0 is present), address,
    size, contents"""
    target = "byteinterval.py::ByteInterval._to_protobuf"
    msg = "ByteInterval"
    variant = "scalars"
    selects = staticmethod(lambda self_cls, args, kwargs=None: False)
    params = {"self": "ref:ByteInterval"}
    segment = (lambda src: src.startswith("proto_interval = "), lambda src: src.startswith("def to_proto_block"))
    part_note = "the statements before the nested helper to_proto_block (uuid, has_address, address, size, contents)"

    def pre(self, c, a):
        b = a.self.t
        ad = c.get("_address", b)
        return {"in_schema_range": z3.And(is_VUuid(c.get("uuid", b)), z3.Or(is_VNone(ad), in_rng(ad, U64)),
                                          in_rng(c.get("_size", b), U64))}

    def post(self, c0, c1, a, res):
        return {}

    def frame_obligations(self, eng, c0, c1, a):
        from pyvc.iomodel import arr_seq
        b = a.self.t
        ad = c0.get("_address", b)
        p = fresh("p", Int)
        items, n = z3.Select(c0.arr("contents#items"), b), z3.Select(c0.arr("contents#len"), b)
        fields = z3.And(
            f(c1, "ByteInterval", "uuid", p) == uuid_blob(c0.get("uuid", b)),
            f(c1, "ByteInterval", "has_address", p) == VBool(z3.Not(is_VNone(ad))),
            z3.Implies(is_VInt(ad), f(c1, "ByteInterval", "address", p) == ad),
            z3.Implies(is_VNone(ad), f(c1, "ByteInterval", "address", p) == VInt(0)),
            f(c1, "ByteInterval", "size", p) == c0.get("_size", b),
            f(c1, "ByteInterval", "contents", p) == blob_val(arr_seq(items, n)))
        return {"scalar_fields": z3.ForAll([p], z3.Implies(z3.And(NEW(c0, a, p), z3.Select(c1.arr("$alive"), p)), fields))}


class ByteIntervalToPbAbstract(WriterBase):
    """assumed at call sites (the body after the scalar segment - block list and symbolic expressions - is covered by
    the bounded stand-in): ByteInterval._to_protobuf returns a new message carrying the interval's UUID"""
    target = "byteinterval.py::ByteInterval._to_protobuf"
    msg = "ByteInterval"
    variant = "abstract"
    props = ()
    assumed = True
    selects = staticmethod(lambda self_cls, args, kwargs=None: True)
    params = {"self": "ref:ByteInterval"}

    def __init__(self):
        super().__init__()
        self.modifies = lambda c0, a: pbkeys(c0, "ByteInterval", "Block", "CodeBlock", "DataBlock", "SymbolicExpression",
                                             "SymAddrConst", "SymAddrAddr")

    def pre(self, c, a):
        return {"uuid_typed": is_VUuid(c.get("uuid", a.self.t))}

    def may_raise(self, c0, a):
        return {"Exception": z3.BoolVal(True)}

    def post(self, c0, c1, a, res):
        return {"new_message": NEW(c0, a, res.t), "uuid": f(c1, "ByteInterval", "uuid", res.t) == uuid_blob(c0.get("uuid", a.self.t))}


_reg_prev4 = register


def register(reg):      # noqa: F811
    _reg_prev4(reg)
    reg.add(ByteIntervalToPbScalars())
    reg.add(ByteIntervalToPbAbstract())


class ModuleDecodeScalars(IoContract):
    """Module._decode_protobuf, construction segment: the new module's scalar attributes equal the message fields, the enum
    fields are the Python constants of the schema numbers (ValueError for a number the schema does not define), and the module
    starts empty and unattached"""
    target = "module.py::Module._decode_protobuf"
    variant = "scalars"
    props = ("C02", "C17", "C01")
    inline_all = True
    self_cls = "Module"
    params = {"proto_module": "pb:Module", "uuid": "val", "ir": "ref:IR"}
    selects = staticmethod(lambda self_cls, args, kwargs=None: False)
    segment = (lambda src: src.startswith("m = cls("), lambda src: src.startswith("m._add_to_uuid_cache("))
    part_note = "the statement `m = cls(...)` (construction of the module from the scalar fields)"
    ENUMS = {"isa": ("Module.ISA", "ISA"), "file_format": ("Module.FileFormat", "FileFormat"), "byte_order": ("Module.ByteOrder", "ByteOrder")}

    def modifies(self, c0, a):
        return {"*": None}

    def pre(self, c, a):
        return {"message_typed": c.eng.schema.pb.typed(c, a.proto_module.t, "Module"), "uuid_typed": is_VUuid(to_val(a.uuid))}

    def raises(self, c0, a):
        m = a.proto_module.t
        bad = []
        for fld, (_q, en) in self.ENUMS.items():
            nums = [n for (_, n) in c0.eng.schema.pb.enums[en]]
            bad.append(z3.Not(z3.Or([ival(f(c0, "Module", fld, m)) == k for k in nums])))
        return {"ValueError": z3.Or(bad)}

    def frame_obligations(self, eng, c0, c1, a):
        # the segment binds the local `m`: its effect is stated on the only Module object allocated in it
        p = a.proto_module.t
        n = fresh("n", Int)
        mod = c1.eng.schema.class_id("Module")
        fields = [c1.get("uuid", n) == to_val(a.uuid), is_VNone(c1.get("_ir", n)), is_VNone(c1.get("entry_point", n))]
        for k in ("binary_path", "name", "preferred_addr", "rebase_delta"):
            fields.append(c1.get(k, n) == f(c0, "Module", k, p))
        for fld, (q, _en) in self.ENUMS.items():
            fields.append(c1.get(fld, n) == VEnum(c1.eng.schema.class_id(q), ival(f(c0, "Module", fld, p))))
        return {"module_fields_from_message": z3.ForAll([n], z3.Implies(
            z3.And(NEW(c0, a, n), z3.Select(c1.arr("$alive"), n), c1.kind(n) == mod), z3.And(fields)))}


_reg_prev5 = register


def register(reg):      # noqa: F811
    _reg_prev5(reg)
    reg.add(ModuleDecodeScalars())


class SectionDecodeScalars(IoContract):
    """Section._decode_protobuf, construction segment: name and UUID from the message, flags = the Python constants of the
    message's flag numbers (ValueError for a number the schema does not define); the section starts empty and unattached"""
    target = "section.py::Section._decode_protobuf"
    variant = "scalars"
    props = ("C02", "C17", "C01")
    inline_all = True
    generators_fully_consumed = True       # Section.__init__ does set(flags) on the generator it is given
    self_cls = "Section"
    params = {"proto_section": "pb:Section", "uuid": "val", "ir": "ref:IR"}
    selects = staticmethod(lambda self_cls, args, kwargs=None: False)
    segment = (lambda src: src.startswith("s = cls("), lambda src: src.startswith("s._add_to_uuid_cache("))
    part_note = "the statement `s = cls(...)`"

    def modifies(self, c0, a):
        return {"*": None}

    def _flags(self, c0, a):
        return z3.Select(c0.arr("pb.Section.section_flags#set"), a.proto_section.t)

    def pre(self, c, a):
        x = fresh("x", Val)
        return {"message_typed": z3.And(c.eng.schema.pb.typed(c, a.proto_section.t, "Section"),
                                        z3.ForAll([x], z3.Implies(z3.Select(self._flags(c, a), x), is_VInt(x)))),
                "uuid_typed": is_VUuid(to_val(a.uuid))}

    def raises(self, c0, a):
        x = fresh("x", Val)
        nums = [n for (_, n) in c0.eng.schema.pb.enums["SectionFlag"]]
        return {"ValueError": z3.Exists([x], z3.And(z3.Select(self._flags(c0, a), x), z3.Not(z3.Or([ival(x) == k for k in nums]))))}

    def frame_obligations(self, eng, c0, c1, a):
        p = a.proto_section.t
        n = fresh("n", Int)
        x, y = fresh("x", Val), fresh("y", Val)
        fcls = c1.eng.schema.class_id("Section.Flag")
        flags = z3.Select(c1.arr("Section.flags"), n)
        return {"section_fields_from_message": z3.ForAll([n], z3.Implies(
            z3.And(NEW(c0, a, n), z3.Select(c1.arr("$alive"), n), c1.kind(n) == c1.eng.schema.class_id("Section")),
            z3.And(c1.get("uuid", n) == to_val(a.uuid), c1.get("name", n) == f(c0, "Section", "name", p),
                   is_VNone(c1.get("_module", n)),
                   z3.ForAll([x], z3.Select(flags, x) == z3.Exists([y], z3.And(z3.Select(self._flags(c0, a), y),
                                                                              x == VEnum(fcls, ival(y))))))))}


_reg_prev6 = register


def register(reg):      # noqa: F811
    _reg_prev6(reg)
    reg.add(SectionDecodeScalars())


class IntervalDecodeScalars(IoContract):
    """ByteInterval._decode_protobuf, construction of the interval (with the block list left out): the address is present iff
    the has_address flag is set (an address of 0 with the flag set is address 0; a non-zero address field without the flag is
    no address), size and contents are the message's, and more content bytes than size are rejected with ValueError"""
    target = "byteinterval.py::ByteInterval._decode_protobuf"
    variant = "scalars"
    props = ("C02", "C17", "C19", "C01")
    inline_all = True
    self_cls = "ByteInterval"
    params = {"proto_interval": "pb:ByteInterval", "uuid": "val", "ir": "ref:IR"}
    selects = staticmethod(lambda self_cls, args, kwargs=None: False)
    segment = (lambda src: not src.startswith(("assert ", "def ")), lambda src: src.startswith("result._add_to_uuid_cache("))
    drop_kwarg = ("blocks",)
    part_note = "the statement `result = cls(...)` without its blocks= argument (the interval is built without blocks)"

    def modifies(self, c0, a):
        return {"*": None}

    def pre(self, c, a):
        return {"message_typed": c.eng.schema.pb.typed(c, a.proto_interval.t, "ByteInterval"), "uuid_typed": is_VUuid(to_val(a.uuid))}

    def _p(self, c0, a):
        p = a.proto_interval.t
        contents = blob_seq(oid(f(c0, "ByteInterval", "contents", p)))
        return p, contents, ival(f(c0, "ByteInterval", "size", p))

    def raises(self, c0, a):
        p, contents, size = self._p(c0, a)
        return {"ValueError": z3.Length(contents) > size}

    def frame_obligations(self, eng, c0, c1, a):
        from pyvc.iomodel import arr_seq
        p, contents, size = self._p(c0, a)
        n = fresh("n", Int)
        has = bval(f(c0, "ByteInterval", "has_address", p))
        items, ln = z3.Select(c1.arr("contents#items"), n), z3.Select(c1.arr("contents#len"), n)
        i = fresh("i", Int)
        return {"interval_fields_from_message": z3.ForAll([n], z3.Implies(
            z3.And(NEW(c0, a, n), z3.Select(c1.arr("$alive"), n), c1.kind(n) == c1.eng.schema.class_id("ByteInterval")),
            z3.And(c1.get("uuid", n) == to_val(a.uuid),
                   c1.get("_address", n) == z3.If(has, f(c0, "ByteInterval", "address", p), VNone),
                   c1.get("_size", n) == VInt(size),
                   ln == z3.Length(contents),
                   z3.ForAll([i], z3.Implies(z3.And(0 <= i, i < ln), z3.Select(items, i) == VInt(contents[i]))),
                   is_VNone(c1.get("_section", n)))))}


_reg_prev7 = register


def register(reg):      # noqa: F811
    _reg_prev7(reg)
    reg.add(IntervalDecodeScalars())



class CfgFromPb(IoContract):
    """CFG._from_protobuf(edges, ir): a new CFG whose edge set is exactly the set of edges make_edge builds from the messages
    (endpoints = the table's objects, labels as in the messages); any message that make_edge rejects makes the call raise"""
    target = "cfg.py::CFG._from_protobuf"
    props = ("C02", "C09", "C17", "C01", "C11")
    inline_callees = INL
    generators_fully_consumed = True        # CFG.update iterates over all edges
    params = {"edges": "pbrep:CFG.edges", "ir": "ref:IR"}
    result = "ref:CFG"

    def modifies(self, c0, a):
        return {"*": None}

    def frame_obligations(self, eng, c0, c1, a):
        return {}

    def _msgs(self, c, a):
        r_, _m, _a = a.edges.x
        return z3.Select(c.arr("pb.CFG.edges#set"), r_)

    def pre(self, c, a):
        x = fresh("x", Val)
        from pyvc.contracts import Args
        a2 = Args()
        a2["ir"] = a.ir
        a2["edge"] = SV("ref", ref(x), cls="pb:Edge")
        mp = MakeEdge().pre(c, a2)
        return {"messages_typed": z3.ForAll([x], z3.Implies(z3.And(z3.Select(self._msgs(c, a), x), is_VRef(x)), z3.And(list(mp.values())))),
                "is_ir": c.isinst(a.ir.t, "IR")}

    def _edge_of(self, c0, a, x):
        """(ok, source, target, label) that make_edge computes for message x"""
        from pyvc.contracts import Args
        a2 = Args()
        a2["ir"] = a.ir
        a2["edge"] = SV("ref", ref(x), cls="pb:Edge")
        me = MakeEdge()
        sb, tb, sv, tv, cfgn, lab, tnum, members = me._parts(c0, a2)
        rz = me.raises(c0, a2)
        bad = z3.Or(list(rz.values()))
        tcls = c0.eng.schema.class_id("EdgeType")
        label = z3.If(is_VNone(lab), VNone, VPair(VEnum(tcls, tnum), VPair(f(c0, "EdgeLabel", "conditional", ref(lab)),
                                                                           VPair(f(c0, "EdgeLabel", "direct", ref(lab)), VNone))))
        return bad, sv, tv, label

    def may_raise(self, c0, a):
        x = fresh("x", Val)
        bad, sv, tv, label = self._edge_of(c0, a, x)
        return {"Exception": z3.Exists([x], z3.And(z3.Select(self._msgs(c0, a), x), is_VRef(x), bad))}

    def post(self, c0, c1, a, res):
        from contracts.cfg import in_view, wf_cfg
        x = fresh("x", Val)
        s_, t_, l_ = fresh("s", Val), fresh("t", Val), fresh("l", Val)
        bad, sv, tv, label = self._edge_of(c0, a, x)
        return {"new_cfg": NEW(c0, a, res.t), "well_formed": wf_cfg(c1, res.t),
                "no_message_was_rejected": z3.ForAll([x], z3.Implies(z3.And(z3.Select(self._msgs(c0, a), x), is_VRef(x)), z3.Not(bad))),
                "edges_are_exactly_those_of_the_messages": z3.ForAll([s_, t_, l_], in_view(c1, res.t, s_, t_, l_) == z3.Exists(
                    [x], z3.And(z3.Select(self._msgs(c0, a), x), is_VRef(x), sv == s_, tv == t_, label == l_)))}


_reg_prev8 = register


def register(reg):      # noqa: F811
    _reg_prev8(reg)
    reg.add(CfgFromPb())
