"""Contracts for the file header (C17, C02, C01): IR.load_protobuf_file / IR.save_protobuf_file."""
import z3
from pyvc.contracts import Contract
from pyvc.core import SV, Val, VNone, VInt, VRef, is_VNone, is_VInt, is_VRef, ival, ref, fresh, Int, to_val
from pyvc.iomodel import IoContract, BSeq, blob_seq, blob_val, oid, const_seq, byte_range
from pyvc.overlay import protobuf_version

PROPS = ("C17", "C02", "C01")
MAGIC = b"GTIRB"


def NEW(c0, a, r):
    return z3.Not(z3.Select(c0.arr("$alive"), r))


def remaining(c, s):
    content, pos = z3.Select(c.arr("$stream.content"), s), z3.Select(c.arr("$stream.pos"), s)
    return z3.SubSeq(content, pos, z3.Length(content) - pos)


def header_ok(R):
    """the documented header (PROTOBUF.md): bytes 0-4 ASCII GTIRB, bytes 5-6 reserved, byte 7 the protobuf version"""
    return z3.And(z3.Length(R) >= 8, z3.SubSeq(R, 0, 5) == const_seq(MAGIC), R[7] == protobuf_version())


class NodeFromProtobufIR(Contract):
    """assumed (the decoding of the message is the subject of the other contracts and of the bounded stand-ins):
    IR._from_protobuf(msg, None) returns a new IR built from msg or raises"""
    target = "node.py::Node._from_protobuf"
    variant = "IR"
    props = ()
    assumed = True
    selects = staticmethod(lambda self_cls, args, kwargs=None: self_cls == "IR")
    params = {"proto_object": "pb:IR", "ir": "val"}
    result = "ref:IR"
    modifies = lambda self, c0, a: {k: NEW for k in ("$alive", "$kind")} | {"$ir.loaded_from": None}

    def may_raise(self, c0, a):
        return {"Exception": z3.BoolVal(True)}

    def post(self, c0, c1, a, res):
        return {"new": NEW(c0, a, res.t), "source": c1.get("$ir.loaded_from", res.t) == VRef(a.proto_object.t)}


class IrToProtobuf(Contract):
    """assumed here: IR._to_protobuf returns a new IR message for self (recorded in ghost $pb.source)"""
    target = "ir.py::IR._to_protobuf"
    props = ()
    assumed = True
    selects = staticmethod(lambda self_cls, args, kwargs=None: True)
    params = {"self": "ref:IR"}
    result = "pb:IR"
    modifies = lambda self, c0, a: {k: NEW for k in ("$alive", "$kind", "$pb.source")}

    def may_raise(self, c0, a):
        return {"Exception": z3.BoolVal(True)}

    def post(self, c0, c1, a, res):
        return {"new": NEW(c0, a, res.t), "source": c1.get("$pb.source", res.t) == VRef(a.self.t)}


class LoadFile(IoContract):
    """load_protobuf_file(f): ValueError unless the next 8 bytes are the documented header for this API's protobuf
    version (short files included); then exactly the rest of the stream is parsed as a gtirb.proto.IR message and
    the result is what IR._from_protobuf makes of that message"""
    target = "ir.py::IR.load_protobuf_file"
    props = PROPS
    params = {"protobuf_file": "stream"}
    result = "ref:IR"
    modifies = lambda self, c0, a: {"$stream.pos": lambda c0, a, r: r == a.protobuf_file.t, "$alive": NEW, "$kind": NEW,
                                    "$ir.loaded_from": None, "$pb.parsed_from": NEW,
                                    **{k: NEW for k in c0.eng.schema.pb.keys_of("IR")}}

    def pre(self, c, a):
        s = a.protobuf_file.t
        content, pos = z3.Select(c.arr("$stream.content"), s), z3.Select(c.arr("$stream.pos"), s)
        return {"position_in_range": z3.And(0 <= pos, pos <= z3.Length(content)), "stream_alive": z3.Select(c.arr("$alive"), s)}

    def raises(self, c0, a):
        return {"ValueError": z3.Not(header_ok(remaining(c0, a.protobuf_file.t)))}

    def may_raise(self, c0, a):
        # anything else (malformed message, structural faults, a version field that differs: ValueError again) only
        # after the header was accepted
        return {"Exception": header_ok(remaining(c0, a.protobuf_file.t))}

    def post(self, c0, c1, a, res):
        R = remaining(c0, a.protobuf_file.t)
        m = c1.get("$ir.loaded_from", res.t)
        return {"result_decoded_from_a_message": is_VRef(m),
                "message_parsed_from_exactly_the_bytes_after_the_header":
                    c1.get("$pb.parsed_from", ref(m)) == blob_val(z3.SubSeq(R, 8, z3.Length(R) - 8))}


class SaveFile(IoContract):
    """save_protobuf_file(f) appends GTIRB, two zero bytes, the protobuf version byte, then the serialized message
    of self._to_protobuf()"""
    target = "ir.py::IR.save_protobuf_file"
    props = PROPS
    params = {"self": "ref:IR", "protobuf_file": "stream"}
    modifies = lambda self, c0, a: {"$stream.pos": lambda c0, a, r: r == a.protobuf_file.t,
                                    "$stream.content": lambda c0, a, r: r == a.protobuf_file.t,
                                    "$alive": NEW, "$kind": NEW, "$pb.source": NEW, "$pb.ser": NEW}

    def pre(self, c, a):
        s = a.protobuf_file.t
        content, pos = z3.Select(c.arr("$stream.content"), s), z3.Select(c.arr("$stream.pos"), s)
        return {"append_position": pos == z3.Length(content), "stream_alive": z3.Select(c.arr("$alive"), s)}

    def may_raise(self, c0, a):
        return {"Exception": z3.BoolVal(True)}          # whatever _to_protobuf raises

    def post(self, c0, c1, a, res):
        s = a.protobuf_file.t
        old, new = z3.Select(c0.arr("$stream.content"), s), z3.Select(c1.arr("$stream.content"), s)
        header = const_seq(MAGIC + b"\0\0" + bytes([protobuf_version()]))
        m = fresh("m", Int)
        body = z3.SubSeq(new, z3.Length(old) + 8, z3.Length(new) - z3.Length(old) - 8)
        return {"header_bytes": z3.And(z3.Length(new) >= z3.Length(old) + 8, z3.SubSeq(new, 0, z3.Length(old)) == old,
                                       z3.SubSeq(new, z3.Length(old), 8) == header),
                "body_is_the_serialized_message_of_self": z3.Exists([m], z3.And(
                    NEW(c0, a, m), c1.get("$pb.source", m) == VRef(a.self.t), c1.get("$pb.ser", m) == blob_val(body)))}


def register(reg):
    for c in (NodeFromProtobufIR(), IrToProtobuf(), LoadFile(), SaveFile()):
        reg.add(c)


class IrVersionGuard(Contract):
    """guard contract (prefix of IR._decode_protobuf): a message whose version field differs from this API's protobuf
    version is rejected with ValueError before anything is built"""
    target = "ir.py::IR._decode_protobuf"
    props = ("C17",)
    params = {"proto_ir": "pb:IR", "uuid": "val", "_": "val"}
    modifies = ()
    prefix_until = staticmethod(lambda src: src.startswith("ir = "))

    def pre(self, c, a):
        return {"message_typed": c.eng.schema.pb.typed(c, a.proto_ir.t, "IR")}

    def raises(self, c0, a):
        return {"ValueError": ival(c0.get("pb.IR.version", a.proto_ir.t)) != protobuf_version()}


def register(reg):       # noqa: F811
    for c in (NodeFromProtobufIR(), IrToProtobuf(), LoadFile(), SaveFile(), IrVersionGuard()):
        reg.add(c)
