"""Contracts for the owning collections: attach / detach / move keep the forest, the UUID tables and the
indexes consistent (C03, C04, C05, C06, C12, C16 primitives)."""
import z3
from pyvc.contracts import Contract
from pyvc.core import SV, Val, VNone, VRef, is_VNone, is_VRef, ref, fresh, Int, SetSort
from specs import forest, cache as K
from specs.wf import WF, attach_ok, focus as wf_focus

PROPS = ("C03", "C04", "C05", "C06", "C12", "C16")

ALL_KEYS = ("SetWrapper._data", "_section", "_byte_interval", "_module", "_interval_events", "_local_uuid_cache")


class OwningSetOp(Contract):
    """<Owner>._<X>Set.add / .discard for the interval set of a section and the block set of an interval."""
    props = PROPS

    def __init__(self, file, wrapper, owner_cls, child_cls, parent_field, coll_field, op):
        self.wrapper, self.owner_cls, self.child_cls = wrapper, owner_cls, child_cls
        self.parent_field, self.coll_field, self.op = parent_field, coll_field, op
        self.target = "%s::%s.%s" % (file, wrapper, op)
        self.params = {"self": "ref:" + wrapper, "v": "ref:" + child_cls}
        self.modifies = ("SetWrapper._data", parent_field, "_interval_events", "_local_uuid_cache")
        super().__init__()

    def region_invariant(self, c):
        return forest.inv_region(c)

    def focus(self, clause):
        return wf_focus(clause)

    def owner(self, c, a):
        return c.get("_node", a.self.t)

    def pre(self, c, a):
        w, v = a.self.t, a.v.t
        own = self.owner(c, a)
        out = dict(WF(c))
        out["is_wrapper"] = z3.And(forest.kind_is(c, w, self.wrapper), is_VRef(own), c.isinst(ref(own), self.owner_cls),
                                   c.get(self.coll_field, ref(own)) == VRef(w))
        out["is_child"] = c.isinst(v, self.child_cls)
        if self.op == "add":
            out["uuids_distinct_where_attached"] = attach_ok(c, K.ir_of(c, ref(own)), v, self.child_cls)
        return out

    def lemmas(self, c0, c1, a, res):
        v = a.v.t
        own = self.owner(c0, a)
        n = fresh("n", Int)
        cls = self.child_cls
        d0 = z3.Select(c0.arr("SetWrapper._data"), a.self.t)
        if self.op == "add":
            sub_ir = lambda m: K.ir_of(c0, ref(own))
        else:
            sub_ir = lambda m: z3.If(z3.Select(d0, VRef(v)), VNone, K.ir_of(c0, m))
        return {
            "subtree_same_ir": z3.ForAll([n], z3.Implies(K.in_subtree(c0, v, n, cls), K.ir_of(c0, n) == K.ir_of(c0, v))),
            "root_ir": K.ir_of(c0, v) == z3.If(is_VRef(c0.get(self.parent_field, v)),
                                               K.ir_of(c0, ref(c0.get(self.parent_field, v))), VNone),
            "subtree_shape_unchanged": z3.ForAll([n], K.in_subtree(c1, v, n, cls) == K.in_subtree(c0, v, n, cls)),
            "ir_of_unchanged_outside": z3.ForAll([n], z3.Implies(
                z3.And(K.is_node(c0, n), z3.Not(K.in_subtree(c0, v, n, cls))), K.ir_of(c1, n) == K.ir_of(c0, n))),
            "ir_of_subtree": z3.ForAll([n], z3.Implies(K.in_subtree(c0, v, n, cls), K.ir_of(c1, n) == sub_ir(n))),
        }

    def post(self, c0, c1, a, res):
        w, v = a.self.t, a.v.t
        own = self.owner(c0, a)
        out = dict(WF(c1))
        d0 = z3.Select(c0.arr("SetWrapper._data"), w)
        d1 = z3.Select(c1.arr("SetWrapper._data"), w)
        p0 = c0.get(self.parent_field, v)
        w2 = fresh("w", Int)
        n = fresh("n", Int)
        if self.op == "add":
            out["view"] = d1 == z3.Store(d0, VRef(v), True)
            out["parent"] = c1.get(self.parent_field, v) == own
            # whole view: every other collection is unchanged, except that the previous owner loses v
            oldw = ref(c0.get(self.coll_field, ref(p0)))
            out["other_collections"] = z3.ForAll([w2], z3.Implies(
                w2 != w, z3.Select(c1.arr("SetWrapper._data"), w2) == z3.If(
                    z3.And(is_VRef(p0), w2 == oldw),
                    z3.Store(z3.Select(c0.arr("SetWrapper._data"), w2), VRef(v), False),
                    z3.Select(c0.arr("SetWrapper._data"), w2))))
        else:
            out["view"] = d1 == z3.Store(d0, VRef(v), False)
            out["parent"] = c1.get(self.parent_field, v) == z3.If(z3.Select(d0, VRef(v)), VNone, p0)
            out["other_collections"] = z3.ForAll([w2], z3.Implies(
                w2 != w, z3.Select(c1.arr("SetWrapper._data"), w2) == z3.Select(c0.arr("SetWrapper._data"), w2)))
        out["other_parents"] = z3.ForAll([n], z3.Implies(n != v, c1.get(self.parent_field, n) == c0.get(self.parent_field, n)))
        return out


def register(reg):
    reg.allow_inline("util.py::SetWrapper.add", "util.py::SetWrapper.discard")
    for op in ("add", "discard"):
        reg.add(OwningSetOp("section.py", "Section._ByteIntervalSet", "Section", "ByteInterval", "_section",
                            "byte_intervals", op))
