"""Contracts for the owning collections: attach / detach / move keep the forest, the UUID tables and the
indexes consistent (C03, C04, C05, C06, C12, C16 primitives)."""
import z3
from pyvc.contracts import Contract
from pyvc.core import SV, Val, VNone, VRef, VStr, is_VNone, is_VRef, ref, fresh, Int, SetSort, EmptySet
from specs import forest, cache as K
from specs.wf import WF, attach_ok, focus as wf_focus

PROPS = ("C03", "C04", "C05", "C06", "C12", "C16")

ALL_KEYS = ("SetWrapper._data", "_section", "_byte_interval", "_module", "_interval_events", "_local_uuid_cache")


class OwningSetOp(Contract):
    """<Owner>._<X>Set.add / .discard for the interval set of a section and the block set of an interval."""
    props = PROPS

    def __init__(self, file, wrapper, owner_cls, child_cls, parent_field, coll_field, op):
        self.wrapper, self.owner_cls, self.child_cls = wrapper, owner_cls, child_cls
        self.parent_field, self.coll_field, self.op = parent_field, coll_field, op
        self.target = "%s::%s.%s" % (file, wrapper, op)
        self.params = {"self": "ref:" + wrapper, "v": "ref:" + child_cls}
        self.modifies = ("SetWrapper._data", parent_field, "_interval_events", "_local_uuid_cache")
        super().__init__()

    def region_invariant(self, c):
        return forest.inv_region(c)

    def focus(self, clause):
        return wf_focus(clause)

    def owner(self, c, a):
        return c.get("_node", a.self.t)

    def before_call(self, callee, c, callee_args):
        if "_remove_from_uuid_cache" in callee or "_add_to_uuid_cache" in callee:
            # the subtree being (un)registered was attached as a whole: all its nodes had the IR of its root
            c0 = c.eng.cur_c0
            v = c.eng.cur_args.v.t
            n = fresh("n", Int)
            return {"subtree_same_ir": z3.ForAll([n], z3.Implies(
                K.in_subtree(c0, v, n, self.child_cls), K.ir_of(c0, n) == K.ir_of(c0, v)),
                patterns=[K.ir_of(c0, n), K.uuid_of(c0, n)])}
        return {}

    def pre(self, c, a):
        w, v = a.self.t, a.v.t
        own = self.owner(c, a)
        out = dict(WF(c))
        out["is_wrapper"] = z3.And(forest.kind_is(c, w, self.wrapper), is_VRef(own), c.isinst(ref(own), self.owner_cls),
                                   c.get(self.coll_field, ref(own)) == VRef(w))
        out["is_child"] = c.isinst(v, self.child_cls)
        if self.op == "add":
            out["uuids_distinct_where_attached"] = attach_ok(c, K.ir_of(c, ref(own)), v, self.child_cls)
        return out

    def lemmas(self, c0, c1, a, res):
        v = a.v.t
        own = self.owner(c0, a)
        n = fresh("n", Int)
        cls = self.child_cls
        d0 = z3.Select(c0.arr("SetWrapper._data"), a.self.t)
        if self.op == "add":
            sub_ir = lambda m: K.ir_of(c0, ref(own))
        else:
            sub_ir = lambda m: z3.If(z3.Select(d0, VRef(v)), VNone, K.ir_of(c0, m))
        return {
            "subtree_same_ir": z3.ForAll([n], z3.Implies(K.in_subtree(c0, v, n, cls), K.ir_of(c0, n) == K.ir_of(c0, v))),
            "root_ir": K.ir_of(c0, v) == z3.If(is_VRef(c0.get(self.parent_field, v)),
                                               K.ir_of(c0, ref(c0.get(self.parent_field, v))), VNone),
            "subtree_shape_unchanged": z3.ForAll([n], K.in_subtree(c1, v, n, cls) == K.in_subtree(c0, v, n, cls)),
            "ir_of_unchanged_outside": z3.ForAll([n], z3.Implies(
                z3.And(K.is_node(c0, n), z3.Not(K.in_subtree(c0, v, n, cls))), K.ir_of(c1, n) == K.ir_of(c0, n))),
            "ir_of_subtree": z3.ForAll([n], z3.Implies(K.in_subtree(c0, v, n, cls), K.ir_of(c1, n) == sub_ir(n))),
        }

    def post(self, c0, c1, a, res):
        w, v = a.self.t, a.v.t
        own = self.owner(c0, a)
        out = dict(WF(c1))
        d0 = z3.Select(c0.arr("SetWrapper._data"), w)
        d1 = z3.Select(c1.arr("SetWrapper._data"), w)
        p0 = c0.get(self.parent_field, v)
        w2 = fresh("w", Int)
        n = fresh("n", Int)
        if self.op == "add":
            out["view"] = d1 == z3.Store(d0, VRef(v), True)
            out["parent"] = c1.get(self.parent_field, v) == own
            # whole view: every other collection is unchanged, except that the previous owner loses v
            oldw = ref(c0.get(self.coll_field, ref(p0)))
            out["other_collections"] = z3.ForAll([w2], z3.Implies(
                w2 != w, z3.Select(c1.arr("SetWrapper._data"), w2) == z3.If(
                    z3.And(is_VRef(p0), w2 == oldw),
                    z3.Store(z3.Select(c0.arr("SetWrapper._data"), w2), VRef(v), False),
                    z3.Select(c0.arr("SetWrapper._data"), w2))))
        else:
            out["view"] = d1 == z3.Store(d0, VRef(v), False)
            out["parent"] = c1.get(self.parent_field, v) == z3.If(z3.Select(d0, VRef(v)), VNone, p0)
            out["other_collections"] = z3.ForAll([w2], z3.Implies(
                w2 != w, z3.Select(c1.arr("SetWrapper._data"), w2) == z3.Select(c0.arr("SetWrapper._data"), w2)))
        out["other_parents"] = z3.ForAll([n], z3.Implies(n != v, c1.get(self.parent_field, n) == c0.get(self.parent_field, n)))
        from pyvc.core import Card
        if self.op == "discard":        # (used by the termination argument of clear())
            out["card"] = Card(d1) == Card(d0) - z3.If(z3.Select(d0, VRef(v)), 1, 0)
        # exported for callers (setters, constructors): how attachment changed
        lem = self.lemmas(c0, c1, a, res)
        for k in ("subtree_shape_unchanged", "ir_of_unchanged_outside", "ir_of_subtree"):
            out[k] = lem[k]
        return out


def register(reg):
    reg.allow_inline("util.py::SetWrapper.add", "util.py::SetWrapper.discard")
    for op in ("add", "discard"):
        reg.add(OwningSetOp("section.py", "Section._ByteIntervalSet", "Section", "ByteInterval", "_section",
                            "byte_intervals", op))


# ------------------------------------------------------------------------------------------------ block sets
class BlockSetDiscard(OwningSetOp):
    """ByteInterval._BlockSet.discard, verified for an arbitrary pending set (see forest.pending): it is
    called from inside the bulk insertion loop of _BlockSet.update on the *previous* owner of a block."""

    def __init__(self):
        super().__init__("byteinterval.py", "ByteInterval._BlockSet", "ByteInterval", "ByteBlock", "_byte_interval",
                         "blocks", "discard")

    def ghost_symbolic(self, eng, st):
        return {"P": fresh("P", SetSort), "P_owner": fresh("P_owner", Int)}

    def pre(self, c, a):
        out = super().pre(c, a)
        P, _ = forest.pending(c)
        out["not_pending"] = z3.Not(z3.Select(P, VRef(a.v.t)))
        return out


class IndexAddMultiple(Contract):
    target = "byteinterval.py::ByteInterval._index_add_multiple"
    props = PROPS
    params = {"self": "ref:ByteInterval", "old_blocks": "set", "new_blocks": "set"}
    modifies = {"_interval_events": lambda c0, a, r: r == ref(c0.get("_interval_tree", a.self.t))}

    def axioms(self, eng):
        from specs import lazy
        return lazy.denote_axioms(eng.schema.class_id("_EventType"))

    def pre(self, c, a):
        v = fresh("v", Val)
        L = c.get("_interval_tree", a.self.t)
        return {"tree": z3.And(is_VRef(L), forest.kind_is(c, ref(L), "LazyIntervalTree")),
                "new_blocks_typed": z3.ForAll([v], z3.Implies(z3.Select(a.new_blocks.t, v), z3.And(
                    is_VRef(v), c.isinst(ref(v), "ByteBlock"), forest.block_typed(c, ref(v)))))}

    @staticmethod
    def effect(c0, c1, a, seen):
        from specs import lazy
        L = ref(c0.get("_interval_tree", a.self.t))
        b = fresh("b", SetSort)
        iv = fresh("iv", Val)
        return z3.ForAll([b, iv], z3.Select(lazy.Denote(lazy.events(c1, L), b), iv) == z3.Or(
            z3.Select(lazy.Denote(lazy.events(c0, L), b), iv),
            z3.And(lazy.is_VIv(iv), z3.Select(seen, VRef(lazy.ivd(iv))), lazy.mk_spec(c0, "ByteBlock", lazy.ivd(iv)) == iv)))

    def post(self, c0, c1, a, res):
        return {"events_add_all": self.effect(c0, c1, a, a.new_blocks.t)}


def _iam_inv(L):
    r = fresh("r", Int)
    tree = ref(L.c0.get("_interval_tree", L.a.self.t))
    return {"events_add_seen": IndexAddMultiple.effect(L.c0, L.c, L.a, L.seen),
            "other_trees_untouched": z3.ForAll([r], z3.Implies(
                r != tree, z3.Select(L.c.arr("_interval_events"), r) == z3.Select(L.c0.arr("_interval_events"), r)))}


def register_blocks(reg):
    reg.add(BlockSetDiscard())
    c = reg.add(IndexAddMultiple())
    from pyvc.contracts import LoopSpec
    reg.add_loop(c.target, 0, LoopSpec(_iam_inv, modifies=("_interval_events",)))


_register_sections = register


def register(reg):
    _register_sections(reg)
    register_blocks(reg)


class BlockSetUpdate(Contract):
    """ByteInterval._BlockSet.update(iterable): bulk insertion (one iterable; see known finding F-C16-2 for more)."""
    target = "byteinterval.py::ByteInterval._BlockSet.update"
    props = PROPS
    modifies = ("SetWrapper._data", "_byte_interval", "_interval_events", "_local_uuid_cache")

    def __init__(self):
        def mk(eng, st, name):
            from pyvc.core import sv_tuple, sv_set
            return sv_tuple([sv_set(fresh("S", SetSort))])
        self.params = {"self": "ref:ByteInterval._BlockSet", "iterables": mk}
        super().__init__()

    def region_invariant(self, c):
        return forest.inv_region(c)

    def focus(self, clause):
        return wf_focus(clause)

    def selects(self, self_cls, args, kwargs=None):
        return True

    def bind(self, eng, args, kwargs, st):
        a = super().bind(eng, args, kwargs, st)
        its = a["iterables"]
        if its.k != "tuple" or len(its.x) != 1:
            from pyvc.core import Unsupported
            raise Unsupported("_BlockSet.update with %s iterables (contract covers exactly one; see F-C16-2)"
                              % (len(its.x) if its.k == "tuple" else "?"))
        from pyvc.core import sv_tuple
        a["iterables"] = sv_tuple([eng.as_set(its.x[0], st)])
        return a

    @staticmethod
    def S(a):
        return a.iterables.x[0].t

    def new_items(self, c, a):
        d0 = z3.Select(c.arr("SetWrapper._data"), a.self.t)
        return lambda x: z3.And(z3.Select(self.S(a), x), z3.Not(z3.Select(d0, x)))

    def pre(self, c, a):
        w = a.self.t
        own = c.get("_node", w)
        x = fresh("x", Val)
        x2 = fresh("x2", Val)
        n2 = fresh("n2", Int)
        new = self.new_items(c, a)
        ir = K.ir_of(c, ref(own))
        out = dict(WF(c))
        out["is_wrapper"] = z3.And(forest.kind_is(c, w, "ByteInterval._BlockSet"), is_VRef(own),
                                   c.isinst(ref(own), "ByteInterval"), c.get("blocks", ref(own)) == VRef(w))
        out["elements_are_blocks"] = z3.ForAll([x], z3.Implies(z3.Select(self.S(a), x),
                                                               z3.And(is_VRef(x), c.isinst(ref(x), "ByteBlock"))))
        out["uuids_distinct_where_attached"] = z3.And(
            z3.ForAll([x, x2], z3.Implies(z3.And(new(x), new(x2), K.uuid_of(c, ref(x)) == K.uuid_of(c, ref(x2))), x == x2)),
            z3.ForAll([x, n2], z3.Implies(z3.And(is_VRef(ir), new(x), K.is_node(c, n2), z3.Not(new(VRef(n2))),
                                                 K.ir_of(c, n2) == ir), K.uuid_of(c, ref(x)) != K.uuid_of(c, n2))))
        return out

    @staticmethod
    def effect(c0, c1, a, moved, w, own, final):
        """moved(x): x has been re-parented so far; final: whether the members were added to the set already"""
        n = fresh("n", Int)
        w2 = fresh("w", Int)
        x = fresh("x", Val)
        d0 = z3.Select(c0.arr("SetWrapper._data"), w)
        d1 = z3.Select(c1.arr("SetWrapper._data"), w)
        return {
            "view": z3.ForAll([x], z3.Select(d1, x) == z3.Or(z3.Select(d0, x), z3.And(final, moved(x)))),
            "parents": z3.ForAll([n], c1.get("_byte_interval", n) == z3.If(moved(VRef(n)), own,
                                                                           c0.get("_byte_interval", n))),
            # whole view: every other block set loses exactly the moved blocks; nothing else changes anywhere
            "other_collections": z3.ForAll([w2, x], z3.Implies(w2 != w, z3.Select(
                z3.Select(c1.arr("SetWrapper._data"), w2), x) == z3.And(
                z3.Select(z3.Select(c0.arr("SetWrapper._data"), w2), x),
                z3.Not(z3.And(forest.kind_is(c0, w2, "ByteInterval._BlockSet"), moved(x)))))),
        }

    def post(self, c0, c1, a, res):
        w = a.self.t
        own = c0.get("_node", w)
        out = dict(WF(c1))
        out.update(self.effect(c0, c1, a, self.new_items(c0, a), w, own, z3.BoolVal(True)))
        return out


def _update_inv(L):
    a = L.a
    w = a.self.t
    own = L.c0.get("_node", w)
    out = dict(WF(L.c))
    moved = lambda x: z3.Select(L.seen, x)
    out.update(BlockSetUpdate.effect(L.c0, L.c, a, moved, w, own, z3.BoolVal(False)))
    out["target_ir_fixed"] = K.ir_of(L.c, ref(own)) == K.ir_of(L.c0, ref(own))
    n = fresh("n", Int)
    # attachment of every node so far (blocks are leaves: only the moved blocks changed IR)
    out["ir_of_moved"] = z3.ForAll([n], z3.Implies(z3.Select(L.seen, VRef(n)), K.ir_of(L.c, n) == K.ir_of(L.c0, ref(own))),
                                   patterns=[K.ir_of(L.c, n)])
    out["ir_of_unmoved"] = z3.ForAll([n], z3.Implies(z3.And(K.is_node(L.c0, n), z3.Not(z3.Select(L.seen, VRef(n)))),
                                                     K.ir_of(L.c, n) == K.ir_of(L.c0, n)), patterns=[K.ir_of(L.c, n)])
    return out


def _update_ghost(L):
    return {"P": L.seen, "P_owner": ref(L.c0.get("_node", L.a.self.t))}


_register_prev = register


def register(reg):
    _register_prev(reg)
    from pyvc.contracts import LoopSpec
    c = reg.add(BlockSetUpdate())
    reg.add_loop(c.target, 0, LoopSpec(_update_inv, modifies=BlockSetUpdate.modifies, ghost=_update_ghost,
                                       focus=wf_focus))


_register_prev2 = register


def register(reg):
    _register_prev2(reg)
    reg.add(OwningSetOp("byteinterval.py", "ByteInterval._BlockSet", "ByteInterval", "ByteBlock", "_byte_interval",
                        "blocks", "add"))


# ------------------------------------------------------------------------------------------------ module node sets
class NodeSetOp(OwningSetOp):
    """Module._NodeSet.add / .discard, one instantiation per field (sections, symbols, proxies)."""

    def __init__(self, field, child_cls, op):
        super().__init__("module.py", "Module._NodeSet", "Module", child_cls, "_module", field, op)
        self.variant = field
        self.field = field
        if field == "symbols":
            self.props = PROPS + ("C10",)
        self.modifies = ("SetWrapper._data", "_module", "_interval_events", "_local_uuid_cache",
                         "_symbol_name_index", "_symbol_referent_index")

    def selects(self, self_cls, args, kwargs=None):
        c = args[1].cls if len(args) > 1 else None
        ci = {"sections": ("Section",), "symbols": ("Symbol",), "proxies": ("ProxyBlock",)}[self.field]
        return c in ci

    def pre(self, c, a):
        out = super().pre(c, a)
        out["field_name"] = c.get("_field", a.self.t) == VStr(z3.StringVal(self.field))
        return out

    def post(self, c0, c1, a, res):
        out = super().post(c0, c1, a, res)
        n = fresh("n", Int)
        # _module is shared by three child kinds: only v's pointer changes
        return out


_register_prev3 = register


def register(reg):
    _register_prev3(reg)
    for field, cls in (("sections", "Section"), ("symbols", "Symbol"), ("proxies", "ProxyBlock")):
        for op in ("add", "discard"):
            reg.add(NodeSetOp(field, cls, op))


# ------------------------------------------------------------------------------------------------ parent setters
class ParentSetter(Contract):
    """child.<parent> = value  (ByteBlock.byte_interval, ByteInterval.section, Section/Symbol/ProxyBlock.module):
    detach from the current parent, attach to the new one (either may be None)."""
    props = PROPS

    def __init__(self, file, child_cls, prop, parent_cls, parent_field, coll_field):
        self.child_cls, self.prop, self.parent_cls = child_cls, prop, parent_cls
        self.parent_field, self.coll_field = parent_field, coll_field
        self.target = "%s::%s.%s.setter" % (file, child_cls, prop)
        if child_cls == "Symbol":
            self.props = PROPS + ("C10",)
        self.params = {"self": "ref:" + child_cls, "value": "optref:" + parent_cls}
        self.modifies = ("SetWrapper._data", parent_field, "_interval_events", "_local_uuid_cache",
                         "_symbol_name_index", "_symbol_referent_index")
        super().__init__()

    def region_invariant(self, c):
        return forest.inv_region(c)

    def focus(self, clause):
        return wf_focus(clause)

    def pre(self, c, a):
        from pyvc.core import to_val
        v = a.self.t
        val = to_val(a.value)
        out = dict(WF(c))
        out["is_child"] = c.isinst(v, self.child_cls)
        out["value_kind"] = z3.Or(is_VNone(val), z3.And(is_VRef(val), c.isinst(ref(val), self.parent_cls)))
        out["uuids_distinct_where_attached"] = z3.Implies(
            is_VRef(val), attach_ok(c, K.ir_of(c, ref(val)), v, self.child_cls))
        return out

    def post(self, c0, c1, a, res):
        from pyvc.core import to_val
        v = a.self.t
        val = to_val(a.value)
        out = dict(WF(c1))
        out["parent"] = c1.get(self.parent_field, v) == val
        n = fresh("n", Int)
        out["other_parents"] = z3.ForAll([n], z3.Implies(n != v, c1.get(self.parent_field, n) == c0.get(self.parent_field, n)))
        return out


_register_prev4 = register


def register(reg):
    _register_prev4(reg)
    reg.add(ParentSetter("block.py", "ByteBlock", "byte_interval", "ByteInterval", "_byte_interval", "blocks"))
    reg.add(ParentSetter("byteinterval.py", "ByteInterval", "section", "Section", "_section", "byte_intervals"))
    reg.add(ParentSetter("section.py", "Section", "module", "Module", "_module", "sections"))
    reg.add(ParentSetter("symbol.py", "Symbol", "module", "Module", "_module", "symbols"))
    reg.add(ParentSetter("block.py", "ProxyBlock", "module", "Module", "_module", "proxies"))


# ------------------------------------------------------------------------------------------------ pop / clear
_SETS = {
    "Section._ByteIntervalSet": ("section.py", "Section", "ByteInterval", "_section", "byte_intervals", None),
    "ByteInterval._BlockSet": ("byteinterval.py", "ByteInterval", "ByteBlock", "_byte_interval", "blocks", None),
    "Module._NodeSet/sections": ("module.py", "Module", "Section", "_module", "sections", "sections"),
    "Module._NodeSet/symbols": ("module.py", "Module", "Symbol", "_module", "symbols", "symbols"),
    "Module._NodeSet/proxies": ("module.py", "Module", "ProxyBlock", "_module", "proxies", "proxies"),
}


def _wrapper_param(wrapper, elem):
    def mk(eng, st, name):
        return SV("ref", fresh(name, Int), cls=wrapper, x=elem)
    return mk


def _mk_op(key, op):
    file, owner_cls, child_cls, pf, cf, field = _SETS[key]
    wrapper = key.split("/")[0]
    if field:
        return NodeSetOp(field, child_cls, op)
    return OwningSetOp(file, wrapper, owner_cls, child_cls, pf, cf, op)


class SetPop(Contract):
    """<owning set>.pop(): the method instances of the class actually run (util.SetWrapper.pop unless overridden):
    KeyError on an empty set (nothing changes), otherwise removes and returns some member, exactly as discard."""
    props = PROPS

    def __init__(self, key):
        self.key = key
        self.wrapper = key.split("/")[0]
        self.inner = _mk_op(key, "discard")
        self.target = "mro:%s.pop" % self.wrapper
        self.variant = key
        self.params = {"self": _wrapper_param(self.wrapper, _SETS[key][2])}
        self.modifies = self.inner.modifies
        self.result = "ref:" + _SETS[key][2]
        super().__init__()

    def selects(self, self_cls, args, kwargs=None):
        if self_cls != self.wrapper:
            return False
        x = args[0].x if args else None
        want = _SETS[self.key][2]
        return x is None or x == want or _SETS[self.key][5] is None

    def region_invariant(self, c):
        return forest.inv_region(c)

    def focus(self, clause):
        return wf_focus(clause)

    def _args(self, a, res=None):
        from pyvc.contracts import Args
        return Args({"self": a.self, "v": res})

    def pre(self, c, a):
        out = self.inner.pre(c, self._args(a, SV("ref", z3.IntVal(0))))
        out.pop("is_child", None)
        return out

    def raises(self, c0, a):
        d0 = z3.Select(c0.arr("SetWrapper._data"), a.self.t)
        return {"KeyError": d0 == EmptySet}

    def on_raise(self, c0, c1, a, exc):
        return {"unchanged(%s)" % k: c1.arr(k) == c0.arr(k) for k in ("SetWrapper._data", _SETS[self.key][3])}

    def post(self, c0, c1, a, res):
        d0 = z3.Select(c0.arr("SetWrapper._data"), a.self.t)
        out = self.inner.post(c0, c1, self._args(a, res), None)
        out["returned_a_member"] = z3.Select(d0, VRef(res.t))
        return out

    def lemmas(self, c0, c1, a, res):
        return self.inner.lemmas(c0, c1, self._args(a, res), None)

    def before_call(self, callee, c, callee_args):
        return {}


class SetClear(Contract):
    """<owning set>.clear(): every former member is detached (as by discard); the set is empty afterwards."""
    props = PROPS

    def __init__(self, key):
        self.key = key
        self.wrapper = key.split("/")[0]
        self.inner = _mk_op(key, "discard")
        self.target = "mro:%s.clear" % self.wrapper
        self.variant = key
        self.params = {"self": _wrapper_param(self.wrapper, _SETS[key][2])}
        self.modifies = self.inner.modifies
        super().__init__()

    def selects(self, self_cls, args, kwargs=None):
        if self_cls != self.wrapper:
            return False
        x = args[0].x if args else None
        return x is None or x == _SETS[self.key][2] or _SETS[self.key][5] is None

    def region_invariant(self, c):
        return forest.inv_region(c)

    def focus(self, clause):
        return wf_focus(clause)

    def pre(self, c, a):
        from pyvc.contracts import Args
        out = self.inner.pre(c, Args({"self": a.self, "v": SV("ref", z3.IntVal(0))}))
        out.pop("is_child", None)
        return out

    @staticmethod
    def effect(key, c0, c1, a):
        pf = _SETS[key][3]
        w = a.self.t
        d0 = z3.Select(c0.arr("SetWrapper._data"), w)
        d1 = z3.Select(c1.arr("SetWrapper._data"), w)
        n = fresh("n", Int)
        w2 = fresh("w", Int)
        x = fresh("x", Val)
        removed = lambda t: z3.And(z3.Select(d0, t), z3.Not(z3.Select(d1, t)))
        return {
            "shrinks": z3.ForAll([x], z3.Implies(z3.Select(d1, x), z3.Select(d0, x))),
            "parents": z3.ForAll([n], c1.get(pf, n) == z3.If(removed(VRef(n)), VNone, c0.get(pf, n))),
            "other_collections": z3.ForAll([w2], z3.Implies(w2 != w, z3.Select(c1.arr("SetWrapper._data"), w2)
                                                            == z3.Select(c0.arr("SetWrapper._data"), w2))),
        }

    def post(self, c0, c1, a, res):
        out = dict(WF(c1))
        out.update(self.effect(self.key, c0, c1, a))
        out["empty"] = z3.Select(c1.arr("SetWrapper._data"), a.self.t) == EmptySet
        return out


def _clear_inv(key):
    def inv(L):
        out = dict(WF(L.c))
        out.update(SetClear.effect(key, L.c0, L.c, L.a))
        return out
    return inv


def _clear_variant(L):
    from pyvc.core import Card
    d = z3.Select(L.c.arr("SetWrapper._data"), L.a.self.t)
    L.eng.cur_facts.append(Card(d) >= 0)          # finite-set cardinality axiom, instantiated
    return Card(d)


_register_prev5 = register


def register(reg):
    _register_prev5(reg)
    from pyvc.contracts import LoopSpec
    from pyvc.core import Card
    for key in _SETS:
        reg.add(SetPop(key))
        c = reg.add(SetClear(key))
        ls = LoopSpec(_clear_inv(key), modifies=c.modifies, focus=wf_focus)
        ls.variant = _clear_variant
        reg.add_loop(c.target + "[" + key + "]", 0, ls)


class NodeSetDiscardForeign(Contract):
    """m.<field>.discard(v) for a node v of another kind (e.g. a symbol of the same module passed to m.sections.discard):
    v is not a member of this set, so - as for a built-in set - nothing at all changes (C16; the ownership of v through its
    own set is untouched: C04)"""
    props = ("C16", "C04", "C03")
    target = "module.py::Module._NodeSet.discard"
    modifies = ()

    def __init__(self, field, other_cls):
        self.field, self.other_cls = field, other_cls
        self.variant = "%s.discard(%s)" % (field, other_cls)
        self.params = {"self": "ref:Module._NodeSet", "v": "ref:" + other_cls}
        super().__init__()

    def selects(self, self_cls, args, kwargs=None):
        return False

    def region_invariant(self, c):
        return forest.inv_region(c)

    def pre(self, c, a):
        w, v = a.self.t, a.v.t
        own = c.get("_node", w)
        out = dict(WF(c))
        out["is_wrapper"] = z3.And(forest.kind_is(c, w, "Module._NodeSet"), is_VRef(own), c.isinst(ref(own), "Module"),
                                   c.get(self.field, ref(own)) == VRef(w))
        out["is_other_kind"] = c.isinst(v, self.other_cls)
        out["field_name"] = c.get("_field", w) == VStr(z3.StringVal(self.field))
        return out

    def post(self, c0, c1, a, res):
        return {}


_register_prev_foreign = register


def register(reg):      # noqa: F811
    _register_prev_foreign(reg)
    kinds = {"sections": "Section", "symbols": "Symbol", "proxies": "ProxyBlock"}
    for field in kinds:
        for other in kinds.values():
            if other != kinds[field]:
                reg.add(NodeSetDiscardForeign(field, other))
