"""Contracts for the symbol indexes of a module (C10)."""
import z3
from pyvc.contracts import Contract
from pyvc.core import SV, Val, VNone, VRef, VStr, is_VNone, is_VRef, is_VStr, ref, fresh, Int, to_val
from specs import symindex as X
from contracts.descriptors import _descriptor_param

PROPS = ("C10",)
IDX_KEYS = ("_symbol_name_index", "_symbol_referent_index")


def _only_self(c0, a, r):
    return r == a.self.t


class ModuleIndexOp(Contract):
    """Module._index_add / _index_discard, per class of node."""
    props = PROPS + ("C03", "C04")

    def __init__(self, op, node_cls):
        self.op, self.node_cls = op, node_cls
        self.target = "module.py::Module._index_" + op
        self.variant = node_cls
        self.params = {"self": "ref:Module", "node": "ref:" + node_cls}
        self.modifies = {k: _only_self for k in IDX_KEYS} if node_cls == "Symbol" else ()
        super().__init__()

    def selects(self, self_cls, args, kwargs=None):
        c = args[1].cls if len(args) > 1 else None
        return c == self.node_cls

    def pre(self, c, a):
        out = {"is_module": c.isinst(a.self.t, "Module"), "is_node": c.isinst(a.node.t, self.node_cls)}
        if self.node_cls == "Symbol":
            out["symbol_typed"] = X.symbol_typed(c, a.node.t)
        return out

    def post(self, c0, c1, a, res):
        if self.node_cls != "Symbol":
            return {}
        m, s = a.self.t, a.node.t
        k = fresh("k", Val)
        v = fresh("v", Val)
        name = c0.get("_name", s)
        rf = X.referent_of(c0, s)
        hit_n = z3.And(k == name, v == VRef(s))
        hit_r = z3.And(is_VRef(rf), k == rf, v == VRef(s))
        m2 = fresh("m2", Int)
        others = {"other_modules": z3.ForAll([m2, k, v], z3.Implies(m2 != m, z3.And(
            X.idx_name(c1, m2, k).has(v) == X.idx_name(c0, m2, k).has(v),
            X.idx_ref(c1, m2, k).has(v) == X.idx_ref(c0, m2, k).has(v))))}
        if self.op == "add":
            return {**others, "name_index": z3.ForAll([k, v], X.idx_name(c1, m, k).has(v) == z3.Or(
                        X.idx_name(c0, m, k).has(v), hit_n)),
                    "referent_index": z3.ForAll([k, v], X.idx_ref(c1, m, k).has(v) == z3.Or(
                        X.idx_ref(c0, m, k).has(v), hit_r))}
        return {**others, "name_index": z3.ForAll([k, v], X.idx_name(c1, m, k).has(v) == z3.And(
                    X.idx_name(c0, m, k).has(v), z3.Not(hit_n))),
                "referent_index": z3.ForAll([k, v], X.idx_ref(c1, m, k).has(v) == z3.And(
                    X.idx_ref(c0, m, k).has(v), z3.Not(hit_r)))}


class SymbolsNamed(Contract):
    target = "module.py::Module.symbols_named"
    props = PROPS
    params = {"self": "ref:Module", "name": "str"}
    yield_cls = "Symbol"

    def pre(self, c, a):
        return {"is_module": c.isinst(a.self.t, "Module"), "wf_symindex": X.wf_symindex(c)}

    def yields(self, c0, a, v):
        return z3.And(is_VRef(v), X.in_module(c0, ref(v), a.self.t), c0.get("_name", ref(v)) == VStr(a.name.t))


class BlockReferences(Contract):
    """Block.references for blocks with a module property (ByteBlock, ProxyBlock)"""
    props = PROPS
    yield_cls = "Symbol"

    def __init__(self, cls):
        self.cls = cls
        self.target = "block.py::Block.references"
        self.variant = cls
        self.params = {"self": "ref:" + cls}
        super().__init__()

    def selects(self, self_cls, args, kwargs=None):
        return self_cls == self.cls

    def module_of(self, c, b):
        if self.cls == "ProxyBlock":
            return c.get("_module", b)
        bi = c.get("_byte_interval", b)
        sec = c.get("_section", ref(bi))
        return z3.If(is_VRef(bi), z3.If(is_VRef(sec), c.get("_module", ref(sec)), VNone), VNone)

    def pre(self, c, a):
        from specs import cache as K
        return {"is_block": c.isinst(a.self.t, self.cls), "wf_symindex": X.wf_symindex(c),
                "parent_kinds": K.parent_kinds(c)}

    def yields(self, c0, a, v):
        m = self.module_of(c0, a.self.t)
        return z3.And(is_VRef(v), is_VRef(m), X.in_module(c0, ref(v), ref(m)),
                      X.referent_of(c0, ref(v)) == VRef(a.self.t))


class SymbolIndexedSet(Contract):
    """Symbol.name = ... / Symbol._payload = ... through _IndexedAttribute.Descriptor.__set__"""
    target = "util.py::_IndexedAttribute.Descriptor.__set__"
    props = PROPS

    def __init__(self, attr, vkind):
        self.attr, self.vkind = attr, vkind
        self.variant = "Symbol." + attr
        self.params = {"self": _descriptor_param("Symbol", attr), "instance": "ref:Symbol", "value": vkind}
        self.modifies = {"_" + attr: lambda c0, a, r: r == a.instance.t,
                         "_symbol_name_index": None, "_symbol_referent_index": None}
        super().__init__()

    def value_ok(self, c, a):
        v = to_val(a.value)
        if self.attr == "name":
            return is_VStr(v)
        from pyvc.core import is_VInt
        return z3.Or(is_VNone(v), is_VInt(v), z3.And(is_VRef(v), c.isinst(ref(v), "Block")))

    def pre(self, c, a):
        from specs import cache as K
        return {"is_symbol": c.isinst(a.instance.t, "Symbol"), "value_typed": self.value_ok(c, a),
                "symbols_typed": X.symbols_typed(c), "wf_symindex": X.wf_symindex(c),
                "parent_kinds": K.parent_kinds(c)}

    def post(self, c0, c1, a, res):
        return {"stored": c1.get("_" + self.attr, a.instance.t) == to_val(a.value),
                "symbols_typed": X.symbols_typed(c1), "wf_symindex": X.wf_symindex(c1)}


def register(reg):
    for op in ("add", "discard"):
        for cls in ("Symbol", "Section", "ProxyBlock"):
            reg.add(ModuleIndexOp(op, cls))
    reg.add(SymbolsNamed())
    for cls in ("ByteBlock", "ProxyBlock"):
        reg.add(BlockReferences(cls))
    for attr, vk in (("name", "str"), ("_payload", "val")):
        c = reg.add(SymbolIndexedSet(attr, vk))
        reg.descriptor_contracts[("Symbol", attr)] = c
