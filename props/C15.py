from props import _io

META = {"level": "exploration",
        "trusted_base": ['google.protobuf runtime (message classes generated from /repo/proto by protoc)', 'oracles/io_oracles.py reference codec / parser (independent of /repo)'],
        "assumptions": [],
        "explanation": 'No contract within reach: _parse_type is a recursive closure over token lists built by re.findall with star-unpacking; the engine has no model of regular expressions or of recursion on list slices. Exhaustive bounded check only.'}

bounded, replay_obligation = _io.make('C15', "every string over {a,b,<,>,','} up to length 6 (quick) / 8 (thorough) plus random perturbed names against an independent recursive-descent parser of the grammar; accepted names print back", 300, 3000)
