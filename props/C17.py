from props import _io

META = {"level": "bounded",
        "trusted_base": ['google.protobuf runtime (message classes generated from /repo/proto by protoc)', 'oracles/io_oracles.py reference codec / parser (independent of /repo)'],
        "assumptions": [],
        "explanation": ''}

bounded, replay_obligation = _io.make('C17', 'truncations at every cut point, single-bit / single-byte corruptions, header variations and single structural faults of valid files: load raises or returns an IR passing the C03/C04 walkers and typed-reference checks and saves again', 2000, 40000)
