from props import _io

META = {"level": "proof",
        "trusted_base": ['google.protobuf runtime (message classes generated from /repo/proto by protoc)', 'oracles/io_oracles.py reference codec / parser (independent of /repo)'],
        "assumptions": [],
        "explanation": 'Proved for all byte strings: header rejection (magic, short file, version byte) before anything is parsed, version-field rejection before anything is built, ValueError/DeserializationError of every leaf reader on wrong-length UUIDs, dangling or ill-typed references and unknown enum numbers. Coherence of the IR returned for arbitrary corrupted files: bounded stand-in.'}

bounded, replay_obligation = _io.make('C17', 'truncations at every cut point, single-bit / single-byte corruptions, header variations and single structural faults of valid files: load raises or returns an IR passing the C03/C04 walkers and typed-reference checks and saves again', 2000, 40000)
