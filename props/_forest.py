"""Shared pieces of the property modules about the containment forest, tables and indexes."""
from pyvc import standin

HIST_PROPS = ["C03", "C04", "C05", "C06", "C10", "C12", "C13"]


def bounded_for(pid, props=None):
    def bounded(tier, seed, known):
        s, viol = standin.history_standin(pid, props or HIST_PROPS, tier, seed)
        return [s], viol
    return bounded


def replay_for(pid, props=None):
    def replay_obligation(result, rep):
        return standin.find_history_witness(props or HIST_PROPS, 1)
    return replay_obligation
