from props import _io

META = {"level": "bounded",
        "trusted_base": ['google.protobuf runtime (message classes generated from /repo/proto by protoc)', 'oracles/io_oracles.py reference codec / parser (independent of /repo)'],
        "assumptions": [],
        "explanation": ''}

bounded, replay_obligation = _io.make('C07', "random type trees x random values: decode(encode(v)) == v (floats bit for bit), decoder consumes exactly the encoder's bytes, node resolution of UUID/Offset; bytes compared with an independent reference encoder", 2000, 40000)
