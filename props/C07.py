import z3
from props import _io, _tables
from pyvc.core import Obligation, Val, VStr, fresh, Int

META = {"level": "proof",
        "trusted_base": ["google.protobuf runtime", "oracles/io_oracles.py reference codec (independent of /repo)",
                         "iomodel: int.to_bytes/from_bytes, uuid.UUID(bytes=)/.bytes, str.encode/bytes.decode as stated in pyvc/iomodel.py"],
        "assumptions": ["UTF-8 encode/decode are mutually inverse on well-formed data (axioms utf8/utf8inv)",
                        "UUID.bytes / UUID(bytes=) are mutually inverse on 16-byte strings (axioms u2b/b2u)"],
        "explanation": "Leaf codecs (8 integer widths, bool, string, UUID, Offset), the container codecs (sequence, set, mapping, "
                       "tuple, variant; loop invariants for any number of elements; set/mapping encoders relative to the ghost "
                       "iteration sequence of the collection) and Serialization.encode/decode top level are under contract and "
                       "proved against the wire-format definition; the leaf round trip is a lemma over the encode/decode "
                       "contracts. The round trip of whole nested values, IEEE bit patterns and the codec dispatch are covered "
                       "only by the bounded stand-in (random type trees x values against the independent reference codec)."}

bounded, replay_obligation = _io.make("C07", "random type trees x random values: decode(encode(v)) == v (floats bit for bit), decoder "
                                      "consumes exactly the encoder's bytes, node resolution of UUID/Offset; bytes compared with an "
                                      "independent reference encoder", 2000, 40000)


def roundtrip_lemmas(pid):
    from contracts.codecs import INT_CODECS, int_wire, int_read, int_range
    from pyvc.iomodel import BSeq, axioms, utf8, utf8inv, utf8ok, u2b, b2u
    obls = []
    for cls, (n, signed) in INT_CODECS.items():
        x, B = fresh("x", Int), fresh("B", BSeq)
        lo, hi = int_range(n, signed)
        obls.append(Obligation("%s/lemma.roundtrip[%s].decode_of_encode_is_identity" % (pid, cls),
                               [lo <= x, x <= hi, int_wire(B, n, signed, x)], int_read(B, n, signed) == x))
        obls.append(Obligation("%s/lemma.roundtrip[%s].decoder_consumes_what_encoder_wrote" % (pid, cls),
                               [int_wire(B, n, signed, x)], z3.Length(B) == n))
    s = fresh("s", z3.StringSort())
    P = fresh("P", BSeq)
    body = utf8(s)
    obls.append(Obligation("%s/lemma.roundtrip[StringCodec]" % pid,
                           axioms() + [z3.Length(body) < 2 ** 64, int_wire(P, 8, False, z3.Length(body))],
                           z3.And(int_read(P, 8, False) == z3.Length(body), utf8ok(body), utf8inv(body) == s)))
    u = fresh("u", Int)
    obls.append(Obligation("%s/lemma.roundtrip[UUIDCodec]" % pid, axioms(), z3.And(z3.Length(u2b(u)) == 16, b2u(u2b(u)) == u)))
    b = fresh("b", z3.BoolSort())
    byte = z3.If(b, z3.IntVal(1), z3.IntVal(0))
    obls.append(Obligation("%s/lemma.roundtrip[BoolCodec]" % pid, [], (byte != 0) == b))
    return obls


def extra_obligations(prog, schema, reg, eng):
    return roundtrip_lemmas("C07") + _tables.codec_table(prog)
