"""Shared glue for the load/save/AuxData properties: bounded stand-ins are the executable oracles in
oracles/io_oracles.py (independent reference codec / parser / schema walkers), run on an overlay of /repo."""
from pyvc import standin


def make(pid, what, quick, thorough, oracle_prop=None, env_variants=(None,), extra=()):
    oracle_prop = oracle_prop or pid

    def bounded(tier, seed, known):
        n = quick if tier == "quick" else thorough
        out, viol = [], []
        for env in env_variants:
            for op in (oracle_prop,) + tuple(extra):
                s, v = standin.module_standin(pid, "oracles.io_oracles", [op, seed, n], what + (" [%s]" % env if env else "")
                                              + (" [%s scenarios]" % op if op != oracle_prop else ""),
                                              "budget %d, seed %d" % (n, seed), env_extra=env)
                out.append(s)
                viol += v
        return out, viol

    def replay_obligation(result, rep):
        for op in (oracle_prop,) + tuple(extra):
            for s in (1, 2, 3):
                w = standin.module_witness("oracles.io_oracles", [op, s, thorough])
                if w:
                    return w
        return None

    return bounded, replay_obligation
