from props._forest import bounded_for, replay_for

META = {"level": "proof",
        "trusted_base": ["assumed contracts of intervaltree / collections.abc mixins (see DESIGN 3.7)"],
        "assumptions": ["finite-cardinality lemma (contracts/sections.py card_lemma): if every interval of the index carries a distinct "
                        "member of the section's interval set, the index is no larger than the set, and as large exactly when every "
                        "member has an interval (used for `len(index) == len(self.byte_intervals)`)",
                        "assumed contract of IntervalTree.begin()/span(): least begin / greatest end minus least begin"]}
bounded = bounded_for("C06")
replay_obligation = replay_for("C06")
