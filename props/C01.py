from props import _io

META = {"level": "bounded",
        "trusted_base": ['google.protobuf runtime (message classes generated from /repo/proto by protoc)', 'oracles/io_oracles.py reference codec / parser (independent of /repo)'],
        "assumptions": [],
        "explanation": ''}

bounded, replay_obligation = _io.make('C01', 'random self-contained IRs (boundary values, several modules, variant AuxData, edited generations) saved, loaded, compared attribute by attribute by an independent walker, deep_eq both ways, re-saved and compared as messages', 500, 8000)
