from props import _io

META = {"level": "proof",
        "trusted_base": ['google.protobuf runtime (message classes generated from /repo/proto by protoc)', 'oracles/io_oracles.py reference codec / parser (independent of /repo)'],
        "assumptions": [],
        "explanation": 'Deductive part: file header written/read (IR.save_protobuf_file / load_protobuf_file), leaf writers and readers (blocks, symbols, symbolic expressions, CFG edge reader, AuxData cell) are proved field by field, so for these the round trip is the composition of two proved contracts. Whole-IR round trip (containers, decode order, CFG writer, deep_eq) is covered by the bounded stand-in only.'}

bounded, replay_obligation = _io.make('C01', 'random self-contained IRs (boundary values, several modules, variant AuxData, edited generations) saved, loaded, compared attribute by attribute by an independent walker, deep_eq both ways, re-saved and compared as messages', 500, 8000)
