from pyvc import standin

META = {"level": "proof", "trusted_base": [], "assumptions": ["sizes, offsets and addresses are non-negative ints (schema uint64)"]}


def bounded(tier, seed, known):
    n = 300 if tier == "quick" else 5000
    s, v = standin.module_standin("C19", "oracles.misc_oracles", ["C19", seed, n],
                                  "random sequences of size / initialized_size / contents / block edits on one interval, "
                                  "with INV_bytes, block views and save+load checked after every step",
                                  "%d sequences of up to 8 steps, seed %d" % (n, seed))
    return [s], v


def replay_obligation(result, rep):
    return standin.module_witness("oracles.misc_oracles", ["C19", 1, 3000])
