from props._forest import bounded_for, replay_for

META = {"level": "proof",
        "trusted_base": ["assumed contracts of intervaltree / collections.abc mixins (see DESIGN 3.7)"],
        "assumptions": []}
bounded = bounded_for("C10")
replay_obligation = replay_for("C10")
