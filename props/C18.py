"""C18: deep_eq is exact structural equality.  Per-class contracts (contracts/deepeq.py) pin the result of each
body down exactly; reflexivity and symmetry are lemmas over those characterisations (below)."""
import z3
from pyvc.contracts import Ctx
from pyvc.core import Obligation, VRef, fresh, Int

META = {"level": "proof", "trusted_base": ["assumed contract of sorted() (container classes, bounded stand-in only)"],
        "assumptions": ["typing invariants of node fields (uuid is a UUID, offset/size are ints, decode_mode an enum member)"]}


def bounded(tier, seed, known):
    from pyvc import standin
    s, v = standin.module_standin("C18", "oracles.misc_oracles", ["C18", seed, 20 if tier == "quick" else 200],
                                  "independently constructed equal IRs, every single-field perturbation (47 kinds), cross-kind "
                                  "same-uuid pairs, shuffled edge insertion orders: iff / reflexive / symmetric on the real code "
                                  "(covers the container classes, which are not yet under contract)",
                                  "47 perturbations + 36 cross-kind pairs + shuffles, seed %d" % seed)
    return [s], v


def replay_obligation(result, rep):
    from pyvc import standin
    return standin.module_witness("oracles.misc_oracles", ["C18", 1, 50])


def extra_obligations(prog, schema, reg, eng):
    from contracts.deepeq import DeepEqLeaf
    eng.cur_facts = []
    eng.fun_memo = {}
    c = Ctx(eng, {})
    leaves = [k for k in reg.contracts if isinstance(k, DeepEqLeaf) and not k.as_super]
    x = fresh("x", Int)
    y = fresh("y", Int)
    typed = list(leaves[0].pre(c, {"self": type("A", (), {"t": x})()}).values())[1:] if False else []
    obls = []
    from specs import cache as K
    from specs.forest import wf_typed
    base = [K.uuids_typed(c), wf_typed(c)]
    for k1 in leaves:
        id1 = schema.class_id(k1.recv)
        obls.append(Obligation("C18/lemma.deep_eq.reflexive[%s]" % k1.recv, base + [c.kind(x) == id1],
                               k1.exact(c, x, VRef(x))))
        for k2 in leaves:
            id2 = schema.class_id(k2.recv)
            obls.append(Obligation("C18/lemma.deep_eq.symmetric[%s,%s]" % (k1.recv, k2.recv),
                                   base + [c.kind(x) == id1, c.kind(y) == id2],
                                   k1.exact(c, x, VRef(y)) == k2.exact(c, y, VRef(x))))
    return obls
