"""C18: deep_eq is exact structural equality.  Per-class contracts (contracts/deepeq.py) pin the result of each
body down exactly; reflexivity and symmetry are lemmas over those characterisations (below)."""
import z3
from pyvc.contracts import Ctx
from pyvc.core import Obligation, VRef, fresh, Int

META = {"level": "proof", "trusted_base": ["assumed contract of sorted() (container classes, bounded stand-in only)"],
        "assumptions": ["typing invariants of node fields (uuid is a UUID, offset/size are ints, decode_mode an enum member)",
                        "the abstract classes Block / CfgNode / SymbolicExpression have no direct instances",
                        "x.deep_eq(o) on a receiver of statically unknown class is the relation DEQ(x, o) that the contract of "
                        "the receiver's class characterises (dynamic dispatch)"]}


def bounded(tier, seed, known):
    from pyvc import standin
    s, v = standin.module_standin("C18", "oracles.misc_oracles", ["C18", seed, 20 if tier == "quick" else 200],
                                  "independently constructed equal IRs, every single-field perturbation (47 kinds), cross-kind "
                                  "same-uuid pairs, shuffled edge insertion orders: iff / reflexive / symmetric on the real code "
                                  "(covers the container classes, which are not yet under contract)",
                                  "47 perturbations + 36 cross-kind pairs + shuffles, seed %d" % seed)
    return [s], v


def replay_obligation(result, rep):
    from pyvc import standin
    return standin.module_witness("oracles.misc_oracles", ["C18", 1, 50])


def extra_obligations(prog, schema, reg, eng):
    from contracts.deepeq import DeepEqLeaf
    eng.cur_facts = []
    eng.fun_memo = {}
    c = Ctx(eng, {})
    leaves = [k for k in reg.contracts if isinstance(k, DeepEqLeaf) and not k.as_super]
    x = fresh("x", Int)
    y = fresh("y", Int)
    typed = list(leaves[0].pre(c, {"self": type("A", (), {"t": x})()}).values())[1:] if False else []
    obls = []
    from specs import cache as K
    from specs.forest import wf_typed
    base = [K.uuids_typed(c), wf_typed(c)]
    for k1 in leaves:
        id1 = schema.class_id(k1.recv)
        obls.append(Obligation("C18/lemma.deep_eq.reflexive[%s]" % k1.recv, base + [c.kind(x) == id1],
                               k1.exact(c, x, VRef(x))))
        for k2 in leaves:
            id2 = schema.class_id(k2.recv)
            obls.append(Obligation("C18/lemma.deep_eq.symmetric[%s,%s]" % (k1.recv, k2.recv),
                                   base + [c.kind(x) == id1, c.kind(y) == id2],
                                   k1.exact(c, x, VRef(y)) == k2.exact(c, y, VRef(x))))
    # ---- second layer: Symbol, SymAddrConst, SymAddrAddr.  Their bodies call deep_eq on their referents / symbols; by the
    # contracts of the layer below, DEQ(u, o) is the proved characterisation for receivers u of each class (hypotheses H).
    from contracts.deepeq import symbol_exact, symexpr_exact, sym_typed
    from specs.deepeq import DEQ
    from pyvc.core import Val, is_VRef, ref
    u = fresh("u", Int)
    o = fresh("o", Val)
    H = [z3.ForAll([u, o], z3.Implies(c.kind(u) == schema.class_id(k.recv), DEQ(u, o) == k.exact(c, u, o)),
                   patterns=[DEQ(u, o)]) for k in leaves]
    n = fresh("n", Int)
    from pyvc.core import is_VNone
    leaf_ids = [schema.class_id(k.recv) for k in leaves]
    p_ = c.get("__payload", n)
    # referents are instances of the concrete block classes (the abstract classes Block / CfgNode have no instances)
    typed_syms = z3.ForAll([n], z3.Implies(c.isinst(n, "Symbol"), z3.And(
        sym_typed(c, n), z3.Implies(is_VRef(p_), z3.Or([c.kind(ref(p_)) == i for i in leaf_ids])))))
    sid = schema.class_id("Symbol")
    obls.append(Obligation("C18/lemma.deep_eq.reflexive[Symbol]", base + H + [typed_syms, c.kind(x) == sid],
                           symbol_exact(c, x, VRef(x))))
    obls.append(Obligation("C18/lemma.deep_eq.symmetric[Symbol,Symbol]", base + H + [typed_syms, c.kind(x) == sid, c.kind(y) == sid],
                           symbol_exact(c, x, VRef(y)) == symbol_exact(c, y, VRef(x))))
    for k in leaves:
        obls.append(Obligation("C18/lemma.deep_eq.symmetric[Symbol,%s]" % k.recv,
                               base + H + [typed_syms, c.kind(x) == sid, c.kind(y) == schema.class_id(k.recv)],
                               symbol_exact(c, x, VRef(y)) == k.exact(c, y, VRef(x))))
    HS = H + [z3.ForAll([u, o], z3.Implies(c.kind(u) == sid, DEQ(u, o) == symbol_exact(c, u, o)), patterns=[DEQ(u, o)])]
    for cls in ("SymAddrConst", "SymAddrAddr"):
        cid = schema.class_id(cls)
        flds = ["symbol"] if cls == "SymAddrConst" else ["symbol1", "symbol2"]
        typed_e = z3.ForAll([n], z3.Implies(c.kind(n) == cid, z3.And(
            [z3.And(is_VRef(c.get(f, n)), c.kind(ref(c.get(f, n))) == sid) for f in flds])))
        obls.append(Obligation("C18/lemma.deep_eq.reflexive[%s]" % cls, base + HS + [typed_syms, typed_e, c.kind(x) == cid],
                               symexpr_exact(c, cls, x, VRef(x))))
        obls.append(Obligation("C18/lemma.deep_eq.symmetric[%s,%s]" % (cls, cls),
                               base + HS + [typed_syms, typed_e, c.kind(x) == cid, c.kind(y) == cid],
                               symexpr_exact(c, cls, x, VRef(y)) == symexpr_exact(c, cls, y, VRef(x))))
    other = "SymAddrAddr"
    obls.append(Obligation("C18/lemma.deep_eq.symmetric[SymAddrConst,SymAddrAddr]",
                           base + [c.kind(x) == schema.class_id("SymAddrConst"), c.kind(y) == schema.class_id(other)],
                           symexpr_exact(c, "SymAddrConst", x, VRef(y)) == symexpr_exact(c, other, y, VRef(x))))
    return obls
