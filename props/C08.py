from props import _io, _tables

META = {"level": "proof",
        "trusted_base": ["google.protobuf runtime", "oracles/io_oracles.py reference codec (independent of /repo)",
                         "iomodel (pyvc/iomodel.py)"],
        "assumptions": ["the Java codec is not executed (no JVM harness in the check); the format definition used is "
                        "AuxData.md / include/gtirb/AuxData.hpp as transcribed in contracts/codecs.py and oracles/io_oracles.py"],
        "explanation": "Encode contracts of the leaf codecs state the appended bytes against the documented format (little-endian "
                       "two's complement of the declared width, one byte bool, 16 raw UUID bytes, Offset = UUID + uint64, string = "
                       "uint64 count of UTF-8 bytes + bytes) and are proved for all values; AuxData._to_protobuf is proved to "
                       "write the encoding of the current value under the current type name. Container encoders "
                       "(count, then elements / pairs / fields in iteration order) are proved with loop invariants; whole nested "
                       "values, floats and dispatch: bounded comparison with the independent reference encoder/decoder."}

bounded, replay_obligation = _io.make("C08", "bytes of Serialization.encode compared byte for byte with an independent implementation "
                                      "of the documented format; reference bytes decoded by the API", 2000, 40000,
                                      oracle_prop="C07", extra=("C14",))


def extra_obligations(prog, schema, reg, eng):
    return _tables.codec_table(prog)
