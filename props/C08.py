from props import _io

META = {"level": "bounded",
        "trusted_base": ['google.protobuf runtime (message classes generated from /repo/proto by protoc)', 'oracles/io_oracles.py reference codec / parser (independent of /repo)'],
        "assumptions": [],
        "explanation": ''}

bounded, replay_obligation = _io.make('C08', 'bytes of Serialization.encode compared byte for byte with an independent implementation of the documented format; reference bytes decoded by the API', 2000, 40000, oracle_prop='C07', extra=('C14',))
