from props import _io

META = {"level": "proof",
        "trusted_base": ['google.protobuf runtime (message classes generated from /repo/proto by protoc)', 'oracles/io_oracles.py reference codec / parser (independent of /repo)'],
        "assumptions": [],
        "explanation": 'Proved for all inputs: header layout; DataBlock/CodeBlock/ProxyBlock/Symbol/SymAddrConst/SymAddrAddr/AuxData writers and readers, the Block and SymbolicExpression one-ofs, the CFG edge reader, and the enum tables against /repo/proto. Container messages (IR, Module, Section, ByteInterval bodies, CFG writer) under both protobuf back ends: bounded stand-in.'}

bounded, replay_obligation = _io.make('C02', 'writer: saved bytes parsed with the generated classes and compared field by field with the in-memory IR; reader: messages built directly from the descriptors (every enum constant) loaded and compared field by field; enum tables compared with /repo/proto', 400, 6000, env_variants=(None, {'PROTOCOL_BUFFERS_PYTHON_IMPLEMENTATION': 'python'}))


def extra_obligations(prog, schema, reg, eng):
    from props import _tables
    return _tables.enum_tables(prog, schema)
