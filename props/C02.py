from props import _io

META = {"level": "bounded",
        "trusted_base": ['google.protobuf runtime (message classes generated from /repo/proto by protoc)', 'oracles/io_oracles.py reference codec / parser (independent of /repo)'],
        "assumptions": [],
        "explanation": ''}

bounded, replay_obligation = _io.make('C02', 'writer: saved bytes parsed with the generated classes and compared field by field with the in-memory IR; reader: messages built directly from the descriptors (every enum constant) loaded and compared field by field; enum tables compared with /repo/proto', 400, 6000, env_variants=(None, {'PROTOCOL_BUFFERS_PYTHON_IMPLEMENTATION': 'python'}))
