from props import _io

META = {"level": "bounded",
        "trusted_base": ['google.protobuf runtime (message classes generated from /repo/proto by protoc)', 'oracles/io_oracles.py reference codec / parser (independent of /repo)'],
        "assumptions": [],
        "explanation": ''}

bounded, replay_obligation = _io.make('C14', 'histories {untouched, read, mutate in place, assign data, assign type_name} x save over several generations for known / unknown / partially unknown type names, expected bytes from the independent reference codec', 2000, 30000)
