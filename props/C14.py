from props import _io

META = {"level": "proof",
        "trusted_base": ['google.protobuf runtime (message classes generated from /repo/proto by protoc)', 'oracles/io_oracles.py reference codec / parser (independent of /repo)'],
        "assumptions": [],
        "explanation": 'The AuxData cell (data getter/setter, _from_protobuf, _to_protobuf, the lazy container) and the top level of Serialization.encode/decode (UnknownData pass-through) are proved for all states over abstract tree codecs; what the tree codecs do for unknown names inside nested types and the multi-generation histories are covered by the bounded stand-in.'}

bounded, replay_obligation = _io.make('C14', 'histories {untouched, read, mutate in place, assign data, assign type_name} x save over several generations for known / unknown / partially unknown type names, expected bytes from the independent reference codec', 2000, 30000)
