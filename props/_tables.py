"""Finite table checks stated as obligations (decidable by inspection of /repo's AST and /repo/proto):
 - the Python Enum classes mirror the schema enums (every schema constant present under the schema's number);
 - the codec table maps every documented type-name head to the codec class whose contract states the documented format."""
import ast
import z3
from pyvc.core import Obligation

ENUM_OF = {"Module.ISA": "ISA", "Module.FileFormat": "FileFormat", "Module.ByteOrder": "ByteOrder", "Section.Flag": "SectionFlag",
           "CodeBlock.DecodeMode": "DecodeMode", "EdgeType": "EdgeType", "SymbolicExpression.Attribute": "SymAttribute"}

# AuxData.md "type names": head -> codec class
CODEC_TABLE = {"Addr": "Uint64Codec", "bool": "BoolCodec", "Offset": "OffsetCodec", "int64_t": "Int64Codec",
               "int32_t": "Int32Codec", "int16_t": "Int16Codec", "int8_t": "Int8Codec", "float": "Float32Codec",
               "double": "Float64Codec", "mapping": "MappingCodec", "sequence": "SequenceCodec", "set": "SetCodec",
               "string": "StringCodec", "tuple": "TupleCodec", "uint64_t": "Uint64Codec", "uint32_t": "Uint32Codec",
               "uint16_t": "Uint16Codec", "uint8_t": "Uint8Codec", "UUID": "UUIDCodec", "variant": "VariantCodec"}
INT_LAYOUT = {"Uint64Codec": (8, False), "Uint32Codec": (4, False), "Uint16Codec": (2, False), "Uint8Codec": (1, False),
              "Int64Codec": (8, True), "Int32Codec": (4, True), "Int16Codec": (2, True), "Int8Codec": (1, True)}


def _ob(name, ok, detail=""):
    o = Obligation(name, [], z3.BoolVal(bool(ok)), info={"path": detail})
    return o


def enum_tables(prog, schema):
    obls = []
    enums = schema.pb.enums
    for qual, ename in ENUM_OF.items():
        ci = prog.classes.get(qual)
        if ci is None:
            obls.append(_ob("tables/enum.%s.exists" % qual, False))
            continue
        have = {}
        for name, (mod, en, const) in ci.enum_members.items():
            have[const] = (en, name)
        for const, number in enums[ename]:
            ok = const in have and have[const][0] == ename
            obls.append(_ob("tables/enum.%s.has_schema_constant.%s" % (qual, const), ok,
                            "schema %s.%s = %d" % (ename, const, number)))
        # every Python member refers to a constant of the right schema enum
        for const, (en, name) in have.items():
            obls.append(_ob("tables/enum.%s.member_%s_is_a_schema_constant" % (qual, name),
                            en == ename and any(c == const for c, _ in enums[ename])))
    return obls


def codec_table(prog):
    obls = []
    ci = prog.classes.get("Serialization")
    init = ci.methods.get("__init__") if ci else None
    table = {}
    if init is not None:
        for n in ast.walk(init.node):
            if isinstance(n, (ast.Assign, ast.AnnAssign)) and isinstance(n.value, ast.Dict):
                tgt = n.targets[0] if isinstance(n, ast.Assign) else n.target
                if isinstance(tgt, ast.Attribute) and tgt.attr == "codecs":
                    for k, v in zip(n.value.keys, n.value.values):
                        if isinstance(k, ast.Constant) and isinstance(v, ast.Name):
                            table[k.value] = v.id
    for head, cls in CODEC_TABLE.items():
        obls.append(_ob("tables/codec_table.%s_is_%s" % (head, cls), table.get(head) == cls, "table has %r" % table.get(head)))
    obls.append(_ob("tables/codec_table.no_other_heads", set(table) == set(CODEC_TABLE), "extra: %r" % sorted(set(table) - set(CODEC_TABLE))))
    for cls, (n, signed) in INT_LAYOUT.items():
        c = prog.classes.get(cls)
        consts = {k: ast.literal_eval(v) for k, v in (c.consts.items() if c else []) if isinstance(v, ast.Constant)}
        base_ok = c is not None and any(b.qual == "IntegerCodec" for b in c.mro[1:2])
        obls.append(_ob("tables/int_codec.%s.width_and_sign" % cls, base_ok and consts.get("bytesize") == n and consts.get("signed") is signed,
                        "consts %r" % consts))
    return obls
