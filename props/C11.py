from pyvc import standin

META = {"level": "proof", "trusted_base": ["assumed contract of networkx.MultiDiGraph (pyvc/nxmodel.py)",
                                           "collections.abc.MutableSet mixins (remove, pop, |=, &=, -=, ^=) touch the set "
                                           "only through add/discard/__contains__/__iter__/__len__"],
        "assumptions": ["labels are None or EdgeLabel tuples; edges are Edge tuples"]}


def bounded(tier, seed, known):
    n = 150 if tier == "quick" else 3000
    s, v = standin.module_standin("C11", "oracles.misc_oracles", ["C11", seed, n],
                                  "random sequences of add/discard/remove/pop/clear/update/|=/-=/&=/^= against a Python set of "
                                  "(source, target, label) triples; membership, length, iteration, out/in edges and the block "
                                  "accessors compared after every step (4 nodes x 5 labels, one node unattached)",
                                  "%d sequences of up to 10 operations, seed %d" % (n, seed))
    return [s], v


def replay_obligation(result, rep):
    return standin.module_witness("oracles.misc_oracles", ["C11", 1, 2000])
