from props._forest import bounded_for, replay_for

META = {"level": "proof",
        "trusted_base": ["assumed contract of sortedcontainers.SortedDict.irange (keys in [lo,hi) in increasing order)",
                         "collections.abc.MutableMapping mixins touch the mapping only through its primitives"],
        "assumptions": []}
bounded = bounded_for("C13", ["C13", "C04"])
replay_obligation = replay_for("C13", ["C13", "C04"])
