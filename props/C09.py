from props import _io

META = {"level": "proof",
        "trusted_base": ['google.protobuf runtime (message classes generated from /repo/proto by protoc)', 'oracles/io_oracles.py reference codec / parser (independent of /repo)'],
        "assumptions": [],
        "explanation": 'Proved for all tables and messages: decode-or-reuse by UUID with kind check (Node._from_protobuf for 7 classes), symbol referents, symbolic-expression symbols, CFG edge endpoints and AuxData UUID/Offset entries resolve to the very table entry (identity) and wrong kinds raise DeserializationError. Module entry point and whole-file identity: bounded stand-in.'}

bounded, replay_obligation = _io.make('C09', 'loaded IRs: identity of every reference with the object in the containment tree; one dangling / ill-typed / cross-kind reference of each kind must give DeserializationError', 300, 5000)
