from props import _io

META = {"level": "bounded",
        "trusted_base": ['google.protobuf runtime (message classes generated from /repo/proto by protoc)', 'oracles/io_oracles.py reference codec / parser (independent of /repo)'],
        "assumptions": [],
        "explanation": ''}

bounded, replay_obligation = _io.make('C09', 'loaded IRs: identity of every reference with the object in the containment tree; one dangling / ill-typed / cross-kind reference of each kind must give DeserializationError', 300, 5000)
