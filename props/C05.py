META = {"level": "proof", "trusted_base": ["assumed contract of intervaltree.IntervalTree (overlap/add/discard/begin/end)"],
        "assumptions": []}
