from pyvc import standin

META = {"level": "proof",
        "trusted_base": ["collections.abc mixin methods touch the collection only through its primitives; Set operators build "
                         "their result with cls._from_iterable"],
        "assumptions": []}


def bounded(tier, seed, known):
    n = 800 if tier == "quick" else 8000
    s, v = standin.module_standin("C16", "oracles.misc_oracles", ["C16", seed, n],
                                  "lock-step comparison of ir.modules / node sets / symbolic_expressions with built-in "
                                  "list / set / dict over the full MutableSequence / MutableSet / MutableMapping surface "
                                  "(return values, contents, exception types, ownership consistency after every call), incl. "
                                  "slice assignment and bulk operations whose argument is a list, a tuple, a generator or the "
                                  "live owning collection of another owner; inputs of known finding F-C04-1 excluded",
                                  "%d sequences of up to 10 calls, seed %d" % (n, seed))
    return [s], v


def replay_obligation(result, rep):
    return standin.module_witness("oracles.misc_oracles", ["C16", 1, 3000])
